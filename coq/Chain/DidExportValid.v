(** C08 / C11 for x/did, closing the loop between the running chain and its genesis file: whatever history a chain has
    gone through (from the empty registry or from a validated genesis), the DID genesis it exports passes
    GenesisState.Validate (as repaired, finding F14) — so the exported file can always be imported again. *)
From Coq Require Import Strings.String Strings.Byte.
From Coq Require Import List Arith NArith ZArith Bool Lia.
From PV Require Import Base.Bytes Base.Outcome Base.KV Proto.Model Proto.Proofs.
From PV Require Import Aol.Model Valid.Aol Bank.Model Did.Model Did.Props Did.Genesis.
From PV Require Import Chain.Model Chain.Run Chain.Lift Chain.DidProps Chain.StoredProps Chain.DidGenesisInv.
Import ListNotations.
Local Open Scope N_scope.

(** * the genesis reading of Valid() is weaker than the message reading *)
Lemma doc_valid_implies_json d : doc_valid d = true -> doc_valid_json d = true.
Proof.
  unfold doc_valid, doc_valid_json. destruct (doc_empty d) eqn:Ee; [reflexivity|].
  intros H. repeat rewrite andb_true_iff in H.
  destruct H as [[[[[[[[[[[H1 H2] H3] H4] H5] H6] H7] H8] H9] H10] H11] H12].
  repeat rewrite andb_true_iff. repeat split; assumption.
Qed.

Lemma doc_valid_json_empty_doc : doc_valid_json empty_doc = true.
Proof. reflexivity. Qed.

(** * the invariant: the registry invariant, and every stored document is filed under a valid DID and is Valid()
    in the genesis reading *)
Definition docs_valid (st : did_state) : Prop :=
  forall did e d, get (did_key did) st = Some e -> en_doc e = Some d ->
    validate_did did = true /\ doc_valid_json d = true.

Definition Inv_did_valid (st : did_state) : Prop :=
  Inv_did st /\
  forall did e d, get (did_key did) st = Some e -> en_doc e = Some d ->
    validate_did did = true /\ doc_valid_json d = true.

Lemma Inv_did_valid_empty : Inv_did_valid [].
Proof. split; [exact Inv_did_empty | intros did e d G; discriminate G]. Qed.

Lemma docs_valid_set st did e :
  docs_valid st -> validate_did did = true ->
  (forall d, en_doc e = Some d -> doc_valid_json d = true) ->
  docs_valid (set (did_key did) e st).
Proof.
  intros Hv Hdid Hdoc did' e' d' G Hd'. rewrite get_set in G.
  destruct (bytes_eqb (did_key did') (did_key did)) eqn:E.
  - apply bytes_eqb_eq in E. apply did_key_inj in E. subst did'.
    injection G as G. subst e'. split; [exact Hdid | apply Hdoc; exact Hd'].
  - exact (Hv did' e' d' G Hd').
Qed.

Lemma Inv_did_valid_set st did e :
  Inv_did_valid st -> entry_ok did e -> validate_did did = true ->
  (forall d, en_doc e = Some d -> doc_valid_json d = true) ->
  Inv_did_valid (set (did_key did) e st).
Proof.
  intros [Hi Hv] Hok Hdid Hdoc. split; [apply Inv_did_set; assumption|].
  apply docs_valid_set; assumption.
Qed.

(** * genesis: a validated genesis establishes the invariant *)
Lemma valid_entry_docs did e :
  validate_did_entry true (did, e) = true ->
  validate_did did = true /\ forall d, en_doc e = Some d -> doc_valid_json d = true.
Proof.
  unfold validate_did_entry. cbn [fst snd].
  destruct (validate_did did) eqn:Hv; [|discriminate]. cbn [andb].
  destruct (en_doc e) as [d|] eqn:Hd; [|discriminate].
  destruct (doc_valid_json d) eqn:Hj; [|discriminate].
  intros _. split; [reflexivity|]. intros d' [= <-]. exact Hj.
Qed.

Lemma init_did_inv_valid : forall g s0,
  Inv_did_valid s0 -> validate_did_genesis g = true -> Inv_did_valid (init_did g s0).
Proof.
  induction g as [|[did e] r IH]; intros s0 HI Hv; [exact HI|].
  unfold validate_did_genesis, validate_did_genesis_gen in Hv. cbn [forallb] in Hv.
  apply andb_true_iff in Hv as [He Hr]. cbn [init_did]. apply IH; [|exact Hr].
  destruct (valid_entry_docs did e He) as [Hdid Hdoc].
  apply Inv_did_valid_set; [exact HI | apply valid_entry_ok; exact He | exact Hdid | exact Hdoc].
Qed.

Theorem genesis_establishes_valid g : validate_did_genesis g = true -> Inv_did_valid (init_did g []).
Proof. apply init_did_inv_valid. exact Inv_did_valid_empty. Qed.

(** * histories: every handler keeps the invariant, because the stateless validation ran first *)
Lemma vb_create_update_doc_valid unbech did doc sig from :
  vb_create_update unbech true did doc sig from = Ok tt ->
  validate_did did = true /\ exists d, doc = Some d /\ doc_valid d = true /\ doc_id d = did.
Proof.
  intros H. pose proof (vb_create_update_strict unbech did doc sig from H) as [Hv [d [-> _]]].
  split; [exact Hv|]. exists d. split; [reflexivity|].
  unfold vb_create_update in H. rewrite Hv in H. cbn [negb] in H.
  destruct (vb_doc true did (Some d)) as [[]| |] eqn:Ed; cbn [bind] in H; try discriminate H.
  apply vb_doc_valid. exact Ed.
Qed.

Lemma vb_deactivate_did_valid unbech did sig from :
  vb_deactivate unbech did sig from = Ok tt -> validate_did did = true.
Proof.
  unfold vb_deactivate. destruct (validate_did did) eqn:Hv; [reflexivity|]. cbn [negb]. discriminate.
Qed.

Definition R_valid (c c' : chain) : Prop := Inv_did_valid (c_did c) -> Inv_did_valid (c_did c').

Lemma R_valid_same c c' : c_did c' = c_did c -> R_valid c c'.
Proof. intros E Hi. rewrite E. exact Hi. Qed.

Lemma R_valid_refl c : R_valid c c.
Proof. apply R_valid_same. reflexivity. Qed.

Lemma R_valid_trans a b0 c : R_valid a b0 -> R_valid b0 c -> R_valid a c.
Proof. intros H1 H2 Ha. apply H2. apply H1. exact Ha. Qed.

Lemma exec_did_step_valid e c m c' a :
  vb_did e m = Ok tt -> exec_did e c m = Ok (c', a) -> R_valid c c'.
Proof.
  intros Hvb Hx [Hi Hv].
  destruct (exec_did_step e c m c' a Hvb Hx Hi) as [Hi' _]. split; [exact Hi'|].
  fold (docs_valid (c_did c')). fold (docs_valid (c_did c)) in Hv.
  destruct m as [did doc vmid sg from|did doc vmid sg from|did vmid sg from]; cbn [vb_did] in Hvb.
  - apply vb_create_update_doc_valid in Hvb as [Hdid [d [-> [Hd _]]]]. cbn [exec_did] in Hx.
    destruct (create_did (e_b58key e) (e_verify e) marshal_doc (c_did c) did d vmid sg) as [st'| |] eqn:Ec;
      cbn [bind] in Hx; try discriminate Hx.
    injection Hx as Hc _. subst c'. cbn [c_did with_did]. apply create_did_ok in Ec as [_ [_ ->]].
    apply docs_valid_set; [exact Hv | exact Hdid|].
    cbn [en_doc]. intros d' [= <-]. apply doc_valid_implies_json. exact Hd.
  - apply vb_create_update_doc_valid in Hvb as [Hdid [d [-> [Hd _]]]]. cbn [exec_did] in Hx.
    destruct (update_did (e_b58key e) (e_verify e) marshal_doc (c_did c) did d vmid sg) as [st'| |] eqn:Ec;
      cbn [bind] in Hx; try discriminate Hx.
    injection Hx as Hc _. subst c'. cbn [c_did with_did]. apply update_did_ok in Ec as [stored [_ [_ [_ [_ ->]]]]].
    apply docs_valid_set; [exact Hv | exact Hdid|].
    cbn [en_doc]. intros d' [= <-]. apply doc_valid_implies_json. exact Hd.
  - apply vb_deactivate_did_valid in Hvb. cbn [exec_did] in Hx.
    destruct (deactivate_did (e_b58key e) (e_verify e) marshal_doc (c_did c) did vmid sg) as [st'| |] eqn:Ec;
      cbn [bind] in Hx; try discriminate Hx.
    injection Hx as Hc _. subst c'. cbn [c_did with_did]. apply deactivate_did_ok in Ec as [stored [_ [_ [_ [_ ->]]]]].
    apply docs_valid_set; [exact Hv | exact Hvb|].
    cbn [en_doc]. intros d' [= <-]. exact doc_valid_json_empty_doc.
Qed.

Lemma exec_base_valid e c m c' acks :
  vb_base e m = Ok tt -> exec_base e c m = Ok (c', acks) -> R_valid c c'.
Proof.
  intros Hvb Hx.
  destruct m as [am|dm|pm|f t amt|f t amt et|g r u ex|g r u|f amt outs];
    try (apply (R_valid_same c c'); eapply exec_base_did_frame; [exact Hx | intros dm0; discriminate]).
  cbn [vb_base] in Hvb. cbn [exec_base] in Hx. exact (exec_did_step_valid e c dm c' acks Hvb Hx).
Qed.

Theorem did_run_valid o bs c : Inv_did_valid (c_did c) -> Inv_did_valid (c_did (run o c bs)).
Proof.
  intros Hi.
  refine (R_run R_valid (fun _ => True) R_valid_refl R_valid_trans _ _ _ _ o (fun _ => I) bs c Hi).
  - intros e c0 m c' acks _ Hvb Hx. exact (exec_base_valid e c0 m c' acks Hvb Hx).
  - intros e c0 t c' _ Hx. apply R_valid_same. exact (ante_did_frame e c0 t c' Hx).
  - intros e c0 _. apply R_valid_same. reflexivity.
  - intros e c0 _. apply R_valid_same. apply end_block_custom.
Qed.

(** * export: under the invariant the exported genesis passes the (repaired) validation *)
Lemma entry_ok_strict did e d :
  entry_ok did e -> en_doc e = Some d -> entry_deactivated e || bytes_eqb (doc_id d) did = true.
Proof.
  intros [d' [Hd' Hcase]] Hd. rewrite Hd in Hd'. injection Hd' as <-.
  destruct Hcase as [[Hid _]|[He Hs]].
  - rewrite Hid, bytes_eqb_refl. apply orb_true_r.
  - unfold entry_deactivated. rewrite Hd, He. apply N.eqb_neq in Hs. rewrite Hs. reflexivity.
Qed.

Theorem export_passes_validation st : Inv_did_valid st -> validate_did_genesis (export_did st) = true.
Proof.
  intros [Hi Hv]. unfold validate_did_genesis, validate_did_genesis_gen.
  apply forallb_forall. intros [did e] Hin.
  apply (export_did_In st Hi) in Hin.
  destruct (proj2 Hi _ _ Hin) as [did' [Ek Hok]]. apply did_key_inj in Ek. subst did'.
  destruct Hok as [d [Hd Hcase]].
  destruct (Hv did e d Hin Hd) as [Hdid Hj].
  unfold validate_did_entry. cbn [fst snd negb orb]. rewrite Hdid, Hd, Hj. cbn [andb].
  apply (entry_ok_strict did e d); [exists d; split; [exact Hd | exact Hcase] | exact Hd].
Qed.

(** * the end-to-end statements *)
Theorem export_of_any_history_passes_validation o bs c g :
  validate_did_genesis g = true -> c_did c = init_did g [] ->
  validate_did_genesis (export_did (c_did (run o c bs))) = true.
Proof.
  intros Hg Hc. apply export_passes_validation. apply did_run_valid. rewrite Hc.
  apply genesis_establishes_valid. exact Hg.
Qed.

Theorem export_from_empty_passes_validation o bs c :
  c_did c = [] -> validate_did_genesis (export_did (c_did (run o c bs))) = true.
Proof.
  intros Hc. apply export_passes_validation. apply did_run_valid. rewrite Hc. exact Inv_did_valid_empty.
Qed.

Print Assumptions export_of_any_history_passes_validation.
Print Assumptions export_from_empty_passes_validation.
