(** C08 with the JSON layer of the genesis file (known finding K3).

    [export_import_json] is [export_import] with every string field of the exported genesis passed through
    json.Marshal / Unmarshal ([coerce_utf8]) and the AOL genesis validation run on the coerced values.

    - When every string field of the exported genesis is valid UTF-8 ([utf8_ok_chain]) the JSON layer is
      invisible: [export_import_json = export_import], and all the statements of Chain/GenesisProps.v transfer.
      [text_ok] is a sufficient condition on the stored values.
    - Nothing in the transaction pipeline enforces that: one accepted CreateTopic whose description is the
      byte 0xff gives a state whose genesis round trip succeeds but does NOT give the state back (the
      description comes back as EF BF BD); with 5000 such bytes the exported genesis is refused by the
      importing node (15000 > 5000). *)
From Coq Require Import Strings.String Strings.Byte.
From Coq Require Import List Arith NArith ZArith Bool Lia ZifyN ZifyNat.
From PV Require Import Base.Bytes Base.Utf8 Base.Utf8Proofs Base.Outcome Base.KV Compkey.Model Compkey.Proofs.
From PV Require Import Aol.Model Aol.Spec Aol.Inv Aol.StoredSpec Aol.Stored Aol.Genesis Valid.Aol Bank.Model.
From PV Require Import Did.Model Did.Props Did.Genesis.
From PV Require Import Pnft.Model Pnft.Spec Pnft.Inv Pnft.Genesis.
From PV Require Import Chain.Model Chain.Run Chain.Lift Chain.AolProps Chain.DidProps Chain.StoredProps Chain.PnftProps
  Chain.GenesisProps.
Import ListNotations.

(** * generalities *)
Definition vu (x : bytes) : Prop := valid_utf8 x = true.

Lemma cu_id x : vu x -> cu x = x.
Proof. intros H. unfold cu. apply coerce_valid. exact H. Qed.

Lemma cu_id_iff x : cu x = x <-> vu x.
Proof. unfold cu, vu. apply coerce_id_iff_valid. Qed.

Lemma map_id_in {A} (f : A -> A) (l : list A) : (forall x, In x l -> f x = x) -> map f l = l.
Proof. intros H. rewrite <- (map_id l) at 2. apply map_ext_in. exact H. Qed.

Lemma map_id_Forall {A} (P : A -> Prop) (f : A -> A) (l : list A) :
  (forall x, P x -> f x = x) -> Forall P l -> map f l = l.
Proof. intros H HF. apply map_id_in. rewrite Forall_forall in HF. intros x Hx. apply H. apply HF. exact Hx. Qed.

(** the texts that the validators restrict to [A-Za-z0-9._-], and decimal numbers, are ASCII *)
Lemma name_char_ascii c : name_char c = true -> is_ascii c.
Proof. destruct c; intros H; try (vm_compute in H; discriminate H); reflexivity. Qed.

Lemma name_chars_utf8 t : forallb name_char t = true -> vu t.
Proof.
  intros H. apply ascii_valid. rewrite Forall_forall. intros c Hc. apply name_char_ascii.
  rewrite forallb_forall in H. apply H. exact Hc.
Qed.

Lemma print_dec_utf8 n : vu (print_dec n).
Proof.
  destruct (print_dec_spec n) as (ds & E & _ & Hd & _). rewrite E. apply ascii_valid.
  eapply Forall_impl; [|exact Hd]. intros c Hc. unfold is_digit in Hc. lia.
Qed.

Lemma sep_ascii : is_ascii sep.
Proof. reflexivity. Qed.

Lemma valid_join2 x y : vu x -> vu y -> vu (x ++ sep :: y).
Proof.
  intros Hx Hy. apply valid_app; [exact Hx|]. apply valid_cons_ascii; [exact sep_ascii | exact Hy].
Qed.

(** * the texts of the three stores *)
(** ** x/aol *)
Definition aol_val_text_ok (v : aol_val) : Prop :=
  match v with
  | VTopic d _ _ => vu d
  | VWriter m d _ => vu m /\ vu d
  | VRecord _ _ _ w => vu w
  | VOwner _ => True
  end.

(** the stored free texts: topic and writer descriptions *)
Definition descriptions_ok (st : aol_state) : Prop :=
  forall K v, lookup st K = Some v ->
    match v with VTopic d _ _ => vu d | VWriter _ d _ => vu d | _ => True end.

(** the writer address string kept in every record (the text of the message that wrote it) *)
Definition record_writers_utf8 (st : aol_state) : Prop :=
  forall K v, lookup st K = Some v -> match v with VRecord _ _ _ w => vu w | _ => True end.

(** ... decodes (it did when the record was written: [writers_decode_run]) *)
Definition wd_val (unbech : bytes -> option bytes) (v : aol_val) : Prop :=
  match v with VRecord _ _ _ w => unbech w <> None | _ => True end.
Definition writers_decode (unbech : bytes -> option bytes) (st : aol_state) : Prop :=
  forall K v, lookup st K = Some v -> wd_val unbech v.

Lemma coerce_aol_val_id v : aol_val_text_ok v -> coerce_aol_val v = v.
Proof.
  destruct v as [n|d nr nw|m d t|k x t w]; cbn [aol_val_text_ok coerce_aol_val]; intros H.
  - reflexivity.
  - rewrite (cu_id _ H). reflexivity.
  - destruct H as [H1 H2]. rewrite (cu_id _ H1), (cu_id _ H2). reflexivity.
  - rewrite (cu_id _ H). reflexivity.
Qed.

Lemma coerce_gen_entries_id l :
  (forall e, In e l -> vu (fst e) /\ aol_val_text_ok (snd e)) -> coerce_gen_entries l = l.
Proof.
  intros H. unfold coerce_gen_entries. apply map_id_in. intros [ks v] Hin.
  destruct (H _ Hin) as [H1 H2]. cbn [fst snd] in *. rewrite (cu_id _ H1), (coerce_aol_val_id _ H2). reflexivity.
Qed.

Definition key_topic_utf8 (K : typed_key) : Prop :=
  match K with
  | OwnerKey _ => True
  | TopicKey _ t | WriterKey _ t _ | RecordKey _ t _ => vu t
  end.

(** the topic name in a stored key was accepted by [validate_topic_name]: it is ASCII *)
Lemma val_ok_topic_utf8 K v : val_ok K v -> key_topic_utf8 K.
Proof.
  intros H. destruct K as [o|o t|o t w|o t n]; [exact I| | |];
    destruct v; cbn [val_ok] in H; try contradiction;
    destruct H as [Vt _]; apply validate_topic_name_ok in Vt; cbn [key_topic_utf8]; apply name_chars_utf8; tauto.
Qed.

Lemma stored_text st : Stored_ok st -> descriptions_ok st -> record_writers_utf8 st ->
  forall K v, lookup st K = Some v -> aol_val_text_ok v.
Proof.
  intros HS HD HR K v L. pose proof (HS K v L) as V. pose proof (HD K v L) as D. pose proof (HR K v L) as R.
  destruct K as [o|o t|o t w|o t n]; destruct v as [n'|d nr nw|m d t'|k x t' w'];
    cbn [val_ok] in V; try contradiction; cbn [aol_val_text_ok].
  - exact I.
  - exact D.
  - split; [|exact D]. destruct V as (_ & Vm & _). apply validate_moniker_ok in Vm. apply name_chars_utf8. tauto.
  - exact R.
Qed.

(** ** x/did *)
Definition vm_text_ok (v : vmethod) : Prop :=
  vu (vm_id v) /\ vu (vm_type v) /\ vu (vm_controller v) /\ vu (vm_pubkey58 v).
Definition rel_text_ok (r : vrel) : Prop := match r with VRef i => vu i | VDed v => vm_text_ok v end.
Definition service_text_ok (s : service) : Prop := vu (sv_id s) /\ vu (sv_type s) /\ vu (sv_endpoint s).
Definition strings_ok (o : option (list bytes)) : Prop := match o with Some l => Forall vu l | None => True end.
Definition doc_text_ok (d : did_doc) : Prop :=
  strings_ok (doc_contexts d) /\ vu (doc_id d) /\ strings_ok (doc_controller d) /\ Forall vm_text_ok (doc_vms d) /\
  Forall rel_text_ok (doc_auth d) /\ Forall rel_text_ok (doc_assert d) /\ Forall rel_text_ok (doc_keyagree d) /\
  Forall rel_text_ok (doc_capinv d) /\ Forall rel_text_ok (doc_capdel d) /\ Forall service_text_ok (doc_services d).
(** every DID and every string of every stored document *)
Definition did_text_ok (st : did_state) : Prop :=
  forall did e, get (did_key did) st = Some e ->
    vu did /\ match en_doc e with Some d => doc_text_ok d | None => True end.

Lemma coerce_strings_id o : strings_ok o -> option_map (map cu) o = o.
Proof.
  destruct o as [l|]; cbn [strings_ok option_map]; intros H; [|reflexivity].
  rewrite (map_id_Forall vu cu l cu_id H). reflexivity.
Qed.

Lemma coerce_vm_id v : vm_text_ok v -> coerce_vm v = v.
Proof.
  destruct v as [i t c p]. unfold vm_text_ok, coerce_vm. cbn [vm_id vm_type vm_controller vm_pubkey58].
  intros (H1 & H2 & H3 & H4). rewrite (cu_id _ H1), (cu_id _ H2), (cu_id _ H3), (cu_id _ H4). reflexivity.
Qed.

Lemma coerce_rel_id r : rel_text_ok r -> coerce_rel r = r.
Proof.
  destruct r as [i|v]; cbn [rel_text_ok coerce_rel]; intros H.
  - rewrite (cu_id _ H). reflexivity.
  - rewrite (coerce_vm_id _ H). reflexivity.
Qed.

Lemma coerce_service_id s : service_text_ok s ->
  {| sv_id := cu (sv_id s); sv_type := cu (sv_type s); sv_endpoint := cu (sv_endpoint s) |} = s.
Proof.
  destruct s as [i t p]. unfold service_text_ok. cbn [sv_id sv_type sv_endpoint].
  intros (H1 & H2 & H3). rewrite (cu_id _ H1), (cu_id _ H2), (cu_id _ H3). reflexivity.
Qed.

Lemma coerce_doc_id d : doc_text_ok d -> coerce_doc d = d.
Proof.
  destruct d as [cx i ct vms au asr ka ci cd sv]. unfold doc_text_ok, coerce_doc.
  cbn [doc_contexts doc_id doc_controller doc_vms doc_auth doc_assert doc_keyagree doc_capinv doc_capdel doc_services].
  intros (H1 & H2 & H3 & H4 & H5 & H6 & H7 & H8 & H9 & H10).
  rewrite (coerce_strings_id _ H1), (cu_id _ H2), (coerce_strings_id _ H3).
  rewrite (map_id_Forall _ _ _ coerce_vm_id H4).
  rewrite (map_id_Forall _ _ _ coerce_rel_id H5), (map_id_Forall _ _ _ coerce_rel_id H6),
    (map_id_Forall _ _ _ coerce_rel_id H7), (map_id_Forall _ _ _ coerce_rel_id H8), (map_id_Forall _ _ _ coerce_rel_id H9).
  rewrite (map_id_Forall _ _ _ coerce_service_id H10). reflexivity.
Qed.

Lemma did_export_utf8 st : Inv_did st -> did_text_ok st -> coerce_did_genesis (export_did st) = export_did st.
Proof.
  intros HI HT. unfold coerce_did_genesis. apply map_id_in. intros [did e] Hin.
  apply (export_did_In st HI) in Hin. destruct (HT did e Hin) as [H1 H2]. cbn [fst snd].
  rewrite (cu_id _ H1). f_equal. destruct e as [[d|] s]; cbn [en_doc en_seq option_map] in *; [|reflexivity].
  rewrite (coerce_doc_id _ H2). reflexivity.
Qed.

(** ** x/pnft *)
Definition denom_text_ok (d : denom) : Prop :=
  vu (dn_id d) /\ vu (dn_name d) /\ vu (dn_symbol d) /\ vu (dn_description d) /\ vu (dn_uri d) /\
  vu (dn_uri_hash d) /\ vu (dn_owner d) /\ vu (dn_data d).
Definition token_text_ok (t : token) : Prop :=
  vu (tk_class t) /\ vu (tk_id t) /\ vu (tk_uri t) /\ vu (tk_uri_hash t) /\ vu (tk_name t) /\
  vu (tk_description t) /\ vu (tk_creator t) /\ vu (tk_data t).
(** every text field of every stored class and token *)
Definition pnft_text_ok (st : pnft_state) : Prop :=
  forall k v, In (k, v) st ->
    match v with VClass d => denom_text_ok d | VToken t => token_text_ok t | _ => True end.

Lemma coerce_denom_id d : denom_text_ok d -> coerce_denom d = d.
Proof.
  destruct d as [a1 a2 a3 a4 a5 a6 a7 a8]. unfold denom_text_ok, coerce_denom.
  cbn [dn_id dn_name dn_symbol dn_description dn_uri dn_uri_hash dn_owner dn_data].
  intros (H1 & H2 & H3 & H4 & H5 & H6 & H7 & H8).
  rewrite (cu_id _ H1), (cu_id _ H2), (cu_id _ H3), (cu_id _ H4), (cu_id _ H5), (cu_id _ H6), (cu_id _ H7), (cu_id _ H8).
  reflexivity.
Qed.

Lemma coerce_token_id t : token_text_ok t -> coerce_token t = t.
Proof.
  destruct t as [a1 a2 a3 a4 a5 a6 a7 z a8]. unfold token_text_ok, coerce_token.
  cbn [tk_class tk_id tk_uri tk_uri_hash tk_name tk_description tk_creator tk_created_at tk_data].
  intros (H1 & H2 & H3 & H4 & H5 & H6 & H7 & H8).
  rewrite (cu_id _ H1), (cu_id _ H2), (cu_id _ H3), (cu_id _ H4), (cu_id _ H5), (cu_id _ H6), (cu_id _ H7), (cu_id _ H8).
  reflexivity.
Qed.

Lemma all_denoms_src st d : In d (all_denoms st) -> exists k, In (k, VClass d) st.
Proof.
  unfold all_denoms. intros H. apply in_flat_map in H as ([k v] & He & Hd).
  unfold prefix_items in He. apply filter_In in He as [He _]. cbn [snd] in Hd.
  destruct v; try contradiction Hd. destruct Hd as [->|[]]. exists k. exact He.
Qed.

Lemma tokens_of_class_src st c t : In t (tokens_of_class st c) -> exists k, In (k, VToken t) st.
Proof.
  unfold tokens_of_class. intros H. apply in_flat_map in H as ([k v] & He & Hd).
  unfold prefix_items in He. apply filter_In in He as [He _]. cbn [snd] in Hd.
  destruct v; try contradiction Hd. destruct Hd as [->|[]]. exists k. exact He.
Qed.

(** * the round trip with the JSON layer *)
Section J.
  Variable bech : bytes -> bytes.
  Variable unbech : bytes -> option bytes.

  (** every string field that the JSON layer touches is valid UTF-8 in the exported genesis of [c] *)
  Definition utf8_ok_chain (c : chain) : Prop :=
    (forall g, export_genesis bech (c_aol c) = Ok g -> coerce_aol_genesis g = g) /\
    coerce_did_genesis (export_did (c_did c)) = export_did (c_did c) /\
    coerce_pnft_genesis (export_pnft bech (c_pnft c)) = export_pnft bech (c_pnft c).

  (** a sufficient condition on the stored values *)
  Record text_ok (c : chain) : Prop := {
    to_desc : descriptions_ok (c_aol c);
    to_writer : record_writers_utf8 (c_aol c);
    to_did : did_text_ok (c_did c);
    to_pnft : pnft_text_ok (c_pnft c) }.

  Section Sufficient.
    (** bech32 text is ASCII *)
    Hypothesis bech_utf8 : forall a, vu (bech a).

    Lemma encode_to_string_utf8 K : key_topic_utf8 K -> vu (encode_to_string bech K).
    Proof.
      destruct K as [o|o t|o t w|o t n]; cbn [key_topic_utf8]; intros Ht;
        unfold encode_to_string; cbn [key_strings join_with].
      - apply bech_utf8.
      - apply valid_join2; [apply bech_utf8 | exact Ht].
      - apply valid_join2; [apply bech_utf8|]. apply valid_join2; [exact Ht | apply bech_utf8].
      - apply valid_join2; [apply bech_utf8|]. apply valid_join2; [exact Ht | apply print_dec_utf8].
    Qed.

    Lemma aol_export_utf8 st : Inv st -> Stored_ok st -> descriptions_ok st -> record_writers_utf8 st ->
      forall g, export_genesis bech st = Ok g -> coerce_aol_genesis g = g.
    Proof.
      intros HI HS HD HR g Eg. rewrite (export_genesis_eq bech st HI) in Eg. injection Eg as <-.
      assert (A : forall kind, coerce_gen_entries (exp_list bech kind st) = exp_list bech kind st).
      { intros kind. apply coerce_gen_entries_id. intros [ks v] Hin.
        apply (exp_list_In bech st HI) in Hin as (K & Hk & HO & -> & L). cbn [fst snd]. split.
        - apply encode_to_string_utf8. apply (val_ok_topic_utf8 K v). apply HS. exact L.
        - exact (stored_text st HS HD HR K v L). }
      unfold coerce_aol_genesis. cbn [g_owners g_topics g_writers g_records]. rewrite !A. reflexivity.
    Qed.

    Lemma owner_string_utf8 o : vu (owner_string bech o).
    Proof. destruct o as [|c r]; [reflexivity | apply bech_utf8]. Qed.

    Lemma pnft_export_utf8 st : pnft_text_ok st -> coerce_pnft_genesis (export_pnft bech st) = export_pnft bech st.
    Proof.
      intros HT. unfold coerce_pnft_genesis, export_pnft. cbn [pg_denoms pg_pnfts]. f_equal.
      - apply map_id_in. intros d Hd. destruct (all_denoms_src st d Hd) as [k Hk].
        apply coerce_denom_id. exact (HT k _ Hk).
      - apply map_id_in. intros p Hp. apply in_flat_map in Hp as (d & _ & Hp).
        unfold pnfts_of_class in Hp. apply in_map_iff in Hp as (t & <- & Ht). cbn [p_token p_owner].
        destruct (tokens_of_class_src st _ t Ht) as [k Hk].
        rewrite (coerce_token_id t (HT k _ Hk)), (cu_id _ (owner_string_utf8 _)). reflexivity.
    Qed.

    Theorem text_ok_utf8_ok c : genesis_ok c -> text_ok c -> utf8_ok_chain c.
    Proof.
      intros [H1 H2 H3 H4 H5] [T1 T2 T3 T4]. split; [|split].
      - exact (aol_export_utf8 (c_aol c) H1 H2 T1 T2).
      - exact (did_export_utf8 (c_did c) H3 T3).
      - exact (pnft_export_utf8 (c_pnft c) T4).
    Qed.

    (** when bech32 decoding only accepts ASCII text (as the real one does), the record writer strings need
        no separate premise *)
    Lemma writers_decode_utf8 st :
      (forall s a, unbech s = Some a -> vu s) -> writers_decode unbech st -> record_writers_utf8 st.
    Proof.
      intros Hu HW K v L. pose proof (HW K v L) as D. destruct v as [n|d nr nw|m d t|k x t w]; try exact I.
      cbn [wd_val] in D. destruct (unbech w) as [a|] eqn:E; [exact (Hu w a E) | contradiction D; reflexivity].
    Qed.
  End Sufficient.

  (** the exported AOL genesis of a store within the limits, whose record writer strings decode, passes
      the genesis validation (Topic.Validate, Writer.Validate, Record.Validate) *)
  Lemma aol_export_valid st : Inv st -> Stored_ok st -> writers_decode unbech st ->
    forall g, export_genesis bech st = Ok g -> aol_genesis_valid unbech g = true.
  Proof.
    intros HI HS HW g Eg. rewrite (export_genesis_eq bech st HI) in Eg. injection Eg as <-.
    unfold aol_genesis_valid. cbn [g_topics g_writers g_records]. apply forallb_forall. intros [ks v] Hin. cbn [snd].
    assert (HK : exists K, kind_of K <> KOwner /\ lookup st K = Some v).
    { apply in_app_or in Hin as [Hin|Hin]; [|apply in_app_or in Hin as [Hin|Hin]];
        apply (exp_list_In bech st HI) in Hin as (K & Hk & _ & _ & L); exists K; (split; [rewrite Hk; discriminate | exact L]). }
    destruct HK as (K & Hk & L). pose proof (HS K v L) as V. pose proof (HW K v L) as D.
    destruct K as [o|o t|o t w|o t n]; [contradiction Hk; reflexivity| | |];
      destruct v as [n'|d nr nw|m d t'|k x t' w']; cbn [val_ok] in V; try contradiction; cbn [aol_val_valid].
    - destruct V as [_ Vd]. rewrite Vd. reflexivity.
    - destruct V as (_ & Vm & Vd). rewrite Vm, Vd. reflexivity.
    - destruct V as (_ & Vk & _). apply validate_record_key_ok in Vk. cbn [wd_val] in D.
      destruct (unbech w') as [a|]; [|contradiction D; reflexivity].
      rewrite andb_true_r. apply N.leb_le. unfold blen. exact Vk.
  Qed.

  (** ** (a) on valid UTF-8 the JSON layer is invisible *)
  Theorem export_import_json_eq c :
    genesis_ok c -> writers_decode unbech (c_aol c) -> utf8_ok_chain c ->
    export_import_json bech unbech c = export_import bech unbech c.
  Proof.
    intros [H1 H2 H3 H4 H5] HW (U1 & U2 & U3). unfold export_import_json, export_import.
    destruct (export_genesis bech (c_aol c)) as [g| |] eqn:Eg; cbn [bind]; try reflexivity.
    cbv zeta. rewrite (U1 g eq_refl), (aol_export_valid (c_aol c) H1 H2 HW g Eg). cbn [negb].
    rewrite U2, U3. reflexivity.
  Qed.

  Lemma utf8_ok_imported c : sorted (c_pnft c) -> utf8_ok_chain c -> utf8_ok_chain (imported c).
  Proof.
    intros Hs (U1 & U2 & U3). unfold utf8_ok_chain, imported. cbn [with_pnft c_aol c_did c_pnft].
    rewrite (strip_export bech (c_pnft c) Hs). auto.
  Qed.

  (** ** hence the statements of C08 transfer *)
  Section C08.
    Hypothesis unbech_bech : forall a, verify_address_format a = true -> unbech (bech a) = Some a.
    Hypothesis bech_no_slash : forall a, no_byte sep (bech a).
    Hypothesis bech_nonempty : forall a, verify_address_format a = true -> bech a <> [].

    (** the states considered *)
    Definition json_ok (c : chain) : Prop := genesis_ok c /\ writers_decode unbech (c_aol c) /\ utf8_ok_chain c.

    Lemma json_ok_imported c : json_ok c -> json_ok (imported c).
    Proof.
      intros (H & HW & HU). split; [exact (genesis_ok_imported c H)|]. split; [exact HW|].
      apply utf8_ok_imported; [exact (ip_sorted _ (go_pnft c H)) | exact HU].
    Qed.

    Theorem export_import_json_chain c : json_ok c -> export_import_json bech unbech c = Ok (imported c).
    Proof.
      intros (H & HW & HU). rewrite (export_import_json_eq c H HW HU).
      exact (export_import_chain bech unbech unbech_bech bech_no_slash bech_nonempty c H).
    Qed.

    Corollary export_import_json_chain_fields c : json_ok c ->
      exists c', export_import_json bech unbech c = Ok c' /\
        c_aol c' = c_aol c /\ c_did c' = c_did c /\ c_pnft c' = strip_zero_supply (c_pnft c) /\
        c_bank c' = c_bank c /\ c_grants c' = c_grants c /\ json_ok c'.
    Proof.
      intros H. exists (imported c). split; [exact (export_import_json_chain c H)|].
      do 5 (split; [reflexivity|]). exact (json_ok_imported c H).
    Qed.

    Corollary export_import_json_chain_pnft_reads c c' : json_ok c -> export_import_json bech unbech c = Ok c' ->
      (forall id, get_class (c_pnft c') id = get_class (c_pnft c) id) /\
      (forall id i, get_pnft bech (c_pnft c') id i = get_pnft bech (c_pnft c) id i) /\
      (forall id i, get_owner (c_pnft c') id i = get_owner (c_pnft c) id i) /\
      (forall id, get_supply (c_pnft c') id = get_supply (c_pnft c) id) /\
      all_denoms (c_pnft c') = all_denoms (c_pnft c) /\
      (forall id, pnfts_of_class bech (c_pnft c') id = pnfts_of_class bech (c_pnft c) id).
    Proof.
      intros (H & HW & HU) E. rewrite (export_import_json_eq c H HW HU) in E.
      exact (export_import_chain_pnft_reads bech unbech unbech_bech bech_no_slash bech_nonempty c c' H E).
    Qed.

    Theorem export_import_json_chain_identity c : json_ok c -> no_zero_supply (c_pnft c) ->
      export_import_json bech unbech c = Ok c.
    Proof.
      intros (H & HW & HU) Hz. rewrite (export_import_json_eq c H HW HU).
      exact (export_import_chain_identity bech unbech unbech_bech bech_no_slash bech_nonempty c H Hz).
    Qed.

    Theorem reexport_identical_json c c' : json_ok c -> export_import_json bech unbech c = Ok c' ->
      export_genesis bech (c_aol c') = export_genesis bech (c_aol c) /\
      export_did (c_did c') = export_did (c_did c) /\
      export_pnft bech (c_pnft c') = export_pnft bech (c_pnft c).
    Proof.
      intros (H & HW & HU) E. rewrite (export_import_json_eq c H HW HU) in E.
      exact (reexport_identical bech unbech unbech_bech bech_no_slash bech_nonempty c c' H E).
    Qed.

    Theorem export_import_json_idempotent c c' : json_ok c -> export_import_json bech unbech c = Ok c' ->
      json_ok c' /\ export_import_json bech unbech c' = Ok c'.
    Proof.
      intros H E. rewrite (export_import_json_chain c H) in E. injection E as <-.
      pose proof (json_ok_imported c H) as H'. split; [exact H'|].
      rewrite (export_import_json_chain _ H'). rewrite imported_idem. reflexivity.
    Qed.
  End C08.
End J.

(** * the record writer strings decode, along every history *)
Section WD.
  Variable unbech : bytes -> option bytes.
  Hypothesis Hunbech : unbech_wf unbech.
  Variable now : Z.

  Lemma writers_decode_off st :
    (forall K v, off_ok K -> lookup st K = Some v -> wd_val unbech v) -> writers_decode unbech st.
  Proof.
    intros H K v L. apply (H (norm_key K)); [apply off_ok_norm | rewrite lookup_norm; exact L].
  Qed.

  Lemma create_topic_wd st t d o st' : Inv st -> writers_decode unbech st ->
    create_topic unbech st t d o = Ok st' -> writers_decode unbech st'.
  Proof.
    intros HI HW H.
    destruct (create_topic_char unbech Hunbech _ _ _ _ _ HI H) as (o' & tot & Ho & Wt & Lt & Htot & Ss & Sw & HL & _).
    apply writers_decode_off. intros K v OK L. rewrite HL in L by exact OK. kdec.
    - inversion L; subst v. exact I.
    - inversion L; subst v. exact I.
    - exact (HW _ _ L).
  Qed.

  Lemma add_writer_wd st t m d w o st' : Inv st -> writers_decode unbech st ->
    add_writer unbech now st t m d w o = Ok st' -> writers_decode unbech st'.
  Proof.
    intros HI HW H.
    destruct (add_writer_char unbech Hunbech now _ _ _ _ _ _ _ HI H)
      as (o' & w' & d0 & nr & nw & Ho & Hw & Ww & Lt & Lw & Ss & Sw & HL & _).
    apply writers_decode_off. intros K v OK L. rewrite HL in L by exact OK. kdec.
    - inversion L; subst v. exact I.
    - inversion L; subst v. exact I.
    - exact (HW _ _ L).
  Qed.

  Lemma delete_writer_wd st t w o st' : Inv st -> writers_decode unbech st ->
    delete_writer unbech st t w o = Ok st' -> writers_decode unbech st'.
  Proof.
    intros HI HW H.
    destruct (delete_writer_char unbech Hunbech _ _ _ _ _ HI H)
      as (o' & w' & d0 & nr & nw & Ho & Hw & Ww & Lt & Hhw & Hnw & Ss & Sw & HL & _).
    apply writers_decode_off. intros K v OK L. rewrite HL in L by exact OK. kdec.
    - discriminate L.
    - inversion L; subst v. exact I.
    - exact (HW _ _ L).
  Qed.

  Lemma add_record_wd st t k x w o st' n : Inv st -> writers_decode unbech st ->
    add_record unbech now st t k x w o = Ok (st', n) -> writers_decode unbech st'.
  Proof.
    intros HI HW H.
    destruct (add_record_char unbech Hunbech now _ _ _ _ _ _ _ _ HI H)
      as (o' & w' & d0 & nw & Ho & Hw & Wr & Lt & Hhw & Hcap & Lr & Ss & Sw & HL & _).
    apply writers_decode_off. intros K v OK L. rewrite HL in L by exact OK. kdec.
    - inversion L; subst v. cbn [wd_val]. rewrite Hw. discriminate.
    - inversion L; subst v. exact I.
    - exact (HW _ _ L).
  Qed.
End WD.

Lemma exec_aol_wd e c m c' a :
  env_ok e -> Inv (c_aol c) -> writers_decode (e_unbech e) (c_aol c) -> exec_aol e c m = Ok (c', a) ->
  writers_decode (e_unbech e) (c_aol c').
Proof.
  intros He Hi Hw Hx.
  destruct m as [t d o|t mo d w o|t w o|t k v w o f]; simpl in Hx;
    match type of Hx with bind ?x _ = _ => destruct x as [r| |] eqn:Ex; simpl in Hx; try discriminate end;
    inversion Hx; subst; simpl.
  - exact (create_topic_wd (e_unbech e) He _ _ _ _ _ Hi Hw Ex).
  - exact (add_writer_wd (e_unbech e) He (e_now e) _ _ _ _ _ _ _ Hi Hw Ex).
  - exact (delete_writer_wd (e_unbech e) He _ _ _ _ _ Hi Hw Ex).
  - destruct r as [st' n]. exact (add_record_wd (e_unbech e) He (e_now e) _ _ _ _ _ _ _ _ Hi Hw Ex).
Qed.

Definition R_wd (u : bytes -> option bytes) (c c' : chain) : Prop :=
  Inv (c_aol c) /\ writers_decode u (c_aol c) -> Inv (c_aol c') /\ writers_decode u (c_aol c').

Lemma R_wd_same u c c' : c_aol c' = c_aol c -> R_wd u c c'.
Proof. intros E H. rewrite E. exact H. Qed.

Theorem writers_decode_run o bs c :
  unbech_wf (o_unbech o) -> Inv (c_aol c) -> writers_decode (o_unbech o) (c_aol c) ->
  writers_decode (o_unbech o) (c_aol (run o c bs)).
Proof.
  intros Ho Hi Hw.
  assert (HR : R_wd (o_unbech o) c (run o c bs)).
  { apply (R_run (R_wd (o_unbech o)) (fun e => env_ok e /\ e_unbech e = o_unbech o)).
    - intros c0. apply R_wd_same. reflexivity.
    - intros a b0 c0 H1 H2 Ha. apply H2. apply H1. exact Ha.
    - intros e c0 m c' acks [He Eu] Hvb Hx.
      destruct m as [am|dm|pm|f t amt|f t amt et|g r u ex|g r u|f amt outs];
        try (apply (R_wd_same _ c0 c'); eapply exec_base_aol_frame; [exact Hx | intros am0; discriminate]).
      simpl in Hx. intros [Hi0 Hw0]. destruct (exec_aol_inv e c0 am c' acks He Hi0 Hx) as [Hi' _].
      split; [exact Hi'|]. rewrite <- Eu in Hw0 |- *. exact (exec_aol_wd e c0 am c' acks He Hi0 Hw0 Hx).
    - intros e c0 t c' _ Hx. apply R_wd_same. apply (ante_aol_frame e c0 t c' Hx).
    - intros e c0 _. apply R_wd_same. reflexivity.
    - intros e c0 _. apply R_wd_same. apply end_block_custom.
    - intros t. split; [exact Ho | reflexivity]. }
  exact (proj2 (HR (conj Hi Hw))).
Qed.

Lemma writers_decode_empty u : writers_decode u [].
Proof. intros K v L. rewrite lookup_nil in L. discriminate L. Qed.

(** * along every history from the empty chain *)
Section Histories.
  Variable o : oracles.
  Hypothesis o_wf : unbech_wf (o_unbech o).
  Hypothesis o_unbech_bech : forall a, verify_address_format a = true -> o_unbech o (o_bech o a) = Some a.
  Hypothesis o_bech_no_slash : forall a, no_byte sep (o_bech o a).
  Hypothesis o_bech_nonempty : forall a, verify_address_format a = true -> o_bech o a <> [].

  Lemma json_ok_run bs :
    utf8_ok_chain (o_bech o) (run o empty_chain bs) -> json_ok (o_bech o) (o_unbech o) (run o empty_chain bs).
  Proof.
    intros HU. split; [exact (genesis_ok_run o bs o_wf)|]. split; [|exact HU].
    apply writers_decode_run; [exact o_wf | exact Inv_empty | apply writers_decode_empty].
  Qed.

  Theorem export_import_json_along_histories : forall bs,
    let c := run o empty_chain bs in
    utf8_ok_chain (o_bech o) c ->
    exists c', export_import_json (o_bech o) (o_unbech o) c = Ok c' /\
      c_aol c' = c_aol c /\ c_did c' = c_did c /\ c_pnft c' = strip_zero_supply (c_pnft c) /\
      c_bank c' = c_bank c /\ c_grants c' = c_grants c /\
      (no_zero_supply (c_pnft c) -> c' = c) /\
      export_genesis (o_bech o) (c_aol c') = export_genesis (o_bech o) (c_aol c) /\
      export_did (c_did c') = export_did (c_did c) /\
      export_pnft (o_bech o) (c_pnft c') = export_pnft (o_bech o) (c_pnft c) /\
      export_import_json (o_bech o) (o_unbech o) c' = Ok c'.
  Proof.
    intros bs c HU. pose proof (json_ok_run bs HU) as H. fold c in H.
    pose proof (export_import_json_chain (o_bech o) (o_unbech o) o_unbech_bech o_bech_no_slash o_bech_nonempty c H) as E.
    exists (imported c). split; [exact E|].
    destruct (reexport_identical_json (o_bech o) (o_unbech o) o_unbech_bech o_bech_no_slash o_bech_nonempty c _ H E)
      as (R1 & R2 & R3).
    destruct (export_import_json_idempotent (o_bech o) (o_unbech o) o_unbech_bech o_bech_no_slash o_bech_nonempty c _ H E)
      as [_ R4].
    do 5 (split; [reflexivity|]).
    split; [intros Hz; apply imported_id; [exact (ip_sorted _ (go_pnft c (proj1 H))) | exact Hz]|].
    split; [exact R1|]. split; [exact R2|]. split; [exact R3 | exact R4].
  Qed.

  (** with the sufficient condition on the stored values *)
  Corollary export_import_json_text_ok : forall bs,
    let c := run o empty_chain bs in
    (forall a, vu (o_bech o a)) -> text_ok c ->
    export_import_json (o_bech o) (o_unbech o) c = export_import (o_bech o) (o_unbech o) c.
  Proof.
    intros bs c Hb HT. pose proof (genesis_ok_run o bs o_wf) as H. fold c in H.
    apply export_import_json_eq; [exact H| |exact (text_ok_utf8_ok (o_bech o) Hb c H HT)].
    apply writers_decode_run; [exact o_wf | exact Inv_empty | apply writers_decode_empty].
  Qed.
End Histories.

(** * (b) the refutation: nothing makes the stored texts valid UTF-8 (known finding K3) *)
(** one block, one transaction of "A": CreateTopic "t" with description [d] *)
Definition k3_history (d : bytes) : list block := [ (100%Z, [ ex_tx [ BAol (ACreateTopic [x74] d ex_A) ] ]) ].

Definition k3_aol (d : bytes) : aol_state :=
  [([x00; x01; x41], VOwner 1); ([x01; x01; x41; x01; x74], VTopic d 0 0)].

(** description 0xff: the transaction is accepted, the state satisfies every invariant, the round trip
    without the JSON layer is the identity; with it the round trip succeeds and gives back a DIFFERENT state *)
Theorem export_import_json_state_not_preserved :
  let c := run ex_oracles empty_chain (k3_history [xff]) in
  let bech := o_bech ex_oracles in let unbech := o_unbech ex_oracles in
  run_results ex_oracles empty_chain (k3_history [xff]) = [[ROk []]] /\
  genesis_ok c /\ writers_decode unbech (c_aol c) /\
  c_aol c = k3_aol [xff] /\
  export_import bech unbech c = Ok c /\
  ~ utf8_ok_chain bech c /\
  exists c', export_import_json bech unbech c = Ok c' /\
    c_aol c' = k3_aol [xef; xbf; xbd] /\ c_aol c' <> c_aol c /\ c' <> c /\
    (* the damage is done once: that state is a fixed point *)
    export_import_json bech unbech c' = Ok c'.
Proof.
  intros c bech unbech.
  split; [vm_compute; reflexivity|].
  split; [exact (genesis_ok_run ex_oracles (k3_history [xff]) id_unbech_wf)|].
  split; [apply writers_decode_run; [exact id_unbech_wf | exact Inv_empty | apply writers_decode_empty]|].
  split; [vm_compute; reflexivity|].
  split; [vm_compute; reflexivity|].
  split.
  { intros (U1 & _).
    assert (X : exists g, export_genesis bech (c_aol c) = Ok g /\ coerce_aol_genesis g <> g).
    { eexists. split; [vm_compute; reflexivity | vm_compute; intros X; discriminate X]. }
    destruct X as (g & Eg & Hne). exact (Hne (U1 g Eg)). }
  eexists. split; [vm_compute; reflexivity|].
  split; [vm_compute; reflexivity|].
  split; [vm_compute; intros X; discriminate X|].
  split; [vm_compute; intros X; discriminate X|].
  vm_compute. reflexivity.
Qed.

(** description 0xff x 5000 (the largest that MsgCreateTopic.ValidateBasic accepts): the transaction is
    accepted, the state satisfies every invariant, the round trip without the JSON layer is the identity;
    with it the exported genesis is REFUSED by the importing node: the coerced description has 15000 bytes *)
Theorem export_import_json_genesis_refused :
  let d := repeat xff 5000 in
  let c := run ex_oracles empty_chain (k3_history d) in
  let bech := o_bech ex_oracles in let unbech := o_unbech ex_oracles in
  validate_description d = Ok tt /\
  run_results ex_oracles empty_chain (k3_history d) = [[ROk []]] /\
  genesis_ok c /\ writers_decode unbech (c_aol c) /\
  c_aol c = k3_aol d /\
  export_import bech unbech c = Ok c /\
  blen (cu d) = 15000%N /\ validate_description (cu d) = Err cs_aol 2 /\
  export_import_json bech unbech c = Err (b "aol") 0.
Proof.
  intros d c bech unbech.
  split; [vm_compute; reflexivity|].
  split; [vm_compute; reflexivity|].
  split; [exact (genesis_ok_run ex_oracles (k3_history d) id_unbech_wf)|].
  split; [apply writers_decode_run; [exact id_unbech_wf | exact Inv_empty | apply writers_decode_empty]|].
  split; [vm_compute; reflexivity|].
  split; [vm_compute; reflexivity|].
  split; [unfold blen, cu, d; rewrite coerce_repeat_ff_length; reflexivity|].
  split; vm_compute; reflexivity.
Qed.

(** the same at the level of the AOL genesis alone, for every length above a third of the limit *)
Theorem coerced_description_too_large n :
  (GenConst.max_description_length < 3 * N.of_nat n)%N ->
  aol_val_valid id_unbech (coerce_aol_val (VTopic (repeat xff n) 0 0)) = false.
Proof.
  intros H. cbn [coerce_aol_val aol_val_valid]. unfold validate_description, blen, cu.
  rewrite coerce_repeat_ff_length.
  destruct (N.ltb_spec GenConst.max_description_length (N.of_nat (3 * n))) as [_|C]; [reflexivity | lia].
Qed.

Print Assumptions text_ok_utf8_ok.
Print Assumptions aol_export_valid.
Print Assumptions export_import_json_eq.
Print Assumptions export_import_json_chain.
Print Assumptions export_import_json_chain_fields.
Print Assumptions export_import_json_chain_pnft_reads.
Print Assumptions export_import_json_chain_identity.
Print Assumptions reexport_identical_json.
Print Assumptions export_import_json_idempotent.
Print Assumptions writers_decode_run.
Print Assumptions export_import_json_along_histories.
Print Assumptions export_import_json_text_ok.
Print Assumptions export_import_json_state_not_preserved.
Print Assumptions export_import_json_genesis_refused.
Print Assumptions coerced_description_too_large.
