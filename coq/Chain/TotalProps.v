(** C17 (totality): stateless validation, signer extraction after successful validation, the message
    handlers and the query handlers of the repaired code return a value or an error; [Panic] is
    unreachable.  The last section shows that [Panic] WAS reachable in the original code. *)
From Coq Require Import Strings.String Strings.Byte.
From Coq Require Import List Arith NArith ZArith Bool Lia.
From PV Require Import Base.Bytes Base.Outcome Base.KV Compkey.Model Compkey.Proofs.
From PV Require Import Aol.Model Aol.Spec Valid.Aol Aol.Stored Bank.Model Did.Model Pnft.Model.
From PV Require Import Chain.Model Chain.AolProps Aol.Query Aol.Listing.
From PV Require Pagination.Model Pagination.Proofs.
From PV Require Generated.GenConst Generated.GenNft.
Import ListNotations.

Local Arguments be_bytes : simpl never.

(** * generic facts about [bind] *)
Lemma bind_np {A B} (x : outcome A) (f : A -> outcome B) :
  x <> Panic -> (forall a, x = Ok a -> f a <> Panic) -> bind x f <> Panic.
Proof.
  intros Hx Hf. destruct x as [a| |]; cbn [bind].
  - apply Hf. reflexivity.
  - discriminate.
  - exfalso. apply Hx. reflexivity.
Qed.

Lemma bind_ok_inv {A B} (x : outcome A) (f : A -> outcome B) r :
  bind x f = Ok r -> exists a, x = Ok a /\ f a = Ok r.
Proof.
  destruct x as [a| |]; cbn [bind]; intros H; try discriminate H. exists a. split; [reflexivity | exact H].
Qed.

(** * stateless validation never panics *)
Lemma validate_topic_name_np t : validate_topic_name t <> Panic.
Proof.
  unfold validate_topic_name, err_too_large.
  destruct (_ <? _)%N; [discriminate|]. destruct (_ || _); discriminate.
Qed.
Lemma validate_moniker_np m : validate_moniker m <> Panic.
Proof.
  unfold validate_moniker, err_too_large.
  destruct (_ <? _)%N; [discriminate|]. destruct (negb _); discriminate.
Qed.
Lemma validate_description_np d : validate_description d <> Panic.
Proof. unfold validate_description, err_too_large. destruct (_ <? _)%N; discriminate. Qed.
Lemma validate_record_key_np k : validate_record_key k <> Panic.
Proof. unfold validate_record_key, err_too_large. destruct (_ <? _)%N; discriminate. Qed.
Lemma validate_record_value_np v : validate_record_value v <> Panic.
Proof. unfold validate_record_value, err_too_large. destruct (_ <? _)%N; discriminate. Qed.
Lemma validate_addr_np unbech s : validate_addr unbech s <> Panic.
Proof. unfold validate_addr, err_invalid_address. destruct (unbech s); discriminate. Qed.

Lemma need_np c : need c <> Panic.
Proof. unfold need, vb_err. destruct c; discriminate. Qed.
Lemma need_addr_np unbech s : need_addr unbech s <> Panic.
Proof. unfold need_addr, vb_err. destruct (nonempty s); [|discriminate]. destruct (unbech s); discriminate. Qed.
Lemma vb_from_np unbech f : vb_from unbech f <> Panic.
Proof. unfold vb_from. destruct (unbech f) as [[|x a]|]; discriminate. Qed.
Lemma vb_doc_strict_np did doc : vb_doc true did doc <> Panic.
Proof.
  unfold vb_doc. destruct doc as [d|]; [|discriminate].
  destruct (true && _); [discriminate|]. destruct (doc_valid d); discriminate.
Qed.

Ltac np_chain :=
  repeat (apply bind_np; [ | intros ? _ ]);
  auto using validate_topic_name_np, validate_moniker_np, validate_description_np, validate_record_key_np,
    validate_record_value_np, validate_addr_np, need_np, need_addr_np, vb_from_np, vb_doc_strict_np.

Lemma vb_aol_total e m : vb_aol e m <> Panic.
Proof.
  destruct m as [t d o|t mo d w o|t w o|t k v w o f]; cbn [vb_aol];
    unfold vb_create_topic, vb_add_writer, vb_delete_writer, vb_add_record; np_chain.
  destruct f; [discriminate | apply validate_addr_np].
Qed.

Lemma vb_did_total e m : vb_did e m <> Panic.
Proof.
  destruct m as [did doc vmid sg from|did doc vmid sg from|did vmid sg from]; cbn [vb_did];
    unfold vb_create_update, vb_deactivate; (destruct (negb _); [discriminate|]); np_chain;
    destruct sg; try discriminate; apply vb_from_np.
Qed.

Lemma vb_pnft_total e m : vb_pnft e m <> Panic.
Proof.
  destruct m; cbn [vb_pnft];
    unfold vb_create_denom, vb_update_denom, vb_delete_denom, vb_transfer_denom, vb_mint_pnft,
      vb_transfer_pnft, vb_burn_pnft; np_chain.
Qed.

Lemma vb_outs_np e outs : vb_outs e outs <> Panic.
Proof.
  induction outs as [|[a cs] r IH]; cbn [vb_outs]; [discriminate|].
  apply bind_np; [apply validate_addr_np|]. intros _ _. destruct (coins_valid cs); [exact IH | discriminate].
Qed.

Theorem vb_base_total : forall e m, vb_base e m <> Panic.
Proof.
  intros e m. destruct m as [am|dm|pm|f t amt|f t amt et|g r u ex|g r u|f amt outs]; cbn [vb_base].
  - apply vb_aol_total.
  - apply vb_did_total.
  - apply vb_pnft_total.
  - np_chain. destruct (coins_valid amt); discriminate.
  - np_chain. destruct (negb (coins_valid amt)); [discriminate|]. destruct (et <=? 0)%Z; discriminate.
  - unfold err_invalid_address. destruct (e_unbech e g), (e_unbech e r); try discriminate.
    destruct (bytes_eqb _ _); discriminate.
  - unfold err_invalid_address. destruct (e_unbech e g), (e_unbech e r); try discriminate.
    destruct (bytes_eqb _ _); [discriminate|]. destruct u; discriminate.
  - destruct outs as [|o outs']; [discriminate|].
    apply bind_np; [apply validate_addr_np|]. intros _ _.
    destruct (negb (coins_valid amt)); [discriminate|].
    apply bind_np; [apply vb_outs_np|]. intros _ _.
    destruct (coins_eqb _ _); discriminate.
Qed.

Lemma vb_all_total e ms : vb_all e ms <> Panic.
Proof.
  induction ms as [|m r IH]; cbn [vb_all]; [discriminate|].
  apply bind_np; [apply vb_base_total | intros _ _; exact IH].
Qed.

Theorem validate_basic_total : forall e m, validate_basic e m <> Panic.
Proof.
  intros e m. destruct m as [bm|g inner]; cbn [validate_basic].
  - apply vb_base_total.
  - apply bind_np; [apply validate_addr_np|]. intros _ _.
    destruct inner; [discriminate | apply vb_all_total].
Qed.

Lemma vb_msgs_total e ms : vb_msgs e ms <> Panic.
Proof.
  induction ms as [|m r IH]; cbn [vb_msgs]; [discriminate|].
  apply bind_np; [apply validate_basic_total | intros _ _; exact IH].
Qed.

(** * signer extraction after successful validation *)
Lemma validate_addr_ok unbech s u : validate_addr unbech s = Ok u -> exists a, unbech s = Some a.
Proof. unfold validate_addr, err_invalid_address. destruct (unbech s) as [a|]; [eauto | discriminate]. Qed.
Lemma need_addr_ok unbech s u : need_addr unbech s = Ok u -> exists a, unbech s = Some a.
Proof.
  unfold need_addr, vb_err. destruct (nonempty s); [|discriminate].
  destruct (unbech s) as [a|]; [eauto | discriminate].
Qed.
Lemma vb_from_ok unbech s u : vb_from unbech s = Ok u -> exists a, unbech s = Some a.
Proof. unfold vb_from. destruct (unbech s) as [a|]; [eauto | discriminate]. Qed.

Ltac inv_binds H :=
  repeat (let a := fresh "u" in let Ha := fresh "Hv" in apply bind_ok_inv in H as [a [Ha H]]).

Lemma addr_or_panic_some e s a : e_unbech e s = Some a -> addr_or_panic e s = Ok a.
Proof. unfold addr_or_panic. intros ->. reflexivity. Qed.

Ltac solve_signer :=
  repeat match goal with
         | H : validate_addr _ _ = Ok _ |- _ => apply validate_addr_ok in H as [? H]
         | H : need_addr _ _ = Ok _ |- _ => apply need_addr_ok in H as [? H]
         | H : vb_from _ _ = Ok _ |- _ => apply vb_from_ok in H as [? H]
         end;
  repeat match goal with
         | H : e_unbech ?e ?s = Some ?a |- context [addr_or_panic ?e ?s] =>
             rewrite (addr_or_panic_some e s a H); cbn [bind]
         end;
  eexists; reflexivity.

Theorem signers_after_validation : forall e m, vb_base e m = Ok tt -> exists l, signers_base e m = Ok l.
Proof.
  intros e m H. destruct m as [am|dm|pm|f t amt|f t amt et|g r u ex|g r u|f amt outs]; cbn [vb_base] in H.
  - destruct am as [t d o|t mo d w o|t w o|t k v w o f]; cbn [vb_aol] in H; cbn [signers_base];
      unfold vb_create_topic, vb_add_writer, vb_delete_writer, vb_add_record in H; inv_binds H.
    + solve_signer.
    + solve_signer.
    + solve_signer.
    + destruct f as [|f0 f]; solve_signer.
  - destruct dm as [did doc vmid sg from|did doc vmid sg from|did vmid sg from]; cbn [vb_did] in H;
      cbn [signers_base]; unfold vb_create_update, vb_deactivate in H;
      (destruct (negb _); [discriminate H|]); inv_binds H; (destruct sg; [discriminate H|]); solve_signer.
  - destruct pm; cbn [vb_pnft] in H; cbn [signers_base];
      unfold vb_create_denom, vb_update_denom, vb_delete_denom, vb_transfer_denom, vb_mint_pnft,
        vb_transfer_pnft, vb_burn_pnft in H; inv_binds H; solve_signer.
  - cbn [signers_base]. inv_binds H. solve_signer.
  - cbn [signers_base]. inv_binds H. solve_signer.
  - cbn [signers_base]. destruct (e_unbech e g) as [ga|] eqn:Eg; [|discriminate H]. solve_signer.
  - cbn [signers_base]. destruct (e_unbech e g) as [ga|] eqn:Eg; [|discriminate H]. solve_signer.
  - cbn [signers_base]. destruct outs as [|o outs']; [discriminate H|]. inv_binds H. solve_signer.
Qed.

Theorem signers_msg_after_validation : forall e m, validate_basic e m = Ok tt -> exists l, signers e m = Ok l.
Proof.
  intros e m H. destruct m as [bm|g inner]; cbn [validate_basic] in H; cbn [signers].
  - apply signers_after_validation. exact H.
  - inv_binds H. solve_signer.
Qed.

(** * the AOL handlers *)
Lemma key_of_np pfx vs : Forall (fun v => length v <= 255) vs -> key_of pfx vs <> Panic.
Proof.
  intros H. apply encode_Some_iff in H as [bz H]. unfold key_of. rewrite H. discriminate.
Qed.

Lemma addr_np unbech s : addr unbech s <> Panic.
Proof. unfold addr, err_invalid_address. destruct (unbech s); discriminate. Qed.

Lemma addr_ok_le unbech s o : unbech_wf unbech -> addr unbech s = Ok o -> length o <= 255.
Proof.
  intros Hw. unfold addr, err_invalid_address. destruct (unbech s) as [a|] eqn:E; [|discriminate].
  intros [= <-]. apply vaf_le. exact (Hw s a E).
Qed.

Lemma owner_key_np o : length o <= 255 -> Aol.Model.owner_key o <> Panic.
Proof. intros Ho. apply key_of_np. repeat (apply Forall_cons; [assumption|]). apply Forall_nil. Qed.
Lemma topic_key_np o t : length o <= 255 -> length t <= 255 -> topic_key o t <> Panic.
Proof. intros Ho Ht. apply key_of_np. repeat (apply Forall_cons; [assumption|]). apply Forall_nil. Qed.
Lemma writer_key_np o t w : length o <= 255 -> length t <= 255 -> length w <= 255 -> writer_key o t w <> Panic.
Proof. intros Ho Ht Hw. apply key_of_np. repeat (apply Forall_cons; [assumption|]). apply Forall_nil. Qed.
Lemma record_key_np o t n : length o <= 255 -> length t <= 255 -> record_key o t n <> Panic.
Proof.
  intros Ho Ht. apply key_of_np. repeat (apply Forall_cons; [assumption|]).
  apply Forall_cons; [rewrite be_bytes_length; lia | apply Forall_nil].
Qed.

Section AolHandlers.
  Variable unbech : bytes -> option bytes.
  Hypothesis Hwf : unbech_wf unbech.

  Lemma create_topic_np st t d os : length t <= 255 -> create_topic unbech st t d os <> Panic.
  Proof.
    intros Ht. unfold create_topic.
    apply bind_np; [apply addr_np|]. intros o Ho. apply (addr_ok_le _ _ _ Hwf) in Ho.
    apply bind_np; [apply topic_key_np; assumption|]. intros tk _.
    destruct (has tk st); [discriminate|].
    apply bind_np; [apply owner_key_np; assumption|]. intros ok _. discriminate.
  Qed.

  Lemma add_writer_np now st t mo d ws os : length t <= 255 -> add_writer unbech now st t mo d ws os <> Panic.
  Proof.
    intros Ht. unfold add_writer.
    apply bind_np; [apply addr_np|]. intros o Ho. apply (addr_ok_le _ _ _ Hwf) in Ho.
    apply bind_np; [apply addr_np|]. intros w Hw. apply (addr_ok_le _ _ _ Hwf) in Hw.
    apply bind_np; [apply topic_key_np; assumption|]. intros tk _.
    destruct (negb (has tk st)); [discriminate|].
    apply bind_np; [apply writer_key_np; assumption|]. intros wk _.
    destruct (has wk st); [discriminate|].
    destruct (get_topic tk st) as [[d0 nr] nw]. discriminate.
  Qed.

  Lemma delete_writer_np st t ws os : length t <= 255 -> delete_writer unbech st t ws os <> Panic.
  Proof.
    intros Ht. unfold delete_writer.
    apply bind_np; [apply addr_np|]. intros o Ho. apply (addr_ok_le _ _ _ Hwf) in Ho.
    apply bind_np; [apply addr_np|]. intros w Hw. apply (addr_ok_le _ _ _ Hwf) in Hw.
    apply bind_np; [apply writer_key_np; assumption|]. intros wk _.
    destruct (negb (has wk st)); [discriminate|].
    apply bind_np; [apply topic_key_np; assumption|]. intros tk _.
    destruct (get_topic tk st) as [[d0 nr] nw]. discriminate.
  Qed.

  Lemma add_record_np now st t k v ws os : length t <= 255 -> add_record unbech now st t k v ws os <> Panic.
  Proof.
    intros Ht. unfold add_record.
    apply bind_np; [apply addr_np|]. intros o Ho. apply (addr_ok_le _ _ _ Hwf) in Ho.
    apply bind_np; [apply addr_np|]. intros w Hw. apply (addr_ok_le _ _ _ Hwf) in Hw.
    apply bind_np; [apply topic_key_np; assumption|]. intros tk _.
    destruct (negb (has tk st)); [discriminate|].
    apply bind_np; [apply writer_key_np; assumption|]. intros wk _.
    destruct (negb (has wk st)); [discriminate|].
    destruct (get_topic tk st) as [[d0 nr] nw].
    destruct (_ <=? _)%N; [discriminate|].
    apply bind_np; [apply record_key_np; assumption|]. intros rk _. discriminate.
  Qed.
End AolHandlers.

Lemma topic_name_le t : validate_topic_name t = Ok tt -> length t <= 255.
Proof.
  intros H. apply validate_topic_name_ok in H as [_ [H _]].
  unfold GenConst.max_topic_length in H. lia.
Qed.

Lemma exec_aol_total e c m : env_ok e -> vb_aol e m = Ok tt -> exec_aol e c m <> Panic.
Proof.
  intros He H. destruct m as [t d o|t mo d w o|t w o|t k v w o f]; cbn [vb_aol] in H; cbn [exec_aol];
    unfold vb_create_topic, vb_add_writer, vb_delete_writer, vb_add_record in H;
    apply bind_ok_inv in H as [[] [Ht _]]; apply topic_name_le in Ht;
    (apply bind_np; [|intros ? _; discriminate]).
  - apply create_topic_np; assumption.
  - apply add_writer_np; assumption.
  - apply delete_writer_np; assumption.
  - apply add_record_np; assumption.
Qed.

(** * the DID handlers *)
Lemma verify_ownership_np b58key verify marshal sd seq doc vmid sg :
  verify_ownership b58key verify marshal sd seq doc vmid sg <> Panic.
Proof.
  unfold verify_ownership. destruct (vm_from _ _ _) as [vm|]; [|discriminate].
  destruct (negb _); [discriminate|]. destruct (b58key _); [|discriminate].
  destruct (verify _ _ _ && _); discriminate.
Qed.

Lemma create_did_np b58key verify marshal st did doc vmid sg :
  create_did b58key verify marshal st did doc vmid sg <> Panic.
Proof.
  unfold create_did. destruct (negb _).
  - destruct (entry_deactivated _); discriminate.
  - apply bind_np; [apply verify_ownership_np | intros; discriminate].
Qed.

Lemma update_did_np b58key verify marshal st did doc vmid sg :
  update_did b58key verify marshal st did doc vmid sg <> Panic.
Proof.
  unfold update_did. destruct (get_entry st did) as [[stored|] seq]; unfold entry_empty; cbn [en_doc en_seq].
  - destruct (_ && _); [discriminate|]. destruct (entry_deactivated _); [discriminate|].
    apply bind_np; [apply verify_ownership_np | intros; discriminate].
  - discriminate.
Qed.

Lemma deactivate_did_np b58key verify marshal st did vmid sg :
  deactivate_did b58key verify marshal st did vmid sg <> Panic.
Proof.
  unfold deactivate_did. destruct (get_entry st did) as [[stored|] seq]; unfold entry_empty; cbn [en_doc en_seq].
  - destruct (_ && _); [discriminate|]. destruct (entry_deactivated _); [discriminate|].
    apply bind_np; [apply verify_ownership_np | intros; discriminate].
  - discriminate.
Qed.

Lemma exec_did_total e c m : vb_did e m = Ok tt -> exec_did e c m <> Panic.
Proof.
  intros H. destruct m as [did [doc|] vmid sg from|did [doc|] vmid sg from|did vmid sg from];
    cbn [vb_did] in H; cbn [exec_did].
  - apply bind_np; [apply create_did_np | intros; discriminate].
  - exfalso. unfold vb_create_update in H. destruct (negb _); [discriminate H|]. discriminate H.
  - apply bind_np; [apply update_did_np | intros; discriminate].
  - exfalso. unfold vb_create_update in H. destruct (negb _); [discriminate H|]. discriminate H.
  - apply bind_np; [apply deactivate_did_np | intros; discriminate].
Qed.

(** * the PNFT handlers (they never panic, whatever the message) *)
Lemma nft_mint_np st t r : nft_mint st t r <> Panic.
Proof. unfold nft_mint. destruct (negb _); [discriminate|]. destruct (has_nft _ _ _); discriminate. Qed.
Lemma nft_transfer_np st c i r : nft_transfer st c i r <> Panic.
Proof. unfold nft_transfer. destruct (negb _); [discriminate|]. destruct (negb _); discriminate. Qed.
Lemma nft_burn_np st c i : nft_burn st c i <> Panic.
Proof. unfold nft_burn. destruct (negb _); [discriminate|]. destruct (negb _); discriminate. Qed.

Lemma exec_pnft_total e c m : exec_pnft e c m <> Panic.
Proof.
  unfold exec_pnft. apply bind_np; [|intros; discriminate].
  destruct m.
  - unfold create_denom. destruct (has_class _ _); discriminate.
  - unfold update_denom. destruct (get_class _ _) as [d|]; [|discriminate].
    destruct (negb _); [discriminate|]. destruct (has_class _ _); discriminate.
  - unfold delete_denom. destruct (get_class _ _) as [d|]; [|discriminate].
    destruct (negb _); [discriminate|]. destruct (_ && _); discriminate.
  - unfold transfer_denom. destruct (get_class _ _) as [d|]; [|discriminate].
    destruct (negb _); [discriminate|]. destruct (has_class _ _); discriminate.
  - unfold mint_pnft. destruct (get_class _ _) as [d|]; [|discriminate].
    destruct (negb _); [discriminate|]. destruct (e_unbech e creator) as [rcv|]; [|discriminate].
    match goal with |- match ?x with _ => _ end <> _ => pose proof (nft_mint_np (c_pnft c) _ rcv : x <> Panic) as Hn;
      destruct x; [discriminate | discriminate | exact Hn] end.
  - unfold transfer_pnft. destruct (get_pnft _ _ _ _) as [p|]; [|discriminate].
    destruct (negb _); [discriminate|]. destruct (e_unbech e receiver) as [rcv|]; [|discriminate].
    pose proof (nft_transfer_np (c_pnft c) denom_id id rcv) as Hn.
    destruct (nft_transfer _ _ _ _); [discriminate | discriminate | exact Hn].
  - unfold burn_pnft. destruct (get_pnft _ _ _ _) as [p|]; [|discriminate].
    destruct (negb _); [discriminate|].
    pose proof (nft_burn_np (c_pnft c) denom_id id) as Hn.
    destruct (nft_burn _ _ _); [discriminate | discriminate | exact Hn].
Qed.

(** * every handler *)
Theorem exec_base_total : forall e c m, env_ok e -> vb_base e m = Ok tt -> exec_base e c m <> Panic.
Proof.
  intros e c m He H. destruct m as [am|dm|pm|f t amt|f t amt et|g r u ex|g r u|f amt outs]; cbn [vb_base] in H; cbn [exec_base].
  - apply exec_aol_total; assumption.
  - apply exec_did_total; assumption.
  - apply exec_pnft_total.
  - unfold err_invalid_address. destruct (e_unbech e f), (e_unbech e t); try discriminate.
    destruct (mem_bytes _ _); [discriminate|]. destruct (send _ _ _ _ _); discriminate.
  - unfold err_invalid_address. destruct (e_unbech e f), (e_unbech e t); try discriminate.
    destruct (mem_bytes _ _); [discriminate|]. destruct (account_exists _ _); [discriminate|].
    destruct (send _ _ _ _ _); discriminate.
  - unfold err_invalid_address. destruct (e_unbech e g), (e_unbech e r); try discriminate.
    destruct (match ex with Some t => _ | None => false end); discriminate.
  - unfold err_invalid_address. destruct (e_unbech e g), (e_unbech e r); try discriminate.
    destruct (find_grant _ _ _ _); discriminate.
  - unfold err_invalid_address. destruct (e_unbech e f); [|discriminate].
    destruct (unbech_outs _ _); [|discriminate]. destruct (existsb _ _); [discriminate|].
    destruct (multi_send _ _ _ _ _); discriminate.
Qed.

(** * authz dispatch over the inner messages of MsgExec *)
Lemma vb_all_cons_inv e m r : vb_all e (m :: r) = Ok tt -> vb_base e m = Ok tt /\ vb_all e r = Ok tt.
Proof.
  cbn [vb_all]. intros H. apply bind_ok_inv in H as [[] [Hm Hr]]. split; assumption.
Qed.

Lemma dispatch_total e : env_ok e -> forall ms, vb_all e ms = Ok tt ->
  forall c grantee acks, dispatch e c grantee ms acks <> Panic.
Proof.
  intros He ms. induction ms as [|m r IH]; intros Hvb c grantee acks; cbn [dispatch]; [discriminate|].
  apply vb_all_cons_inv in Hvb as [Hm Hr].
  destruct (signers_after_validation e m Hm) as [ss Hss]. rewrite Hss. cbn [bind].
  destruct ss as [|granter [|x xs]]; try discriminate.
  apply bind_np.
  - destruct (bytes_eqb granter grantee); [discriminate|].
    destruct (find_grant _ _ _ _) as [g|]; [|discriminate].
    destruct (gr_exp g) as [t|]; [|discriminate]. destruct (t <? e_now e)%Z; discriminate.
  - intros _ _. apply bind_np; [apply exec_base_total; assumption|].
    intros res _. apply IH. exact Hr.
Qed.

Theorem exec_msg_total : forall e c m, env_ok e -> validate_basic e m = Ok tt -> exec_msg e c m <> Panic.
Proof.
  intros e c m He H. destruct m as [bm|g inner]; cbn [validate_basic] in H; cbn [exec_msg].
  - apply exec_base_total; assumption.
  - unfold err_invalid_address. destruct (e_unbech e g) as [ga|]; [|discriminate].
    apply bind_ok_inv in H as [_ [_ H]].
    destruct inner as [|m0 r0]; [discriminate H|]. apply dispatch_total; assumption.
Qed.

(** * the transaction pipeline *)
Lemma vb_msgs_cons_inv e m r : vb_msgs e (m :: r) = Ok tt -> validate_basic e m = Ok tt /\ vb_msgs e r = Ok tt.
Proof.
  cbn [vb_msgs]. intros H. apply bind_ok_inv in H as [[] [Hm Hr]]. split; assumption.
Qed.

Lemma run_msgs_no_panic e : env_ok e -> forall ms, vb_msgs e ms = Ok tt ->
  forall c idx acks, snd (run_msgs e c ms idx acks) <> RMsgPanic /\ snd (run_msgs e c ms idx acks) <> RVbPanic.
Proof.
  intros He ms. induction ms as [|m r IH]; intros Hvb c idx acks; cbn [run_msgs].
  - cbn [snd]. split; discriminate.
  - apply vb_msgs_cons_inv in Hvb as [Hm Hr].
    pose proof (exec_msg_total e c m He Hm) as Hx.
    destruct (exec_msg e c m) as [[c' a]|cs code|].
    + apply IH. exact Hr.
    + cbn [snd]. split; discriminate.
    + exfalso. apply Hx. reflexivity.
Qed.

Theorem deliver_tx_total : forall e c t, env_ok e ->
  snd (deliver_tx e c t) <> RVbPanic /\ snd (deliver_tx e c t) <> RMsgPanic.
Proof.
  intros e c t He. unfold deliver_tx.
  destruct (tx_msgs t) as [|m0 r0]; [cbn [snd]; split; discriminate|].
  pose proof (vb_msgs_total e (m0 :: r0)) as Hnp.
  destruct (vb_msgs e (m0 :: r0)) as [[]|cs code|] eqn:Evb.
  - destruct (ante e c t) as [c1|]; [|cbn [snd]; split; discriminate].
    destruct (run_msgs_no_panic e He (m0 :: r0) Evb c1 0 []) as [H1 H2].
    destruct (run_msgs e c1 (m0 :: r0) 0 []) as [c2 res]. cbn [snd] in H1, H2.
    destruct res; cbn [snd]; split; try discriminate; assumption.
  - cbn [snd]. split; discriminate.
  - exfalso. apply Hnp. reflexivity.
Qed.

(** * the single-item queries of the repaired code ([strict = true]) *)
Lemma qkey_strict_np k : qkey true k <> Panic.
Proof. unfold qkey. destruct k; discriminate. Qed.

Theorem q_record_total : forall unbech st o t n, q_record unbech true st o t n <> Panic.
Proof.
  intros unbech st o t n. unfold q_record. destruct (unbech o) as [a|]; [|discriminate].
  apply bind_np; [apply qkey_strict_np|]. intros rk _. destruct (get rk st); discriminate.
Qed.

Theorem q_topic_total : forall unbech st o t, q_topic unbech true st o t <> Panic.
Proof.
  intros unbech st o t. unfold q_topic. destruct (unbech o) as [a|]; [|discriminate].
  apply bind_np; [apply qkey_strict_np|]. intros tk _. destruct (get tk st); discriminate.
Qed.

Theorem q_writer_total : forall unbech st o t w, q_writer unbech true st o t w <> Panic.
Proof.
  intros unbech st o t w. unfold q_writer. destruct (unbech o) as [a|]; [|discriminate].
  destruct (unbech w) as [wa|]; [|discriminate].
  apply bind_np; [apply qkey_strict_np|]. intros wk _. destruct (get wk st); discriminate.
Qed.

(** Query/DID returns a [did_answer], not an [outcome]: there is no panic branch in its type.  The
    [None] document of a non-empty entry (a nil dereference in Go) cannot occur. *)
Theorem q_did_total : forall st did,
  q_did st did = DNotFound \/ q_did st did = DDeactivated \/
  exists d, en_doc (get_entry st did) = Some d /\ q_did st did = DFound d (en_seq (get_entry st did)).
Proof.
  intros st did. unfold q_did. destruct (get_entry st did) as [[d|] seq]; unfold entry_empty; cbn [en_doc en_seq].
  - destruct (_ && _); [left; reflexivity|].
    destruct (entry_deactivated _); [right; left; reflexivity|]. right; right. exists d. split; reflexivity.
  - left; reflexivity.
Qed.

(** * the paginated queries: they panic exactly when the SDK's Paginate does *)
Lemma map_outcome_np {V R} (on : bytes -> V -> outcome R) :
  (forall k v, on k v <> Panic) -> forall its, Pagination.Model.map_outcome on its <> Panic.
Proof.
  intros Hon its. induction its as [|[k v] rest IH]; cbn [Pagination.Model.map_outcome]; [discriminate|].
  apply bind_np; [apply Hon|]. intros r _. apply bind_np; [exact IH|]. intros rs _. discriminate.
Qed.

Lemma paginate_with_panic {V R} (on : bytes -> V -> outcome R) items req :
  (forall k v, on k v <> Panic) ->
  (Pagination.Model.paginate_with on items req = Panic <-> Pagination.Model.paginate items req = Panic).
Proof.
  intros Hon. unfold Pagination.Model.paginate_with. split.
  - destruct (Pagination.Model.paginate items req) as [pr| |]; cbn [bind]; intros H; try discriminate H; [|reflexivity].
    exfalso. revert H. apply bind_np; [apply map_outcome_np; exact Hon|]. intros rs _. discriminate.
  - intros ->. reflexivity.
Qed.

Lemma as_internal_panic {A} (x : outcome A) : as_internal x = Panic <-> x = Panic.
Proof. destruct x; cbn [as_internal]; unfold internal; split; intros H; try discriminate H; reflexivity. Qed.

Lemma paginate_None_np {V} (items : list (bytes * V)) : Pagination.Model.paginate items None <> Panic.
Proof.
  change (Pagination.Model.paginate items None) with (Pagination.Model.paginate items (Some Pagination.Model.empty_req)).
  intros H. apply Pagination.Proofs.paginate_panic_iff in H as [Hr _]. discriminate Hr.
Qed.

Lemma topic_on_np cp k v : topic_on cp k v <> Panic.
Proof.
  unfold topic_on. pose proof (typed_decode_never_panics KTopic (cp ++ k)) as Hd.
  destruct (decode_key true KTopic (cp ++ k)) as [[]| |]; unfold internal; try discriminate. exfalso. apply Hd. reflexivity.
Qed.

Lemma writer_on_np bech cp k v : writer_on bech cp k v <> Panic.
Proof.
  unfold writer_on. pose proof (typed_decode_never_panics KWriter (cp ++ k)) as Hd.
  destruct (decode_key true KWriter (cp ++ k)) as [[]| |]; unfold internal; try discriminate. exfalso. apply Hd. reflexivity.
Qed.

(** the shape of a request on which [query.Paginate] of SDK v0.47.12 can panic *)
Definition sdk_panic_shape (req : option Pagination.Model.page_req) : Prop :=
  exists r, req = Some r /\ Pagination.Model.pr_reverse r = true /\ Pagination.Model.pr_offset r = 0%N /\
            exists k, Pagination.Model.pr_key r = Some k /\ k <> [].

Lemma paginate_panic_req {V} (items : list (bytes * V)) req :
  Pagination.Model.paginate items req = Panic <->
  exists r k x, req = Some r /\ Pagination.Model.pr_reverse r = true /\ Pagination.Model.pr_offset r = 0%N /\
                Pagination.Model.pr_key r = Some k /\ k <> [] /\ Pagination.Model.range items k None = [x].
Proof.
  destruct req as [r|].
  - rewrite Pagination.Proofs.paginate_panic_iff. split.
    + intros [Hr [Ho [k [x [Hk [Hne Hx]]]]]]. exists r, k, x. repeat (split; [assumption || reflexivity|]). exact Hx.
    + intros [r' [k [x [Er [Hr [Ho [Hk [Hne Hx]]]]]]]]. inversion Er; subst r'.
      split; [exact Hr|]. split; [exact Ho|]. exists k, x. repeat (split; [assumption|]). exact Hx.
  - split; [intros H; exfalso; exact (paginate_None_np items H)|].
    intros [r [k [x [Er _]]]]. discriminate Er.
Qed.

(** Query/Topics panics exactly on a reverse key-style request whose key is >= exactly one sub-key of
    the owner's topic store (the defect of [query.Paginate], finding K-series) *)
Theorem q_topics_panic_iff : forall unbech st owner_s req,
  q_topics unbech st owner_s req = Panic <->
  exists o cp r k x,
    unbech owner_s = Some o /\ encode [o] = Some cp /\ req = Some r /\
    Pagination.Model.pr_reverse r = true /\ Pagination.Model.pr_offset r = 0%N /\
    Pagination.Model.pr_key r = Some k /\ k <> [] /\
    Pagination.Model.range (sub_store (GenConst.aol_topic_prefix ++ cp) st) k None = [x].
Proof.
  intros unbech st owner_s req.
  destruct (unbech owner_s) as [o|] eqn:Hu.
  - destruct (encode [o]) as [cp|] eqn:Hcp.
    + rewrite (q_topics_as_paginate unbech st owner_s o cp req Hu Hcp).
      rewrite as_internal_panic, (paginate_with_panic _ _ _ (topic_on_np cp)), paginate_panic_req. split.
      * intros [r [k [x [Er [Hr [Ho [Hk [Hne Hx]]]]]]]]. exists o, cp, r, k, x.
        repeat (split; [assumption || reflexivity|]). exact Hx.
      * intros [o' [cp' [r [k [x [Eo [Ecp [Er [Hr [Ho [Hk [Hne Hx]]]]]]]]]]]].
        inversion Eo; subst o'. rewrite Hcp in Ecp. inversion Ecp; subst cp'.
        exists r, k, x. repeat (split; [assumption|]). exact Hx.
    + unfold q_topics. rewrite Hu. change (partial_encode [o; []] 1) with (encode [o]). rewrite Hcp.
      split; [intros H; discriminate H|].
      intros [o' [cp' [r [k [x [Eo [Ecp _]]]]]]]. inversion Eo; subst o'. rewrite Hcp in Ecp. discriminate Ecp.
  - unfold q_topics. rewrite Hu. split; [intros H; discriminate H|].
    intros [o' [cp' [r [k [x [Eo _]]]]]]. discriminate Eo.
Qed.

Theorem q_writers_panic_iff : forall unbech bech st owner_s topic req,
  q_writers unbech bech st owner_s topic req = Panic <->
  exists o cp r k x,
    unbech owner_s = Some o /\ encode [o; topic] = Some cp /\ req = Some r /\
    Pagination.Model.pr_reverse r = true /\ Pagination.Model.pr_offset r = 0%N /\
    Pagination.Model.pr_key r = Some k /\ k <> [] /\
    Pagination.Model.range (sub_store (GenConst.aol_writer_prefix ++ cp) st) k None = [x].
Proof.
  intros unbech bech st owner_s topic req.
  destruct (unbech owner_s) as [o|] eqn:Hu.
  - destruct (encode [o; topic]) as [cp|] eqn:Hcp.
    + rewrite (q_writers_as_paginate unbech bech st owner_s o topic cp req Hu Hcp).
      rewrite as_internal_panic, (paginate_with_panic _ _ _ (writer_on_np bech cp)), paginate_panic_req. split.
      * intros [r [k [x [Er [Hr [Ho [Hk [Hne Hx]]]]]]]]. exists o, cp, r, k, x.
        repeat (split; [assumption || reflexivity|]). exact Hx.
      * intros [o' [cp' [r [k [x [Eo [Ecp [Er [Hr [Ho [Hk [Hne Hx]]]]]]]]]]]].
        inversion Eo; subst o'. rewrite Hcp in Ecp. inversion Ecp; subst cp'.
        exists r, k, x. repeat (split; [assumption|]). exact Hx.
    + unfold q_writers. rewrite Hu. change (partial_encode [o; topic; []] 2) with (encode [o; topic]). rewrite Hcp.
      split; [intros H; discriminate H|].
      intros [o' [cp' [r [k [x [Eo [Ecp _]]]]]]]. inversion Eo; subst o'. rewrite Hcp in Ecp. discriminate Ecp.
  - unfold q_writers. rewrite Hu. split; [intros H; discriminate H|].
    intros [o' [cp' [r [k [x [Eo _]]]]]]. discriminate Eo.
Qed.

(** the weaker, store-independent reading: a panic needs a reverse request with a non-empty key and offset 0 *)
Corollary q_topics_panic_shape : forall unbech st owner_s req,
  q_topics unbech st owner_s req = Panic ->
  exists r, req = Some r /\ Pagination.Model.pr_reverse r = true /\ Pagination.Model.pr_offset r = 0%N /\
            exists k, Pagination.Model.pr_key r = Some k /\ k <> [].
Proof.
  intros unbech st owner_s req H.
  apply q_topics_panic_iff in H as [o [cp [r [k [x [_ [_ [Er [Hr [Ho [Hk [Hne _]]]]]]]]]]]].
  exists r. split; [exact Er|]. split; [exact Hr|]. split; [exact Ho|]. exists k. split; assumption.
Qed.

Corollary q_writers_panic_shape : forall unbech bech st owner_s topic req,
  q_writers unbech bech st owner_s topic req = Panic ->
  exists r, req = Some r /\ Pagination.Model.pr_reverse r = true /\ Pagination.Model.pr_offset r = 0%N /\
            exists k, Pagination.Model.pr_key r = Some k /\ k <> [].
Proof.
  intros unbech bech st owner_s topic req H.
  apply q_writers_panic_iff in H as [o [cp [r [k [x [_ [_ [Er [Hr [Ho [Hk [Hne _]]]]]]]]]]]].
  exists r. split; [exact Er|]. split; [exact Hr|]. split; [exact Ho|]. exists k. split; assumption.
Qed.

(** forward requests, offset-style requests and nil requests never panic *)
Theorem q_topics_total_forward : forall unbech st owner_s r,
  Pagination.Model.pr_reverse r = false -> q_topics unbech st owner_s (Some r) <> Panic.
Proof.
  intros unbech st owner_s r Hf H. apply q_topics_panic_shape in H as [r' [Er [Hr _]]].
  inversion Er; subst r'. rewrite Hf in Hr. discriminate Hr.
Qed.

Theorem q_topics_total_nil : forall unbech st owner_s, q_topics unbech st owner_s None <> Panic.
Proof. intros unbech st owner_s H. apply q_topics_panic_shape in H as [r [Er _]]. discriminate Er. Qed.

Theorem q_topics_total_offset : forall unbech st owner_s r,
  Pagination.Model.key_is_nil (Pagination.Model.pr_key r) = true -> q_topics unbech st owner_s (Some r) <> Panic.
Proof.
  intros unbech st owner_s r Hn H. apply q_topics_panic_shape in H as [r' [Er [_ [_ [k [Hk Hne]]]]]].
  inversion Er; subst r'. rewrite Hk in Hn. destruct k; [apply Hne; reflexivity | discriminate Hn].
Qed.

Theorem q_writers_total_forward : forall unbech bech st owner_s topic r,
  Pagination.Model.pr_reverse r = false -> q_writers unbech bech st owner_s topic (Some r) <> Panic.
Proof.
  intros unbech bech st owner_s topic r Hf H. apply q_writers_panic_shape in H as [r' [Er [Hr _]]].
  inversion Er; subst r'. rewrite Hf in Hr. discriminate Hr.
Qed.

Theorem q_writers_total_nil : forall unbech bech st owner_s topic, q_writers unbech bech st owner_s topic None <> Panic.
Proof. intros unbech bech st owner_s topic H. apply q_writers_panic_shape in H as [r [Er _]]. discriminate Er. Qed.

Theorem q_writers_total_offset : forall unbech bech st owner_s topic r,
  Pagination.Model.key_is_nil (Pagination.Model.pr_key r) = true ->
  q_writers unbech bech st owner_s topic (Some r) <> Panic.
Proof.
  intros unbech bech st owner_s topic r Hn H. apply q_writers_panic_shape in H as [r' [Er [_ [_ [k [Hk Hne]]]]]].
  inversion Er; subst r'. rewrite Hk in Hn. destruct k; [apply Hne; reflexivity | discriminate Hn].
Qed.

(** * the original, unrepaired code: [Panic] was reachable *)
(** finding F1: a topic name of 256 bytes makes compkey.MustEncode panic inside Query/Record *)
Theorem lenient_query_panics : exists unbech st o t n, q_record unbech false st o t n = Panic.
Proof.
  exists (fun _ => Some [x01]), [], [], (repeat x00 256), 0%N. vm_compute. reflexivity.
Qed.

(** the same request is answered InvalidArgument by the repaired handler *)
Theorem strict_query_answers :
  q_record (fun _ => Some [x01]) true [] [] (repeat x00 256) 0%N = Err cs_grpc 3.
Proof. vm_compute. reflexivity. Qed.

(** finding F2: MsgCreateDID / MsgUpdateDID without a document make ValidateBasic dereference nil *)
Theorem lenient_validate_panics : exists unbech did sig from, vb_create_update unbech false did None sig from = Panic.
Proof.
  exists (fun _ => Some [x01]), (did_prefix ++ repeat "1"%byte 32), [x01], []. vm_compute. reflexivity.
Qed.

Theorem strict_validate_answers :
  vb_create_update (fun _ => Some [x01]) true (did_prefix ++ repeat "1"%byte 32) None [x01] [] = Err cs_did 4.
Proof. vm_compute. reflexivity. Qed.

Print Assumptions vb_base_total.
Print Assumptions validate_basic_total.
Print Assumptions signers_after_validation.
Print Assumptions signers_msg_after_validation.
Print Assumptions exec_base_total.
Print Assumptions exec_msg_total.
Print Assumptions deliver_tx_total.
Print Assumptions q_record_total.
Print Assumptions q_topic_total.
Print Assumptions q_writer_total.
Print Assumptions q_did_total.
Print Assumptions q_topics_panic_iff.
Print Assumptions q_writers_panic_iff.
Print Assumptions q_topics_panic_shape.
Print Assumptions q_writers_panic_shape.
Print Assumptions q_topics_total_forward.
Print Assumptions q_topics_total_nil.
Print Assumptions q_topics_total_offset.
Print Assumptions q_writers_total_forward.
Print Assumptions q_writers_total_nil.
Print Assumptions q_writers_total_offset.
Print Assumptions lenient_query_panics.
Print Assumptions strict_query_answers.
Print Assumptions lenient_validate_panics.
Print Assumptions strict_validate_answers.

(** * the paginated Denoms query of x/pnft *)
From PV Require Pnft.Query.
Lemma denom_on_np k v : Pnft.Query.denom_on k v <> Panic.
Proof. unfold Pnft.Query.denom_on. destruct v; discriminate. Qed.

Theorem q_denoms_panic_iff : forall st req,
  Pnft.Query.q_denoms st req = Panic <->
  exists r k x, req = Some r /\ Pagination.Model.pr_reverse r = true /\ Pagination.Model.pr_offset r = 0%N /\
                Pagination.Model.pr_key r = Some k /\ k <> [] /\
                Pagination.Model.range (sub_store GenNft.nft_class_key st) k None = [x].
Proof.
  intros st req. unfold Pnft.Query.q_denoms.
  rewrite (paginate_with_panic _ _ _ denom_on_np). apply paginate_panic_req.
Qed.

Theorem q_denoms_total_forward : forall st r,
  Pagination.Model.pr_reverse r = false -> Pnft.Query.q_denoms st (Some r) <> Panic.
Proof.
  intros st r Hf H. apply q_denoms_panic_iff in H as [r' [k [x [Er [Hr _]]]]].
  inversion Er; subst r'. rewrite Hf in Hr. discriminate Hr.
Qed.
Theorem q_denoms_total_nil : forall st, Pnft.Query.q_denoms st None <> Panic.
Proof. intros st H. apply q_denoms_panic_iff in H as [r [k [x [Er _]]]]. discriminate Er. Qed.
Theorem q_denoms_total_offset : forall st r,
  Pagination.Model.key_is_nil (Pagination.Model.pr_key r) = true -> Pnft.Query.q_denoms st (Some r) <> Panic.
Proof.
  intros st r Hn H. apply q_denoms_panic_iff in H as [r' [k [x [Er [_ [_ [Hk [Hne _]]]]]]]].
  inversion Er; subst r'. rewrite Hk in Hn. destruct k; [apply Hne; reflexivity | discriminate Hn].
Qed.

(** known finding K2: the SDK's query.Paginate panics on a reverse request whose key is the greatest stored key
    (or lies above all but one); a witness for each of the three paginated handlers *)
Definition k2_req : Pagination.Model.page_req := Pagination.Model.mk_page_req (Some [x01; "a"%byte]) 0 10 false true.
Theorem q_topics_refuted :
  exists st, q_topics (fun _ => Some [x01]) st [] (Some k2_req) = Panic.
Proof.
  exists (match create_topic (fun _ => Some [x01]) [] (b "a") [] (b "o") with Ok s => s | _ => [] end).
  vm_compute. reflexivity.
Qed.
