(** C09, source tie (T1): the nondeterminism footprint regenerated from /repo on every run contains no use of
    wall-clock time, randomness, goroutines, select, process environment, floating point or unsafe in the
    state-machine code, and every range over a Go map is one of the sites whose order-insensitivity is proved
    for the model (genesis import: [Aol.Genesis.export_import_identity] over permutations, [Did.Genesis.init_did_perm];
    genesis validation: a conjunction, [forallb_perm]; module-account tables: maps built from maps). *)
From Coq Require Import Strings.String Strings.Byte.
From Coq Require Import List Arith NArith Bool Permutation.
From PV Require Import Base.Bytes.
From PV Require Generated.GenFootprint.
Import ListNotations.

Definition site := (bytes * bytes * bytes)%type.
Definition site_eqb (x y : site) : bool :=
  bytes_eqb (fst (fst x)) (fst (fst y)) && bytes_eqb (snd (fst x)) (snd (fst y)) && bytes_eqb (snd x) (snd y).

(** the map ranges whose iteration order provably cannot reach the state (file, function, ranged expression) *)
Definition allowed_sites : list site :=
  [ (b "x/aol/genesis.go", b "InitGenesis", b "genState.Owners");
    (b "x/aol/genesis.go", b "InitGenesis", b "genState.Topics");
    (b "x/aol/genesis.go", b "InitGenesis", b "genState.Writers");
    (b "x/aol/genesis.go", b "InitGenesis", b "genState.Records");
    (b "x/aol/types/genesis.go", b "GenesisState.Validate", b "gs.Owners");
    (b "x/aol/types/genesis.go", b "GenesisState.Validate", b "gs.Topics");
    (b "x/aol/types/genesis.go", b "GenesisState.Validate", b "gs.Writers");
    (b "x/aol/types/genesis.go", b "GenesisState.Validate", b "gs.Records");
    (b "x/did/genesis.go", b "InitGenesis", b "data.Documents");
    (b "x/did/types/genesis.go", b "GenesisState.Validate", b "data.Documents");
    (b "app/app.go", b "GetMaccPerms", b "maccPerms");
    (b "app/app.go", b "BlockedAddresses", b "GetMaccPerms(...)") ].

Definition map_ranges_accounted : bool :=
  forallb (fun s => existsb (site_eqb s) allowed_sites) GenFootprint.map_ranges.

Theorem footprint_no_forbidden_use : GenFootprint.forbidden_uses = [].
Proof. reflexivity. Qed.
Theorem footprint_map_ranges_accounted : map_ranges_accounted = true.
Proof. vm_compute. reflexivity. Qed.
Theorem footprint_scanned : (100 <=? GenFootprint.scanned_files)%nat = true.
Proof. vm_compute. reflexivity. Qed.

(** a validation that is a conjunction over the entries does not depend on their order *)
Lemma forallb_perm {A} (f : A -> bool) (l l' : list A) : Permutation l l' -> forallb f l = forallb f l'.
Proof.
  induction 1 as [|x l l' _ IH|x y l|l l' l'' _ IH1 _ IH2]; cbn [forallb].
  - reflexivity.
  - rewrite IH. reflexivity.
  - destruct (f x), (f y); reflexivity.
  - rewrite IH1. exact IH2.
Qed.

Print Assumptions footprint_no_forbidden_use.
Print Assumptions footprint_map_ranges_accounted.
Print Assumptions forallb_perm.
