(** History-level facts about x/pnft (C06, C12): the invariant along every history. *)
From Coq Require Import Strings.String Strings.Byte.
From Coq Require Import List Arith NArith ZArith Bool Lia.
From PV Require Import Base.Bytes Base.Outcome Base.KV Compkey.Model.
From PV Require Import Aol.Model Aol.Spec Valid.Aol Bank.Model Did.Model Pnft.Model Pnft.Spec Pnft.Inv.
From PV Require Import Chain.Model Chain.Run Chain.Lift Chain.AolProps.
Import ListNotations.

(** ** frame: only PNFT messages touch the PNFT store *)
Lemma exec_base_pnft_frame e c m c' a :
  exec_base e c m = Ok (c', a) -> (forall pm, m <> BPnft pm) -> c_pnft c' = c_pnft c.
Proof.
  intros H Hn. destruct m as [am|dm|pm|f t amt|f t amt et|g r u ex|g r u|f amt outs]; simpl in H.
  - destruct am as [t d o|t mo d w o|t w o|t k v w o f]; simpl in H;
      match type of H with bind ?x _ = _ => destruct x; simpl in H; try discriminate end;
      inversion H; reflexivity.
  - destruct dm as [did [doc|] vmid sg from|did [doc|] vmid sg from|did vmid sg from]; simpl in H; try discriminate;
      match type of H with bind ?x _ = _ => destruct x; simpl in H; try discriminate end;
      inversion H; reflexivity.
  - exfalso. apply (Hn pm). reflexivity.
  - destruct (e_unbech e f), (e_unbech e t); try discriminate.
    destruct (mem_bytes _ _); try discriminate.
    destruct (send _ _ _ _ _); try discriminate. inversion H; reflexivity.
  - destruct (e_unbech e f), (e_unbech e t); try discriminate.
    destruct (mem_bytes _ _); try discriminate.
    destruct (account_exists _ _); try discriminate.
    destruct (send _ _ _ _ _); try discriminate. inversion H; reflexivity.
  - destruct (e_unbech e g), (e_unbech e r); try discriminate.
    destruct (match ex with Some t => _ | None => false end); try discriminate. inversion H; reflexivity.
  - destruct (e_unbech e g), (e_unbech e r); try discriminate.
    destruct (find_grant _ _ _ _); try discriminate. inversion H; reflexivity.
  - destruct (e_unbech e f); try discriminate. destruct (unbech_outs _ _); try discriminate.
    destruct (existsb _ _); try discriminate.
    destruct (multi_send _ _ _ _ _); try discriminate. inversion H; reflexivity.
Qed.

Lemma ante_pnft_frame e c t c' : ante e c t = Some c' -> c_pnft c' = c_pnft c.
Proof.
  unfold ante. destruct (required_signers e t) as [[|p rest]| |]; try discriminate.
  destruct (list_bytes_eqb _ _); try discriminate.
  destruct (tx_fee t) as [|f fs]; [intros [= <-]; auto|].
  destruct (send _ _ _ _ _); try discriminate. intros [= <-]. auto.
Qed.

(** the result of a PNFT message: the new store *)
Lemma exec_pnft_ok e c m c' a :
  exec_pnft e c m = Ok (c', a) ->
  a = [] /\ c_aol c' = c_aol c /\ c_did c' = c_did c /\ c_bank c' = c_bank c /\ c_grants c' = c_grants c.
Proof.
  unfold exec_pnft. intros H.
  match type of H with bind ?x _ = _ => destruct x as [st'| |]; simpl in H; try discriminate end.
  inversion H; subst. simpl. auto.
Qed.

Lemma exec_pnft_inv e c m c' a :
  env_ok e -> vb_pnft e m = Ok tt -> exec_pnft e c m = Ok (c', a) ->
  Inv_pnft (c_pnft c) -> Inv_pnft (c_pnft c').
Proof.
  intros He Hvb Hx Hi. unfold exec_pnft in Hx.
  destruct m as [id name symbol description uri uri_hash creator data
                |id name symbol description uri uri_hash updater data
                |id remover|id sender receiver
                |denom_id id name description uri uri_hash data creator
                |denom_id id sender receiver|denom_id id burner]; simpl in Hvb;
    match type of Hx with bind ?x _ = _ => destruct x as [st'| |] eqn:Ex; simpl in Hx; try discriminate end;
    inversion Hx; subst; simpl.
  - refine (create_denom_inv (e_unbech e) _ _ _ Hi _ Ex). exact Hvb.
  - apply (update_denom_inv _ _ _ _ _ _ _ _ _ _ Hi Ex).
  - apply (delete_denom_inv (e_bech e) _ _ _ _ Hi Ex).
  - apply (transfer_denom_inv _ _ _ _ _ Hi Ex).
  - apply (mint_pnft_inv (e_unbech e) He (e_bech e) _ _ _ _ _ _ _ _ _ _ _ Hi Hvb Ex).
  - apply (transfer_pnft_inv (e_unbech e) He (e_bech e) _ _ _ _ _ _ Hi Ex).
  - apply (burn_pnft_inv (e_bech e) _ _ _ _ _ Hi Ex).
Qed.

Definition R_pnft (c c' : chain) : Prop := Inv_pnft (c_pnft c) -> Inv_pnft (c_pnft c').

Theorem pnft_run o bs c :
  unbech_wf (o_unbech o) -> Inv_pnft (c_pnft c) -> Inv_pnft (c_pnft (run o c bs)).
Proof.
  intros Ho Hi.
  apply (R_run R_pnft env_ok); try exact Hi.
  - intros c0 H. exact H.
  - intros a b0 c0 H1 H2 Ha. apply H2. apply H1. exact Ha.
  - intros e c0 m c' acks He Hvb Hx Ha.
    destruct m as [am|dm|pm|f t amt|f t amt et|g r u ex|g r u|f amt outs];
      try (rewrite (exec_base_pnft_frame e c0 _ c' acks Hx); [exact Ha | intros pm0; discriminate]).
    simpl in Hvb, Hx. eapply exec_pnft_inv; eauto.
  - intros e c0 t c' _ Hx Ha. rewrite (ante_pnft_frame e c0 t c' Hx). exact Ha.
  - intros e c0 _ Ha. exact Ha.
  - intros e c0 _ Ha. destruct (end_block_custom e c0) as [_ [_ [E _]]]. rewrite E. exact Ha.
  - intros t. exact Ho.
Qed.

(** ** C06: an accepted PNFT message comes from the stored owner *)
Definition pnft_actor (m : pnft_msg) : bytes :=
  match m with
  | PCreateDenom _ _ _ _ _ _ s _ | PUpdateDenom _ _ _ _ _ _ s _ | PDeleteDenom _ s | PTransferDenom _ s _
  | PMint _ _ _ _ _ _ _ s | PTransfer _ _ s _ | PBurn _ _ s => s
  end.

(** the single signer of a PNFT message is the actor it names *)
Theorem pnft_signer_is_actor e m a :
  e_unbech e (pnft_actor m) = Some a -> signers_base e (BPnft m) = Ok [a].
Proof.
  intros H. destruct m; simpl in *; unfold addr_or_panic; rewrite H; reflexivity.
Qed.

Theorem pnft_accept_needs_owner e c m c' a :
  Inv_pnft (c_pnft c) -> exec_pnft e c m = Ok (c', a) ->
  match m with
  | PCreateDenom id _ _ _ _ _ creator _ =>
      get_class (c_pnft c) id = None /\ denom_owner (c_pnft c') id = Some creator
  | PUpdateDenom id _ _ _ _ _ updater _ => denom_owner (c_pnft c) id = Some updater
  | PDeleteDenom id remover => denom_owner (c_pnft c) id = Some remover /\ get_supply (c_pnft c) id = 0%N
  | PTransferDenom id sender receiver =>
      denom_owner (c_pnft c) id = Some sender /\ denom_owner (c_pnft c') id = Some receiver
  | PMint denom_id id _ _ _ _ _ creator =>
      denom_owner (c_pnft c) denom_id = Some creator /\ get_nft (c_pnft c) denom_id id = None /\
      exists r, e_unbech e creator = Some r /\ get_owner (c_pnft c') denom_id id = r
  | PTransfer denom_id id sender receiver =>
      (exists p, get_pnft (e_bech e) (c_pnft c) denom_id id = Some p /\ p_owner p = sender) /\
      exists r, e_unbech e receiver = Some r /\ get_owner (c_pnft c') denom_id id = r
  | PBurn denom_id id burner =>
      exists p, get_pnft (e_bech e) (c_pnft c) denom_id id = Some p /\ p_owner p = burner
  end.
Proof.
  intros Hi Hx. unfold exec_pnft in Hx.
  destruct m as [id name symbol description uri uri_hash creator data
                |id name symbol description uri uri_hash updater data
                |id remover|id sender receiver
                |denom_id id name description uri uri_hash data creator
                |denom_id id sender receiver|denom_id id burner];
    match type of Hx with bind ?x _ = _ => destruct x as [st'| |] eqn:Ex; simpl in Hx; try discriminate end;
    inversion Hx; subst; simpl.
  - destruct (create_denom_effect _ _ _ Ex) as [H1 H2]. simpl in *. split; [exact H1|].
    unfold denom_owner. rewrite H2. reflexivity.
  - destruct (update_denom_owner _ _ _ _ _ _ _ _ _ _ Ex) as [dn [H1 H2]]. unfold denom_owner. rewrite H1, H2. reflexivity.
  - destruct (delete_denom_owner _ _ _ _ Ex) as [dn [H1 [H2 H3]]]. unfold denom_owner. rewrite H1, H2. auto.
  - destruct (transfer_denom_owner _ _ _ _ _ Hi Ex) as [dn [H1 [H2 [dn' [H3 H4]]]]].
    unfold denom_owner. rewrite H1, H2, H3, H4. auto.
  - destruct (mint_pnft_owner _ _ _ _ _ _ _ _ _ _ _ _ Ex) as [dn [r [H1 [H2 [H3 [H4 [H5 H6]]]]]]].
    destruct (get_class_id _ _ _ Hi H1) as [Hid _]. rewrite Hid in *.
    unfold denom_owner. rewrite H1, H2. split; [reflexivity|]. split; [exact H4|]. exists r. auto.
  - destruct (transfer_pnft_owner _ _ _ _ _ _ _ _ Ex) as [p [r [H1 [H2 [H3 H4]]]]].
    split; [exists p; auto | exists r; auto].
  - destruct (burn_pnft_owner _ _ _ _ _ _ Ex) as [p [H1 H2]]. exists p. auto.
Qed.

(** ** C06: ownership changes only through the message that names the item *)
Theorem denom_owner_changes_only_by_its_messages e c m c' a id' :
  Inv_pnft (c_pnft c) -> exec_pnft e c m = Ok (c', a) ->
  denom_owner (c_pnft c') id' <> denom_owner (c_pnft c) id' ->
  match m with
  | PCreateDenom id _ _ _ _ _ _ _ | PDeleteDenom id _ | PTransferDenom id _ _ => id = id'
  | _ => False
  end.
Proof.
  intros Hi Hx Hne. unfold exec_pnft in Hx.
  destruct m as [id name symbol description uri uri_hash creator data
                |id name symbol description uri uri_hash updater data
                |id remover|id sender receiver
                |denom_id id name description uri uri_hash data creator
                |denom_id id sender receiver|denom_id id burner];
    match type of Hx with bind ?x _ = _ => destruct x as [st'| |] eqn:Ex; simpl in Hx; try discriminate end;
    inversion Hx; subst; simpl in *.
  - destruct (bytes_eq_dec id id') as [E|N]; [exact E|]. exfalso. apply Hne.
    apply (create_denom_owner_frame _ _ _ Ex). simpl. congruence.
  - apply Hne. apply (update_denom_keeps_owners _ _ _ _ _ _ _ _ _ _ Hi Ex).
  - destruct (bytes_eq_dec id id') as [E|N]; [exact E|]. exfalso. apply Hne.
    apply (delete_denom_owner_frame _ _ _ _ Ex). congruence.
  - destruct (bytes_eq_dec id id') as [E|N]; [exact E|]. exfalso. apply Hne.
    apply (transfer_denom_owner_frame _ _ _ _ _ Hi Ex). congruence.
  - apply Hne. apply (mint_pnft_keeps_denom_owners _ _ _ _ _ _ _ _ _ _ _ _ Ex).
  - apply Hne. apply (transfer_pnft_keeps_denom_owners _ _ _ _ _ _ _ _ Ex).
  - apply Hne. apply (burn_pnft_keeps_denom_owners _ _ _ _ _ _ Ex).
Qed.

Theorem token_owner_changes_only_by_its_messages e c m c' a c0 i0 :
  Inv_pnft (c_pnft c) -> Pnft.Spec.id_ok c0 -> Pnft.Spec.id_ok i0 -> exec_pnft e c m = Ok (c', a) ->
  get_owner (c_pnft c') c0 i0 <> get_owner (c_pnft c) c0 i0 ->
  match m with
  | PMint d i _ _ _ _ _ _ | PTransfer d i _ _ | PBurn d i _ => (d, i) = (c0, i0)
  | _ => False
  end.
Proof.
  intros Hi Hc Hid Hx Hne. unfold exec_pnft in Hx.
  destruct m as [id name symbol description uri uri_hash creator data
                |id name symbol description uri uri_hash updater data
                |id remover|id sender receiver
                |denom_id id name description uri uri_hash data creator
                |denom_id id sender receiver|denom_id id burner];
    match type of Hx with bind ?x _ = _ => destruct x as [st'| |] eqn:Ex; simpl in Hx; try discriminate end;
    inversion Hx; subst; simpl in *.
  - apply Hne. apply (create_denom_keeps_token_owners _ _ _ Ex).
  - apply Hne. apply (update_denom_keeps_token_owners _ _ _ _ _ _ _ _ _ _ Ex).
  - apply Hne. apply (delete_denom_keeps_token_owners _ _ _ _ Ex).
  - apply Hne. apply (transfer_denom_keeps_token_owners _ _ _ _ _ Ex).
  - destruct (list_eq_dec bytes_eq_dec [denom_id; id] [c0; i0]) as [E|N]; [inversion E; reflexivity|].
    exfalso. apply Hne. apply (mint_pnft_token_owner_frame _ _ _ _ _ _ _ _ _ _ _ _ Hi Ex _ _ Hc Hid).
    intros E. apply N. inversion E. reflexivity.
  - destruct (list_eq_dec bytes_eq_dec [denom_id; id] [c0; i0]) as [E|N]; [inversion E; reflexivity|].
    exfalso. apply Hne. apply (transfer_pnft_token_owner_frame _ _ _ _ _ _ _ _ Hi Ex).
    intros E. apply N. inversion E. reflexivity.
  - destruct (list_eq_dec bytes_eq_dec [denom_id; id] [c0; i0]) as [E|N]; [inversion E; reflexivity|].
    exfalso. apply Hne. apply (burn_pnft_token_owner_frame _ _ _ _ _ _ Hi Ex).
    intros E. apply N. inversion E. reflexivity.
Qed.

(** ** C12: a token's record never changes; it disappears only through its own Burn *)
Theorem token_metadata_immutable e c m c' a c0 i0 t :
  Inv_pnft (c_pnft c) -> exec_pnft e c m = Ok (c', a) -> get_nft (c_pnft c) c0 i0 = Some t ->
  get_nft (c_pnft c') c0 i0 = Some t \/
  (exists burner, m = PBurn c0 i0 burner /\ get_nft (c_pnft c') c0 i0 = None).
Proof.
  intros Hi Hx Ht. unfold exec_pnft in Hx.
  destruct m as [id name symbol description uri uri_hash creator data
                |id name symbol description uri uri_hash updater data
                |id remover|id sender receiver
                |denom_id id name description uri uri_hash data creator
                |denom_id id sender receiver|denom_id id burner];
    match type of Hx with bind ?x _ = _ => destruct x as [st'| |] eqn:Ex; simpl in Hx; try discriminate end;
    inversion Hx; subst; simpl in *.
  - left. rewrite (create_denom_tokens_immutable _ _ _ Ex). exact Ht.
  - left. rewrite (update_denom_tokens_immutable _ _ _ _ _ _ _ _ _ _ Ex). exact Ht.
  - left. rewrite (delete_denom_tokens_immutable _ _ _ _ Ex). exact Ht.
  - left. rewrite (transfer_denom_tokens_immutable _ _ _ _ _ Ex). exact Ht.
  - left. apply (mint_pnft_tokens_immutable _ _ _ _ _ _ _ _ _ _ _ _ Hi Ex _ _ _ Ht).
  - left. rewrite (transfer_pnft_tokens_immutable _ _ _ _ _ _ _ _ Ex). exact Ht.
  - destruct (burn_pnft_tokens_immutable _ _ _ _ _ _ Hi Ex _ _ _ Ht) as [H|[E H]]; [left; exact H|].
    right. inversion E; subst. exists burner. auto.
Qed.

(** a transaction that is not accepted leaves the PNFT store untouched *)
Theorem refused_is_noop_pnft : forall e c t,
  (forall acks, snd (deliver_tx e c t) <> ROk acks) -> c_pnft (fst (deliver_tx e c t)) = c_pnft c.
Proof.
  intros e c t H. unfold deliver_tx in *.
  destruct (tx_msgs t) as [|m0 r0]; [reflexivity|].
  destruct (vb_msgs e (m0 :: r0)) as [[]| |]; cbn [fst]; try reflexivity.
  destruct (ante e c t) as [c1|] eqn:Ea; cbn [fst]; [|reflexivity].
  pose proof (ante_pnft_frame e c t c1 Ea) as A.
  destruct (run_msgs e c1 (m0 :: r0) 0 []) as [c2 res].
  destruct res; cbn [fst snd] in *; try exact A. exfalso. apply (H acks). reflexivity.
Qed.
