(** Per-handler facts about x/did (C03, C04, C05, C11). *)
From Coq Require Import Strings.String Strings.Byte.
From Coq Require Import List Arith NArith ZArith Bool Lia.
From PV Require Import Base.Bytes Base.Outcome Base.KV Proto.Model Proto.Proofs Did.Model.
From PV Require Generated.GenConst.
Import ListNotations.
Local Open Scope N_scope.

Lemma did_key_inj a c : did_key a = did_key c -> a = c.
Proof. unfold did_key. apply app_inv_head. Qed.

Lemma get_entry_set_same st did e : get_entry (set (did_key did) e st) did = e.
Proof. unfold get_entry. rewrite get_set_eq. reflexivity. Qed.

Lemma get_entry_set_other st did did' e : did' <> did -> get_entry (set (did_key did) e st) did' = get_entry st did'.
Proof.
  intros H. unfold get_entry. rewrite get_set_neq; [reflexivity|].
  intros E. apply H. apply did_key_inj. exact E.
Qed.

(** an entry of the registry is either an active document about its own key or a tombstone (a document with an empty
    id — what DIDDocument.Empty() tests — and a sequence other than the initial one) *)
Definition entry_ok (did : bytes) (e : did_entry) : Prop :=
  exists d, en_doc e = Some d /\
    ((doc_id d = did /\ did <> []) \/ (doc_empty d = true /\ en_seq e <> 0)).

Definition Inv_did (st : did_state) : Prop :=
  sorted st /\ forall k e, get k st = Some e -> exists did, k = did_key did /\ entry_ok did e.

Lemma Inv_did_empty : Inv_did [].
Proof. split; [exact I | intros k e H; discriminate]. Qed.

Lemma entry_ok_not_empty did e : entry_ok did e -> entry_empty e = false.
Proof.
  intros [d [Hd [[Hid Hne]|[He Hs]]]]; unfold entry_empty; rewrite Hd.
  - unfold doc_empty. rewrite Hid. destruct did; [contradiction | reflexivity].
  - rewrite He. simpl. apply N.eqb_neq in Hs. rewrite Hs. reflexivity.
Qed.

Lemma Inv_did_get_entry st did :
  Inv_did st -> get (did_key did) st = None \/ entry_ok did (get_entry st did).
Proof.
  intros [_ H]. unfold get_entry. destruct (get (did_key did) st) as [e|] eqn:G; [|left; reflexivity].
  right. destruct (H _ _ G) as [did' [Ek Hok]]. apply did_key_inj in Ek. subst did'. exact Hok.
Qed.

Lemma Inv_did_set st did e : Inv_did st -> entry_ok did e -> Inv_did (set (did_key did) e st).
Proof.
  intros [Hs H] Hok. split; [apply sorted_set; exact Hs|].
  intros k e' G. rewrite get_set in G. destruct (bytes_eqb k (did_key did)) eqn:E.
  - apply bytes_eqb_eq in E. inversion G; subst. exists did. auto.
  - apply H. exact G.
Qed.

Section Handlers.
  Variable b58key : bytes -> option bytes.
  Variable verify : bytes -> bytes -> bytes -> bool.

  (** a proof of control: a key the document [doc] lists under authentication, of an ES256K type,
      verifies [sig] over [signbytes (marshal_doc data) seq], and [seq] is not the last uint64 value *)
  Definition proof_ok (doc data : did_doc) (seq : N) (vmid sig : bytes) : Prop :=
    seq <> max_seq /\      (* the sequence has a successor (F15) *)
    exists vm pk, vm_from doc (doc_auth doc) vmid = Some vm /\ es256k (vm_type vm) = true /\
                  b58key (vm_pubkey58 vm) = Some pk /\
                  verify pk (signbytes (marshal_doc data) seq) sig = true.

  Lemma verify_ownership_ok data seq doc vmid sig nseq :
    verify_ownership b58key verify marshal_doc data seq doc vmid sig = Ok nseq ->
    proof_ok doc data seq vmid sig /\ nseq = seq + 1.
  Proof.
    unfold verify_ownership, proof_ok.
    destruct (vm_from doc (doc_auth doc) vmid) as [vm|]; [|discriminate].
    destruct (es256k (vm_type vm)) eqn:Et; simpl; [|discriminate].
    destruct (b58key (vm_pubkey58 vm)) as [pk|] eqn:Ek; [|discriminate].
    destruct (verify pk (signbytes (marshal_doc data) seq) sig) eqn:Ev; [|discriminate].
    destruct (seq =? max_seq)%N eqn:Em; simpl; [discriminate|].
    intros [= <-]. split; [|reflexivity]. split; [apply N.eqb_neq; exact Em|]. exists vm, pk. auto.
  Qed.

  (** the last uint64 sequence has no successor: no proof over it is accepted (F15) *)
  Lemma verify_ownership_below_max data seq doc vmid sig nseq :
    verify_ownership b58key verify marshal_doc data seq doc vmid sig = Ok nseq -> seq <> max_seq.
  Proof.
    unfold verify_ownership.
    destruct (vm_from doc (doc_auth doc) vmid) as [vm|]; [|discriminate].
    destruct (es256k (vm_type vm)); simpl; [|discriminate].
    destruct (b58key (vm_pubkey58 vm)) as [pk|]; [|discriminate].
    destruct (verify pk (signbytes (marshal_doc data) seq) sig); [|discriminate].
    destruct (seq =? max_seq)%N eqn:E; simpl; [discriminate|]. intros _. apply N.eqb_neq. exact E.
  Qed.

  (** ** what an accepted message does *)
  Lemma create_did_ok st did doc vmid sig st' :
    create_did b58key verify marshal_doc st did doc vmid sig = Ok st' ->
    entry_empty (get_entry st did) = true /\ proof_ok doc doc 0 vmid sig /\
    st' = set (did_key did) {| en_doc := Some doc; en_seq := 0 |} st.
  Proof.
    unfold create_did. destruct (entry_empty (get_entry st did)) eqn:Ee; simpl.
    - destruct (verify_ownership b58key verify marshal_doc doc 0 doc vmid sig) as [n| |] eqn:Ev; simpl; try discriminate.
      intros [= <-]. apply verify_ownership_ok in Ev as [Hp _]. auto.
    - destruct (entry_deactivated (get_entry st did)); discriminate.
  Qed.

  Lemma update_did_ok st did doc vmid sig st' :
    update_did b58key verify marshal_doc st did doc vmid sig = Ok st' ->
    exists stored, en_doc (get_entry st did) = Some stored /\
      entry_empty (get_entry st did) = false /\ entry_deactivated (get_entry st did) = false /\
      proof_ok stored doc (en_seq (get_entry st did)) vmid sig /\
      st' = set (did_key did) {| en_doc := Some doc; en_seq := en_seq (get_entry st did) + 1 |} st.
  Proof.
    unfold update_did. destruct (entry_empty (get_entry st did)) eqn:Ee; [discriminate|].
    destruct (entry_deactivated (get_entry st did)) eqn:Ed; [discriminate|].
    destruct (en_doc (get_entry st did)) as [stored|] eqn:Es; [|discriminate].
    destruct (verify_ownership b58key verify marshal_doc doc (en_seq (get_entry st did)) stored vmid sig) as [n| |] eqn:Ev;
      simpl; try discriminate.
    intros [= <-]. apply verify_ownership_ok in Ev as [Hp ->]. exists stored. auto.
  Qed.

  Lemma deactivate_did_ok st did vmid sig st' :
    deactivate_did b58key verify marshal_doc st did vmid sig = Ok st' ->
    exists stored, en_doc (get_entry st did) = Some stored /\
      entry_empty (get_entry st did) = false /\ entry_deactivated (get_entry st did) = false /\
      proof_ok stored (id_only did) (en_seq (get_entry st did)) vmid sig /\
      st' = set (did_key did) {| en_doc := Some empty_doc; en_seq := en_seq (get_entry st did) + 1 |} st.
  Proof.
    unfold deactivate_did. destruct (entry_empty (get_entry st did)) eqn:Ee; [discriminate|].
    destruct (entry_deactivated (get_entry st did)) eqn:Ed; [discriminate|].
    destruct (en_doc (get_entry st did)) as [stored|] eqn:Es; [|discriminate].
    destruct (verify_ownership b58key verify marshal_doc (id_only did) (en_seq (get_entry st did)) stored vmid sig) as [n| |] eqn:Ev;
      simpl; try discriminate.
    intros [= <-]. apply verify_ownership_ok in Ev as [Hp ->]. exists stored. auto.
  Qed.

  (** ** rejection conditions that do not depend on the proof *)
  Lemma create_existing_fails st did doc vmid sig :
    entry_empty (get_entry st did) = false ->
    exists code, create_did b58key verify marshal_doc st did doc vmid sig = Err cs_did code /\ (code = 2 \/ code = 13).
  Proof.
    intros H. unfold create_did. rewrite H. simpl.
    destruct (entry_deactivated (get_entry st did)); [exists 13 | exists 2]; auto.
  Qed.

  Lemma deactivated_rejects_all st did :
    entry_deactivated (get_entry st did) = true ->
    (forall doc vmid sig, create_did b58key verify marshal_doc st did doc vmid sig = Err cs_did 13) /\
    (forall doc vmid sig, update_did b58key verify marshal_doc st did doc vmid sig = Err cs_did 13) /\
    (forall vmid sig, deactivate_did b58key verify marshal_doc st did vmid sig = Err cs_did 13) /\
    q_did st did = DDeactivated.
  Proof.
    intros H.
    assert (He : entry_empty (get_entry st did) = false).
    { unfold entry_deactivated, entry_empty in *. destruct (en_doc (get_entry st did)) as [d|]; [|discriminate].
      apply andb_true_iff in H as [H1 H2]. rewrite H1. simpl. apply negb_true_iff in H2. exact H2. }
    unfold create_did, update_did, deactivate_did, q_did. rewrite He, H. simpl. auto.
  Qed.
End Handlers.

(** a validated create/update carries a document about the DID it names *)
Lemma vb_doc_strict did doc : vb_doc true did (Some doc) = Ok tt -> doc_id doc = did /\ doc_empty doc = false.
Proof.
  unfold vb_doc. simpl. destruct (doc_empty doc) eqn:Ee; simpl; [discriminate|].
  destruct (bytes_eqb (doc_id doc) did) eqn:Ei; simpl; [|discriminate].
  intros _. apply bytes_eqb_eq in Ei. auto.
Qed.

Lemma vb_create_update_strict unbech did doc sig from :
  vb_create_update unbech true did doc sig from = Ok tt ->
  validate_did did = true /\ exists d, doc = Some d /\ doc_id d = did /\ doc_empty d = false.
Proof.
  unfold vb_create_update. destruct (validate_did did) eqn:Ev; simpl; [|discriminate].
  destruct (vb_doc true did doc) as [[]| |] eqn:Ed; simpl; try discriminate.
  intros _. split; [reflexivity|].
  destruct doc as [d|]; [|discriminate]. exists d. split; [reflexivity|]. apply vb_doc_strict. exact Ed.
Qed.

Lemma validate_did_nonempty did : validate_did did = true -> did <> [].
Proof.
  intros H ->. unfold validate_did, did_prefix in H. simpl in H. discriminate.
Qed.
