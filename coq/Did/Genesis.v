(** C08 for x/did: genesis export followed by import reproduces the store exactly, whatever order the
    Go map iteration delivers the genesis entries in; the export of the imported store is the same genesis. *)
From Coq Require Import Strings.String Strings.Byte.
From Coq Require Import List Arith NArith ZArith Bool Permutation.
From PV Require Import Base.Bytes Base.Outcome Base.KV Proto.Model Did.Model Did.Props.
From PV Require Generated.GenConst.
Import ListNotations.

(** * export, as a function on the entries *)
Lemma strip_did_key did : strip_prefix GenConst.did_key_prefix (did_key did) = Some did.
Proof. apply strip_prefix_spec. reflexivity. Qed.

(** the store key that InitGenesis writes for a genesis entry *)
Definition gkey (p : bytes * did_entry) : bytes := did_key (fst p).

Lemma export_did_cons_key did e r : export_did ((did_key did, e) :: r) = (did, e) :: export_did r.
Proof. cbn [export_did]. rewrite strip_did_key. reflexivity. Qed.

(** when every key of the store is a DID key, export just strips the prefix: re-attaching it gives the store *)
Lemma export_did_keyed : forall items : list (bytes * did_entry),
  (forall k e, In (k, e) items -> exists did, k = did_key did) ->
  map (fun p => (gkey p, snd p)) (export_did items) = items.
Proof.
  induction items as [|[k e] r IH]; intros Hk; [reflexivity|].
  destruct (Hk k e (or_introl eq_refl)) as [did ->].
  rewrite export_did_cons_key. cbn [map]. unfold gkey at 1. cbn [fst snd].
  rewrite IH; [reflexivity|]. intros k' e' Hin. apply (Hk k' e'). right. exact Hin.
Qed.

Lemma Inv_did_keyed st : Inv_did st -> forall k e, In (k, e) st -> exists did, k = did_key did.
Proof.
  intros [Hs H] k e Hin. destruct (H k e (In_get _ _ _ Hs Hin)) as [did [E _]]. exists did. exact E.
Qed.

Lemma export_did_keys st : Inv_did st -> map gkey (export_did st) = keys st.
Proof.
  intros HI. pose proof (export_did_keyed st (Inv_did_keyed st HI)) as E.
  apply (f_equal (map fst)) in E. rewrite map_map in E. cbn [fst] in E. exact E.
Qed.

(** every exported entry is exactly one store entry, under the DID it is stored by *)
Lemma export_did_In st : Inv_did st -> forall did e, In (did, e) (export_did st) <-> get (did_key did) st = Some e.
Proof.
  intros HI did e. pose proof (export_did_keyed st (Inv_did_keyed st HI)) as E. split.
  - intros Hin. apply In_get; [exact (proj1 HI)|]. rewrite <- E.
    apply in_map_iff. exists (did, e). split; [reflexivity | exact Hin].
  - intros G. apply get_In in G. rewrite <- E in G. apply in_map_iff in G as [[did' e'] [Eq Hin]].
    unfold gkey in Eq. cbn [fst snd] in Eq. pose proof (f_equal fst Eq) as Ek. pose proof (f_equal snd Eq) as Ee. cbn [fst snd] in Ek, Ee.
    apply did_key_inj in Ek. subst. exact Hin.
Qed.

(** the exported DIDs are pairwise distinct (they become the keys of a Go map) *)
Lemma export_did_NoDup st : Inv_did st -> NoDup (map fst (export_did st)).
Proof.
  intros HI. apply (NoDup_map_inv did_key). rewrite map_map.
  change (fun x : bytes * did_entry => did_key (fst x)) with gkey.
  rewrite (export_did_keys st HI). apply sorted_NoDup_keys. exact (proj1 HI).
Qed.

(** * import: a sequence of [set]s *)
Lemma init_did_spec : forall (g : did_genesis) (s0 : did_state),
  NoDup (map fst g) ->
  (sorted s0 -> sorted (init_did g s0)) /\
  (forall did e, In (did, e) g -> get (did_key did) (init_did g s0) = Some e) /\
  (forall k, ~ In k (map gkey g) -> get k (init_did g s0) = get k s0).
Proof.
  induction g as [|[did e] r IH]; intros s0 Hnd.
  - split; [intros S0; exact S0|]. split; [intros did e Hin; contradiction Hin | intros k _; reflexivity].
  - cbn [map fst] in Hnd. inversion Hnd as [|? ? Hnin Hnd']; subst.
    destruct (IH (set (did_key did) e s0) Hnd') as (Hso & Hin & Hout).
    cbn [init_did]. split; [intros S0; apply Hso; apply sorted_set; exact S0|]. split.
    + intros did' e' [Heq|Hr].
      * inversion Heq; subst did' e'. rewrite Hout; [apply get_set_eq|].
        intros C. apply in_map_iff in C as [[d2 e2] [Ek Hin2]]. unfold gkey in Ek. cbn [fst] in Ek.
        apply did_key_inj in Ek. subst d2. apply Hnin. apply in_map_iff. exists (did, e2). split; [reflexivity | exact Hin2].
      * apply Hin. exact Hr.
    + intros k Hk. cbn [map] in Hk. unfold gkey at 1 in Hk. cbn [fst] in Hk. rewrite Hout.
      * apply get_set_neq. intros E. apply Hk. left. symmetry. exact E.
      * intros C. apply Hk. right. exact C.
Qed.

Lemma In_gkey (g : did_genesis) k : In k (map gkey g) -> exists did e, k = did_key did /\ In (did, e) g.
Proof.
  intros Hin. apply in_map_iff in Hin as [[did e] [E Hin]]. exists did, e. split; [symmetry; exact E | exact Hin].
Qed.

(** * the order of the genesis entries is irrelevant (Go iterates a map) *)
Theorem init_did_perm_from : forall (g g' : did_genesis) (s0 : did_state),
  sorted s0 -> Permutation g g' -> NoDup (map fst g) -> init_did g' s0 = init_did g s0.
Proof.
  intros g g' s0 S0 HP Hnd.
  assert (Hnd' : NoDup (map fst g')) by (apply (Permutation_NoDup (Permutation_map fst HP)); exact Hnd).
  destruct (init_did_spec g s0 Hnd) as (Hs & Hin & Hout).
  destruct (init_did_spec g' s0 Hnd') as (Hs' & Hin' & Hout').
  apply sorted_ext; [apply Hs'; exact S0 | apply Hs; exact S0|].
  intros k. destruct (in_dec bytes_eq_dec k (map gkey g)) as [Hk|Hk].
  - destruct (In_gkey g k Hk) as (did & e & -> & Hi).
    rewrite (Hin did e Hi). apply Hin'. apply (Permutation_in _ HP). exact Hi.
  - rewrite (Hout k Hk). apply Hout'. intros C. apply Hk.
    apply (Permutation_in k (Permutation_map gkey (Permutation_sym HP))). exact C.
Qed.

Theorem init_did_perm : forall g g' : did_genesis,
  Permutation g g' -> NoDup (map fst g) -> init_did g' [] = init_did g [].
Proof. intros g g' HP Hnd. apply (init_did_perm_from g g' [] I HP Hnd). Qed.

(** without distinct DIDs the order would matter (the last entry of a DID wins); a Go map cannot hold such a genesis *)
Theorem init_did_order_matters_with_duplicates :
  exists g g' : did_genesis, Permutation g g' /\ init_did g' [] <> init_did g [].
Proof.
  exists [([x61], {| en_doc := None; en_seq := 0 |}); ([x61], {| en_doc := None; en_seq := 1 |})],
         [([x61], {| en_doc := None; en_seq := 1 |}); ([x61], {| en_doc := None; en_seq := 0 |})].
  split; [apply perm_swap | vm_compute; discriminate].
Qed.

(** * the main theorem: export, then import (entries in ANY order) gives back exactly the store *)
Theorem did_export_import_perm : forall st, Inv_did st ->
  forall g, Permutation g (export_did st) -> init_did g [] = st.
Proof.
  intros st HI g HP.
  pose proof (export_did_NoDup st HI) as Hnd.
  rewrite (init_did_perm (export_did st) g (Permutation_sym HP) Hnd).
  destruct (init_did_spec (export_did st) [] Hnd) as (Hs & Hin & Hout).
  apply sorted_ext; [apply Hs; exact I | exact (proj1 HI)|].
  intros k. destruct (get k st) as [e|] eqn:G.
  - destruct (proj2 HI k e G) as [did [-> _]]. apply Hin. apply (export_did_In st HI). exact G.
  - rewrite Hout; [reflexivity|]. rewrite (export_did_keys st HI). intros C.
    apply In_keys_get in C as [v C]. apply (get_None_notin _ _ G v C).
Qed.

Theorem did_export_import_identity : forall st, Inv_did st -> init_did (export_did st) [] = st.
Proof. intros st HI. apply (did_export_import_perm st HI). apply Permutation_refl. Qed.

(** hence export is stable: exporting the re-imported store gives the same genesis *)
Corollary did_reexport_same : forall st, Inv_did st -> export_did (init_did (export_did st) []) = export_did st.
Proof. intros st HI. rewrite (did_export_import_identity st HI). reflexivity. Qed.

Corollary did_reexport_same_perm : forall st g, Inv_did st -> Permutation g (export_did st) ->
  init_did g [] = st /\ export_did (init_did g []) = export_did st.
Proof. intros st g HI HP. rewrite (did_export_import_perm st HI g HP). split; reflexivity. Qed.

(** the imported store satisfies the invariant again *)
Corollary did_import_inv : forall st, Inv_did st -> Inv_did (init_did (export_did st) []).
Proof. intros st HI. rewrite (did_export_import_identity st HI). exact HI. Qed.

(** * the other direction: importing any genesis with distinct DIDs and exporting again gives the same
    entries (as a set: the store is sorted by key, the genesis is a map) *)
Lemma init_did_keyed : forall (g : did_genesis) (s0 : did_state),
  (forall k e, In (k, e) s0 -> exists did, k = did_key did) ->
  forall k e, In (k, e) (init_did g s0) -> exists did, k = did_key did.
Proof.
  induction g as [|[did e] r IH]; intros s0 H0 k e' Hin; [exact (H0 k e' Hin)|].
  cbn [init_did] in Hin. apply (IH (set (did_key did) e s0)) in Hin; [exact Hin|].
  clear Hin. intros k2 e2 Hin2.
  assert (Hall : Forall (fun p : bytes * did_entry => exists did, fst p = did_key did) (set (did_key did) e s0)).
  { clear Hin2. induction s0 as [|[k0 v0] s0 IHs]; cbn [set].
    - constructor; [exists did; reflexivity | constructor].
    - destruct (bytes_eqb (did_key did) k0) eqn:E.
      + constructor; [exists did; reflexivity|].
        apply Forall_forall. intros [k3 e3] H3. apply (H0 k3 e3). right. exact H3.
      + destruct (bytes_ltb (did_key did) k0).
        * constructor; [exists did; reflexivity|].
          apply Forall_forall. intros [k3 e3] H3. apply (H0 k3 e3). exact H3.
        * constructor; [apply (H0 k0 v0); left; reflexivity|].
          apply IHs. intros k3 e3 H3. apply (H0 k3 e3). right. exact H3. }
  rewrite Forall_forall in Hall. exact (Hall (k2, e2) Hin2).
Qed.

Theorem did_import_export_perm : forall g : did_genesis, NoDup (map fst g) ->
  Permutation (export_did (init_did g [])) g.
Proof.
  intros g Hnd. destruct (init_did_spec g [] Hnd) as (Hs & Hin & Hout). specialize (Hs I).
  set (st := init_did g []) in *.
  assert (Hk : forall k e, In (k, e) st -> exists did, k = did_key did).
  { apply init_did_keyed. intros k e []. }
  pose proof (export_did_keyed st Hk) as E.
  assert (HndE : NoDup (export_did st)).
  { apply (NoDup_map_inv (fun p => (gkey p, snd p))). rewrite E.
    apply (NoDup_map_inv fst). apply sorted_NoDup_keys. exact Hs. }
  assert (HndG : NoDup g) by (apply (NoDup_map_inv fst); exact Hnd).
  apply NoDup_Permutation; [exact HndE | exact HndG|].
  intros [did e]. split.
  - intros Hi. assert (G : get (did_key did) st = Some e).
    { apply In_get; [exact Hs|]. rewrite <- E. apply in_map_iff. exists (did, e). split; [reflexivity | exact Hi]. }
    destruct (in_dec bytes_eq_dec (did_key did) (map gkey g)) as [Hin2|Hnin].
    + destruct (In_gkey g _ Hin2) as (did' & e' & Ek & Hi'). apply did_key_inj in Ek. subst did'.
      rewrite (Hin did e' Hi') in G. inversion G; subst e'. exact Hi'.
    + rewrite (Hout _ Hnin) in G. discriminate G.
  - intros Hi. pose proof (Hin did e Hi) as G. apply get_In in G. rewrite <- E in G.
    apply in_map_iff in G as [[did' e'] [Eq Hin2]]. unfold gkey in Eq. cbn [fst snd] in Eq.
    pose proof (f_equal fst Eq) as Ek. pose proof (f_equal snd Eq) as Ee. cbn [fst snd] in Ek, Ee.
    apply did_key_inj in Ek. subst. exact Hin2.
Qed.

Print Assumptions did_export_import_identity.
Print Assumptions did_export_import_perm.
Print Assumptions init_did_perm.
Print Assumptions init_did_order_matters_with_duplicates.
Print Assumptions did_reexport_same.
Print Assumptions did_reexport_same_perm.
Print Assumptions did_import_export_perm.
