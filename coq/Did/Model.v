(** Model of x/did: documents, stateless validity, ownership proofs, the three handlers, the read query.
    Definitions only (extracted and run against the Go code). *)
From Coq Require Import Strings.String Strings.Byte.
From Coq Require Import List Arith NArith ZArith Bool.
From PV Require Import Base.Bytes Base.Base64 Base.Outcome Base.KV Proto.Model.
From PV Require Generated.GenConst.
Import ListNotations.
Local Open Scope N_scope.

Record vmethod := { vm_id : bytes; vm_type : bytes; vm_controller : bytes; vm_pubkey58 : bytes }.
Inductive vrel := VRef (id : bytes) | VDed (vm : vmethod).
Record service := { sv_id : bytes; sv_type : bytes; sv_endpoint : bytes }.

Record did_doc := {
  doc_contexts : option (list bytes);      (* nil pointer vs present (possibly empty) *)
  doc_id : bytes;
  doc_controller : option (list bytes);
  doc_vms : list vmethod;
  doc_auth : list vrel;
  doc_assert : list vrel;
  doc_keyagree : list vrel;
  doc_capinv : list vrel;
  doc_capdel : list vrel;
  doc_services : list service }.

Definition empty_doc : did_doc :=
  {| doc_contexts := None; doc_id := []; doc_controller := None; doc_vms := []; doc_auth := [];
     doc_assert := []; doc_keyagree := []; doc_capinv := []; doc_capdel := []; doc_services := [] |}.

(** protobuf serialisation of a document (field numbers of proto/panacea/did/v2/did.proto) *)
Definition marshal_strings (l : list bytes) : bytes := marshal [PRepeated 1 l].
Definition marshal_vm (vm : vmethod) : bytes :=
  marshal [PBytes 1 (vm_id vm); PBytes 2 (vm_type vm); PBytes 3 (vm_controller vm); PBytes 4 (vm_pubkey58 vm)].
Definition marshal_rel (r : vrel) : bytes :=
  match r with
  | VRef id => marshal [PMsg 1 true id]                 (* a set oneof member is emitted even when empty *)
  | VDed vm => marshal [PMsg 2 true (marshal_vm vm)]
  end.
Definition marshal_service (s : service) : bytes :=
  marshal [PBytes 1 (sv_id s); PBytes 2 (sv_type s); PBytes 3 (sv_endpoint s)].
Definition opt_strings (num : N) (o : option (list bytes)) : pfield :=
  match o with Some l => PMsg num true (marshal_strings l) | None => PMsg num false [] end.
Definition marshal_doc (d : did_doc) : bytes :=
  marshal [opt_strings 1 (doc_contexts d); PBytes 2 (doc_id d); opt_strings 3 (doc_controller d);
           PRepeated 4 (map marshal_vm (doc_vms d));
           PRepeated 5 (map marshal_rel (doc_auth d)); PRepeated 6 (map marshal_rel (doc_assert d));
           PRepeated 7 (map marshal_rel (doc_keyagree d)); PRepeated 8 (map marshal_rel (doc_capinv d));
           PRepeated 9 (map marshal_rel (doc_capdel d));
           PRepeated 10 (map marshal_service (doc_services d))].

(** the stored value: DIDDocumentWithSeq{Document *DIDDocument; Sequence uint64} *)
Record did_entry := { en_doc : option did_doc; en_seq : N }.
Definition did_state := store did_entry.

Definition cs_did : bytes := b "did".

(** ** stateless validity (x/did/types/did.go) *)
Definition base58_char (c : byte) : bool := existsb (byte_eqb c) GenConst.base58_charset.

Definition did_prefix : bytes := b "did:" ++ GenConst.did_method ++ b ":".

(** ValidateDID: ^did:panacea:[base58]{32,44}$ *)
Definition validate_did (d : bytes) : bool :=
  match strip_prefix did_prefix d with
  | Some rest => (32 <=? length rest)%nat && (length rest <=? 44)%nat && forallb base58_char rest
  | None => false
  end.

(** \S of Go's regexp (RE2 Perl class): everything except \t \n \f \r and space *)
Definition non_space (c : byte) : bool :=
  let n := Byte.to_N c in negb ((n =? 9) || (n =? 10) || (n =? 12) || (n =? 13) || (n =? 32)).

(** ValidateVerificationMethodID(id, did): prefix did#, suffix 1..MaxLen bytes without whitespace *)
Definition validate_vm_id (id did : bytes) : bool :=
  match strip_prefix (did ++ b "#") id with
  | Some suffix =>
      (N.of_nat (length suffix) <=? GenConst.max_vm_id_len) && (1 <=? length suffix)%nat && forallb non_space suffix
  | None => false
  end.

Definition validate_key_type (t : bytes) : bool := negb (bytes_eqb t []).

Definition vm_valid (did : bytes) (vm : vmethod) : bool :=
  validate_vm_id (vm_id vm) did && validate_key_type (vm_type vm) &&
  (1 <=? length (vm_pubkey58 vm))%nat && forallb base58_char (vm_pubkey58 vm).

Fixpoint vm_by_id (vms : list vmethod) (id : bytes) : option vmethod :=
  match vms with
  | [] => None
  | vm :: r => if bytes_eqb (vm_id vm) id then Some vm else vm_by_id r id
  end.

Definition rel_valid (doc : did_doc) (r : vrel) : bool :=
  match r with
  | VDed vm => vm_valid (doc_id doc) vm
  | VRef id => validate_vm_id id (doc_id doc) && match vm_by_id (doc_vms doc) id with Some _ => true | None => false end
  end.

Definition empty_dids (l : list bytes) : bool := forallb (fun d => bytes_eqb d []) l.
Definition validate_dids (l : list bytes) : bool := negb (empty_dids l) && forallb validate_did l.

Fixpoint no_dup_bytes (l : list bytes) : bool :=
  match l with
  | [] => true
  | x :: r => negb (existsb (bytes_eqb x) r) && no_dup_bytes r
  end.

(** ValidateContexts: non-empty, first is the W3C context, no duplicates, no empty entry *)
Definition validate_contexts (cs : list bytes) : bool :=
  match cs with
  | [] => false
  | c :: _ => bytes_eqb c GenConst.context_did_v1 && no_dup_bytes cs && forallb (fun x => negb (bytes_eqb x [])) cs
  end.

Definition service_valid (s : service) : bool :=
  negb (bytes_eqb (sv_id s) []) && negb (bytes_eqb (sv_type s) []) && negb (bytes_eqb (sv_endpoint s) []).

Definition doc_empty (d : did_doc) : bool := bytes_eqb (doc_id d) [].

(** DIDDocument.Valid() *)
Definition doc_valid (d : did_doc) : bool :=
  if doc_empty d then true
  else
    validate_did (doc_id d) &&
    negb (match doc_vms d with [] => true | _ => false end) &&
    negb (match doc_auth d with [] => true | _ => false end) &&
    (match doc_controller d with
     | Some c => empty_dids c || validate_dids c
     | None => true end) &&
    (match doc_contexts d with Some cs => validate_contexts cs | None => true end) &&
    forallb (vm_valid (doc_id d)) (doc_vms d) &&
    forallb (rel_valid d) (doc_auth d) && forallb (rel_valid d) (doc_assert d) &&
    forallb (rel_valid d) (doc_keyagree d) && forallb (rel_valid d) (doc_capinv d) &&
    forallb (rel_valid d) (doc_capdel d) &&
    forallb service_valid (doc_services d).

(** DIDDocument.Valid() of a document read from a JSON genesis file: the JSON codec writes an absent repeated field as []
    and reads that back as an empty, non-nil slice, so the two "== nil" tests of Valid() pass for a document without
    verification methods or without authentication entries (observed on the implementation: GD entries of that shape are
    accepted) *)
Definition doc_valid_json (d : did_doc) : bool :=
  if doc_empty d then true
  else
    validate_did (doc_id d) &&
    (match doc_controller d with
     | Some c => empty_dids c || validate_dids c
     | None => true end) &&
    (match doc_contexts d with Some cs => validate_contexts cs | None => true end) &&
    forallb (vm_valid (doc_id d)) (doc_vms d) &&
    forallb (rel_valid d) (doc_auth d) && forallb (rel_valid d) (doc_assert d) &&
    forallb (rel_valid d) (doc_keyagree d) && forallb (rel_valid d) (doc_capinv d) &&
    forallb (rel_valid d) (doc_capdel d) &&
    forallb service_valid (doc_services d).

(** ** entries *)
Definition entry_empty (e : did_entry) : bool :=
  match en_doc e with
  | None => true
  | Some d => doc_empty d && (en_seq e =? 0)
  end.
Definition entry_deactivated (e : did_entry) : bool :=
  match en_doc e with
  | None => false     (* unreachable after [entry_empty]; the Go code would dereference nil *)
  | Some d => doc_empty d && negb (en_seq e =? 0)
  end.

Definition did_key (did : bytes) : bytes := GenConst.did_key_prefix ++ did.

(** GetDIDDocument: a missing key is the zero value *)
Definition get_entry (st : did_state) (did : bytes) : did_entry :=
  match get (did_key did) st with Some e => e | None => {| en_doc := None; en_seq := 0 |} end.

(** VerificationMethodFrom(doc.Authentications, id) *)
Fixpoint vm_from (doc : did_doc) (rels : list vrel) (id : bytes) : option vmethod :=
  match rels with
  | [] => None
  | VDed vm :: r => if bytes_eqb (vm_id vm) id then Some vm else vm_from doc r id
  | VRef rid :: r => if bytes_eqb rid id then vm_by_id (doc_vms doc) rid else vm_from doc r id
  end.

(** math.MaxUint64: the sequence is a uint64 *)
Definition max_seq : N := 18446744073709551615.

Section Crypto.
  (** cryptography and serialisation supplied from outside (see trusted base):
      [b58key s] = the 33-byte secp256k1 key that base58 string [s] denotes, if it does;
      [verify pk m sig] = ECDSA verification; [marshal d] = protobuf bytes of a document *)
  Variable b58key : bytes -> option bytes.
  Variable verify : bytes -> bytes -> bytes -> bool.
  Variable marshal : did_doc -> bytes.

  Definition es256k (t : bytes) : bool :=
    bytes_eqb t GenConst.key_type_es256k_2019 || bytes_eqb t GenConst.key_type_es256k_2018.

  (** keeper.VerifyDIDOwnership: returns the next sequence.  types.Verify refuses a proof over the last uint64
      sequence (finding F15: the increment used to wrap around to the initial sequence) *)
  Definition verify_ownership (sign_data : did_doc) (seq : N) (doc : did_doc) (vmid sig : bytes) : outcome N :=
    match vm_from doc (doc_auth doc) vmid with
    | None => Err cs_did 8
    | Some vm =>
        if negb (es256k (vm_type vm)) then Err cs_did 15
        else match b58key (vm_pubkey58 vm) with
             | None => Err cs_did 10
             | Some pk =>
                 if verify pk (signbytes (marshal sign_data) seq) sig && negb (seq =? max_seq) then Ok (seq + 1) else Err cs_did 9
             end
    end.

  (** msgServer.CreateDID *)
  Definition create_did (st : did_state) (did : bytes) (doc : did_doc) (vmid sig : bytes) : outcome did_state :=
    let cur := get_entry st did in
    if negb (entry_empty cur) then
      if entry_deactivated cur then Err cs_did 13 else Err cs_did 2
    else
      do _ <- verify_ownership doc 0 doc vmid sig;
      Ok (set (did_key did) {| en_doc := Some doc; en_seq := 0 |} st).

  (** msgServer.UpdateDID *)
  Definition update_did (st : did_state) (did : bytes) (doc : did_doc) (vmid sig : bytes) : outcome did_state :=
    let cur := get_entry st did in
    if entry_empty cur then Err cs_did 5
    else if entry_deactivated cur then Err cs_did 13
    else
      match en_doc cur with
      | None => Panic
      | Some stored =>
          do nseq <- verify_ownership doc (en_seq cur) stored vmid sig;
          Ok (set (did_key did) {| en_doc := Some doc; en_seq := nseq |} st)
      end.

  (** msgServer.DeactivateDID: the signed data is a document carrying only the id *)
  Definition id_only (did : bytes) : did_doc :=
    {| doc_contexts := None; doc_id := did; doc_controller := None; doc_vms := []; doc_auth := [];
       doc_assert := []; doc_keyagree := []; doc_capinv := []; doc_capdel := []; doc_services := [] |}.

  Definition deactivate_did (st : did_state) (did vmid sig : bytes) : outcome did_state :=
    let cur := get_entry st did in
    if entry_empty cur then Err cs_did 5
    else if entry_deactivated cur then Err cs_did 13
    else
      match en_doc cur with
      | None => Panic
      | Some stored =>
          do nseq <- verify_ownership (id_only did) (en_seq cur) stored vmid sig;
          Ok (set (did_key did) {| en_doc := Some empty_doc; en_seq := nseq |} st)
      end.
End Crypto.

(** Query/DID: NotFound "DID not found" (5/0) or "DID deactivated" (5/1), else the entry *)
Inductive did_answer := DFound (doc : did_doc) (seq : N) | DNotFound | DDeactivated.
Definition q_did (st : did_state) (did : bytes) : did_answer :=
  let e := get_entry st did in
  if entry_empty e then DNotFound
  else if entry_deactivated e then DDeactivated
  else match en_doc e with Some d => DFound d (en_seq e) | None => DNotFound end.

(** Query/DID as the gRPC handler receives it: the did_base64 field is decoded with base64.StdEncoding.DecodeString;
    [None] = InvalidArgument "invalid did_base64" *)
Definition q_did64 (st : did_state) (raw : bytes) : option did_answer := option_map (q_did st) (b64_decode raw).

(** ** genesis: ExportGenesis lists every stored entry under its DID; InitGenesis stores each entry.
    GenesisState.Validate: every key is a valid DID and every document is Valid() *)
Definition did_genesis := list (bytes * did_entry).     (* (DID, entry) pairs; a Go map: order irrelevant *)

Fixpoint export_did (items : list (bytes * did_entry)) : did_genesis :=
  match items with
  | [] => []
  | (k, e) :: r =>
      match strip_prefix GenConst.did_key_prefix k with
      | Some did => (did, e) :: export_did r
      | None => export_did r
      end
  end.

Fixpoint init_did (g : did_genesis) (st : did_state) : did_state :=
  match g with
  | [] => st
  | (did, e) :: r => init_did r (set (did_key did) e st)
  end.

(** GenesisState.Validate, entry by entry.  [strict] = as repaired (finding F14): an entry is a tombstone or a
    document about the DID it is filed under; with [false] it is the original code, which checked the key and the
    document separately. *)
Definition validate_did_entry (strict : bool) (p : bytes * did_entry) : bool :=
  validate_did (fst p) &&
  match en_doc (snd p) with
  | Some d => doc_valid_json d && (negb strict || entry_deactivated (snd p) || bytes_eqb (doc_id d) (fst p))
  | None => false
  end.
Definition validate_did_genesis_gen (strict : bool) (g : did_genesis) : bool := forallb (validate_did_entry strict) g.
Definition validate_did_genesis : did_genesis -> bool := validate_did_genesis_gen true.

(** ** stateless validation of the three messages.
    [strict] = the repaired validators: create/update need a present, non-empty document whose id is
    the DID of the message (findings F2, F3).  With [false] it is the original code: a missing
    document panics, an empty-id document is accepted, the id need not equal the DID. *)
Section Vb.
  Variable unbech : bytes -> option bytes.
  Definition vb_from (from : bytes) : outcome unit :=
    match unbech from with
    | None => Err (b "undefined") 1      (* the bech32 error is returned unwrapped *)
    | Some a => match a with [] => Err (b "sdk") 7 | _ => Ok tt end
    end.

  Definition vb_doc (strict : bool) (did : bytes) (doc : option did_doc) : outcome unit :=
    match doc with
    | None => if strict then Err cs_did 4 else Panic
    | Some d =>
        if strict && (doc_empty d || negb (bytes_eqb (doc_id d) did)) then Err cs_did 4
        else if doc_valid d then Ok tt else Err cs_did 4
    end.

  Definition vb_create_update (strict : bool) (did : bytes) (doc : option did_doc) (sig from : bytes) : outcome unit :=
    if negb (validate_did did) then Err cs_did 3
    else
      do _ <- vb_doc strict did doc;
      match sig with
      | [] => Err cs_did 6
      | _ => vb_from from
      end.

  Definition vb_deactivate (did sig from : bytes) : outcome unit :=
    if negb (validate_did did) then Err cs_did 3
    else match sig with
         | [] => Err cs_did 6
         | _ => vb_from from
         end.
End Vb.
