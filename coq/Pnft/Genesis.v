(** C08 for x/pnft: genesis export followed by the (repaired) import.

    - [validate_pnft_genesis (export_pnft bech st) = true] for every store that satisfies [Inv_pnft] and
      [Pnft_stored_ok] (the non-empty fields GenesisState.ValidateBasic asks for; preserved by the seven
      handlers under their ValidateBasic premises);
    - the import succeeds and yields the store with the ZERO SUPPLY COUNTERS REMOVED
      ([strip_zero_supply]): x/nft's Burn leaves the entry [0x05 class -> 0] behind (and DeleteDenom never
      removes it), while InitGenesis only writes a counter when it mints a token.  Hence
      [init (export st) = Ok st] is FALSE in general ([pnft_export_import_exact_refuted]) and TRUE exactly
      for stores without a zero counter ([pnft_export_import_identity]);
    - nothing observable is lost: the stripped store has the same classes, tokens, owners, index entries and
      the same [get_supply]; its export is the same genesis, so a second export/import is the identity;
    - the original import (re-mint to the creator) does not restore a transferred token
      ([pnft_import_to_creator_refuted]). *)
From Coq Require Import Strings.String Strings.Byte.
From Coq Require Import List Arith NArith ZArith Bool Lia Permutation.
From Coq Require Import ZifyN ZifyNat.
From PV Require Import Base.Bytes Base.Outcome Base.KV.
From PV Require Import Compkey.Model Aol.Spec.
From PV Require Aol.Inv.
From PV Require Import Pnft.Model Pnft.Spec Pnft.Inv Pnft.Listing.
From PV Require Generated.GenNft.
Import ListNotations.

(** * generic list / store facts *)
Lemma flat_map_filter_nil {A B} (F : A -> list B) (g : A -> bool) (l : list A) :
  (forall a, g a = false -> F a = []) -> flat_map F (filter g l) = flat_map F l.
Proof.
  intros H. induction l as [|a l IH]; [reflexivity|]. cbn [filter flat_map].
  destruct (g a) eqn:E; cbn [flat_map]; rewrite IH; [reflexivity|]. rewrite (H a E). reflexivity.
Qed.

Lemma filter_comm {A} (f g : A -> bool) (l : list A) : filter f (filter g l) = filter g (filter f l).
Proof.
  induction l as [|a l IH]; [reflexivity|]. cbn [filter].
  destruct (g a) eqn:Eg, (f a) eqn:Ef; cbn [filter]; rewrite ?Eg, ?Ef, IH; reflexivity.
Qed.

Lemma flat_map_ext_in {A B} (F G : A -> list B) (l : list A) :
  (forall a, In a l -> F a = G a) -> flat_map F l = flat_map G l.
Proof.
  induction l as [|a l IH]; intros H; [reflexivity|]. cbn [flat_map].
  rewrite (H a (or_introl eq_refl)), IH; [reflexivity|]. intros a' Ha'. apply H. right. exact Ha'.
Qed.

Lemma map_flat_map' {A B C} (g : B -> C) (F : A -> list B) (l : list A) :
  map g (flat_map F l) = flat_map (fun a => map g (F a)) l.
Proof. induction l as [|a l IH]; [reflexivity|]. cbn [flat_map]. rewrite map_app, IH. reflexivity. Qed.

Lemma NoDup_flat_map {A B} (F : A -> list B) (l : list A) :
  NoDup l -> (forall a, In a l -> NoDup (F a)) ->
  (forall a a' x, In a l -> In a' l -> In x (F a) -> In x (F a') -> a = a') ->
  NoDup (flat_map F l).
Proof.
  induction l as [|a l IH]; intros Hnd Hin Hdis; cbn [flat_map]; [constructor|].
  inversion Hnd as [|? ? Hnotin Hnd']; subst.
  assert (IHl : NoDup (flat_map F l)).
  { apply IH; [exact Hnd'| |].
    - intros a' Ha'. apply Hin. right. exact Ha'.
    - intros a1 a2 x H1 H2. apply Hdis; right; assumption. }
  assert (Ha : NoDup (F a)) by (apply Hin; left; reflexivity).
  assert (Hsep : forall x, In x (F a) -> ~ In x (flat_map F l)).
  { intros x Hx C. apply in_flat_map in C as [a' [Ha' Hx']].
    assert (E : a = a') by (apply (Hdis a a' x); [left; reflexivity | right; exact Ha' | exact Hx | exact Hx']).
    subst a'. exact (Hnotin Ha'). }
  clear Hdis Hin. revert Ha Hsep. generalize (F a) as fa.
  induction fa as [|x r IHr]; intros Hr Hsep; cbn [app]; [exact IHl|].
  inversion Hr as [|? ? Hxr Hr']; subst. constructor.
  - intros C. apply in_app_or in C as [C|C]; [exact (Hxr C)|]. apply (Hsep x); [left; reflexivity | exact C].
  - apply IHr; [exact Hr'|]. intros y Hy. apply Hsep. right. exact Hy.
Qed.

Lemma get_filter {V} (f : bytes * V -> bool) k (s : store V) :
  sorted s -> get k (filter f s) = match get k s with Some v => if f (k, v) then Some v else None | None => None end.
Proof.
  induction s as [|[k' v'] r IH]; intros Hs; [reflexivity|].
  pose proof (sorted_tail _ _ Hs) as Hr. cbn [filter get].
  destruct (bytes_eqb k k') eqn:E.
  - apply bytes_eqb_eq in E. subst k'. destruct (f (k, v')) eqn:F.
    + cbn [get]. rewrite bytes_eqb_refl. reflexivity.
    + rewrite (IH Hr). rewrite lb_get_None; [reflexivity| |exact Hr]. exact (proj1 Hs).
  - destruct (f (k', v')); [cbn [get]; rewrite E|]; exact (IH Hr).
Qed.

(** * zero supply counters *)
Definition keep_entry (e : bytes * nft_val) : bool :=
  match snd e with VSupply n => negb (n =? 0)%N | _ => true end.

(** the store without the entries [0x05 class -> 0] *)
Definition strip_zero_supply (st : pnft_state) : pnft_state := filter keep_entry st.

Definition no_zero_supply (st : pnft_state) : Prop := forall k, get k st <> Some (VSupply 0).

Lemma get_strip k (st : pnft_state) : sorted st ->
  get k (strip_zero_supply st) = match get k st with Some (VSupply 0) => None | x => x end.
Proof.
  intros Hs. unfold strip_zero_supply. rewrite (get_filter keep_entry k st Hs).
  destruct (get k st) as [v|]; [|reflexivity]. unfold keep_entry. cbn [snd].
  destruct v as [d|t|o| |n]; try reflexivity. destruct n; reflexivity.
Qed.

Lemma strip_no_zero st : sorted st -> no_zero_supply (strip_zero_supply st).
Proof.
  intros Hs k. rewrite (get_strip k st Hs). destruct (get k st) as [[d|t|o| |[|p]]|]; discriminate.
Qed.

Lemma strip_id st : sorted st -> no_zero_supply st -> strip_zero_supply st = st.
Proof.
  intros Hs Hz. apply sorted_ext; [apply sorted_filter; exact Hs | exact Hs|].
  intros k. rewrite (get_strip k st Hs). specialize (Hz k).
  destruct (get k st) as [[d|t|o| |[|p]]|]; try reflexivity. contradiction Hz. reflexivity.
Qed.

Lemma strip_idem st : strip_zero_supply (strip_zero_supply st) = strip_zero_supply st.
Proof.
  unfold strip_zero_supply. induction st as [|e st IH]; [reflexivity|]. cbn [filter].
  destruct (keep_entry e) eqn:E; [cbn [filter]; rewrite E, IH; reflexivity | exact IH].
Qed.

Lemma strip_In e st : In e (strip_zero_supply st) -> In e st.
Proof. unfold strip_zero_supply. intros H. apply filter_In in H. exact (proj1 H). Qed.

(** nothing that the keeper reads distinguishes a store from its stripped version *)
Lemma strip_prefix_items p (st : pnft_state) :
  prefix_items p (strip_zero_supply st) = filter keep_entry (prefix_items p st).
Proof. unfold prefix_items, strip_zero_supply. apply filter_comm. Qed.

Lemma strip_all_denoms st : all_denoms (strip_zero_supply st) = all_denoms st.
Proof.
  rewrite !all_denoms_eq, strip_prefix_items. apply flat_map_filter_nil.
  intros [k v] H. unfold keep_entry in H. cbn [snd] in H. destruct v; try discriminate H. reflexivity.
Qed.

Lemma strip_tokens_of_class st c : tokens_of_class (strip_zero_supply st) c = tokens_of_class st c.
Proof.
  rewrite !toc_eq, strip_prefix_items. apply flat_map_filter_nil.
  intros [k v] H. unfold keep_entry in H. cbn [snd] in H. destruct v; try discriminate H. reflexivity.
Qed.

Lemma strip_get_owner st c i : sorted st -> get_owner (strip_zero_supply st) c i = get_owner st c i.
Proof.
  intros Hs. unfold get_owner. rewrite (get_strip _ st Hs).
  destruct (get (owner_key c i) st) as [[d|t|o| |[|p]]|]; reflexivity.
Qed.

Lemma strip_get_supply st c : sorted st -> get_supply (strip_zero_supply st) c = get_supply st c.
Proof.
  intros Hs. unfold get_supply. rewrite (get_strip _ st Hs).
  destruct (get (supply_key c) st) as [[d|t|o| |[|p]]|]; reflexivity.
Qed.

Lemma strip_get_class st c : sorted st -> get_class (strip_zero_supply st) c = get_class st c.
Proof.
  intros Hs. unfold get_class. rewrite (get_strip _ st Hs).
  destruct (get (class_key c) st) as [[d|t|o| |[|p]]|]; reflexivity.
Qed.

Lemma strip_get_nft st c i : sorted st -> get_nft (strip_zero_supply st) c i = get_nft st c i.
Proof.
  intros Hs. unfold get_nft. rewrite (get_strip _ st Hs).
  destruct (get (nft_key c i) st) as [[d|t|o| |[|p]]|]; reflexivity.
Qed.

Lemma strip_pnfts_of_class bech st c : sorted st ->
  pnfts_of_class bech (strip_zero_supply st) c = pnfts_of_class bech st c.
Proof.
  intros Hs. unfold pnfts_of_class. rewrite strip_tokens_of_class. apply map_ext.
  intros t. rewrite (strip_get_owner st c (tk_id t) Hs). reflexivity.
Qed.

(** the stripped store exports the same genesis *)
Theorem strip_export bech st : sorted st -> export_pnft bech (strip_zero_supply st) = export_pnft bech st.
Proof.
  intros Hs. unfold export_pnft. rewrite strip_all_denoms. f_equal.
  apply flat_map_ext_in. intros d _. apply strip_pnfts_of_class. exact Hs.
Qed.

(** * the stored data that GenesisState.ValidateBasic asks for *)
Definition val_stored_ok (v : nft_val) : Prop :=
  match v with
  | VClass d => dn_name d <> [] /\ dn_symbol d <> [] /\ dn_owner d <> []
  | VToken t => tk_name t <> [] /\ tk_creator t <> []
  | _ => True
  end.

Definition Pnft_stored_ok (st : pnft_state) : Prop := Forall (fun e : bytes * nft_val => val_stored_ok (snd e)) st.

Lemma Pnft_stored_ok_empty : Pnft_stored_ok [].
Proof. constructor. Qed.

Lemma stored_ok_get st k v : Pnft_stored_ok st -> get k st = Some v -> val_stored_ok v.
Proof.
  intros H G. apply get_In in G. unfold Pnft_stored_ok in H. rewrite Forall_forall in H. exact (H _ G).
Qed.

Lemma stored_ok_set st k v : Pnft_stored_ok st -> val_stored_ok v -> Pnft_stored_ok (set k v st).
Proof. intros H Hv. apply Aol.Inv.Forall_set; [exact H | exact Hv]. Qed.

Lemma stored_ok_del st k : Pnft_stored_ok st -> Pnft_stored_ok (del k st).
Proof. intros H. apply Aol.Inv.Forall_del. exact H. Qed.

Lemma stored_ok_strip st : Pnft_stored_ok st -> Pnft_stored_ok (strip_zero_supply st).
Proof.
  intros H. unfold Pnft_stored_ok in *. rewrite Forall_forall in *. intros e He. apply H. apply strip_In. exact He.
Qed.

Lemma need_ok c : need c = Ok tt -> c = true.
Proof. unfold need, vb_err. destruct c; [reflexivity | discriminate]. Qed.

Lemma need_addr_nonempty unbech s : need_addr unbech s = Ok tt -> s <> [].
Proof.
  unfold need_addr, vb_err. destruct (nonempty s) eqn:N; [|discriminate]. intros _. apply nonempty_neq. exact N.
Qed.

Lemma bind_need c (k : outcome unit) : (do _ <- need c; k) = Ok tt -> c = true /\ k = Ok tt.
Proof. unfold need, vb_err. destruct c; cbn [bind]; [auto | discriminate]. Qed.

Lemma bind_need_addr unbech s (k : outcome unit) : (do _ <- need_addr unbech s; k) = Ok tt -> s <> [] /\ k = Ok tt.
Proof.
  intros H. destruct (need_addr unbech s) as [[]| |] eqn:E; cbn [bind] in H; try discriminate H.
  split; [exact (need_addr_nonempty unbech s E) | exact H].
Qed.

Lemma pick_nonempty_ne new old : old <> [] -> pick_nonempty new old <> [].
Proof. intros H. destruct new; cbn [pick_nonempty]; [exact H | discriminate]. Qed.

(** ** each of the seven handlers preserves [Pnft_stored_ok] (under its ValidateBasic premise where the
    message introduces new data) *)
Section Stored.
  Variable unbech : bytes -> option bytes.
  Variable bech : bytes -> bytes.

  Lemma create_denom_stored : forall st d st',
    Pnft_stored_ok st -> vb_create_denom unbech true (dn_id d) (dn_name d) (dn_symbol d) (dn_owner d) = Ok tt ->
    create_denom st d = Ok st' -> Pnft_stored_ok st'.
  Proof.
    intros st d st' HS Hvb H. apply create_denom_ok in H as [_ ->]. apply stored_ok_set; [exact HS|].
    unfold vb_create_denom in Hvb.
    apply bind_need in Hvb as [_ Hvb]. apply bind_need in Hvb as [_ Hvb].
    apply bind_need in Hvb as [Hn Hvb]. apply bind_need in Hvb as [Hsy Hvb].
    apply need_addr_nonempty in Hvb. cbn [val_stored_ok]. auto using nonempty_neq.
  Qed.

  Lemma update_denom_stored : forall st id name symbol description uri uri_hash updater data st',
    Pnft_stored_ok st -> update_denom st id name symbol description uri uri_hash updater data = Ok st' ->
    Pnft_stored_ok st'.
  Proof.
    intros st id name symbol description uri uri_hash updater data st' HS H.
    unfold update_denom in H. destruct (get_class st id) as [d|] eqn:Hg; [|discriminate H].
    destruct (bytes_eqb updater (dn_owner d)); cbn [negb] in H; [|discriminate H].
    cbn [dn_id] in H. destruct (has_class st (dn_id d)); [|discriminate H]. injection H as <-.
    unfold get_class in Hg. destruct (get (class_key id) st) as [[d0|t|o| |n]|] eqn:G; try discriminate Hg.
    injection Hg as ->. pose proof (stored_ok_get st _ _ HS G) as [H1 [H2 H3]].
    apply stored_ok_set; [exact HS|]. cbn [val_stored_ok dn_name dn_symbol dn_owner].
    auto using pick_nonempty_ne.
  Qed.

  Lemma delete_denom_stored : forall st id remover st',
    Pnft_stored_ok st -> delete_denom true st id remover = Ok st' -> Pnft_stored_ok st'.
  Proof.
    intros st id remover st' HS H. apply delete_denom_ok in H as [d [_ [_ [_ ->]]]]. apply stored_ok_del. exact HS.
  Qed.

  Lemma transfer_denom_stored : forall st id sender receiver st',
    Pnft_stored_ok st -> vb_transfer_denom unbech id sender receiver = Ok tt ->
    transfer_denom st id sender receiver = Ok st' -> Pnft_stored_ok st'.
  Proof.
    intros st id sender receiver st' HS Hvb H.
    unfold vb_transfer_denom in Hvb. apply bind_need in Hvb as [_ Hvb].
    apply bind_need_addr in Hvb as [_ Hvb]. apply need_addr_nonempty in Hvb.
    unfold transfer_denom in H. destruct (get_class st id) as [d|] eqn:Hg; [|discriminate H].
    destruct (bytes_eqb sender (dn_owner d)); cbn [negb] in H; [|discriminate H].
    cbn [dn_id] in H. destruct (has_class st (dn_id d)); [|discriminate H]. injection H as <-.
    unfold get_class in Hg. destruct (get (class_key id) st) as [[d0|t|o| |n]|] eqn:G; try discriminate Hg.
    injection Hg as ->. pose proof (stored_ok_get st _ _ HS G) as [H1 [H2 H3]].
    apply stored_ok_set; [exact HS|]. cbn [val_stored_ok dn_name dn_symbol dn_owner]. auto.
  Qed.

  Lemma mint_pnft_stored : forall st now denom_id id name description uri uri_hash data creator st',
    Pnft_stored_ok st -> vb_mint_pnft unbech true denom_id id name creator = Ok tt ->
    mint_pnft unbech st now denom_id id name description uri uri_hash data creator = Ok st' -> Pnft_stored_ok st'.
  Proof.
    intros st now denom_id id name description uri uri_hash data creator st' HS Hvb H.
    unfold vb_mint_pnft in Hvb. apply bind_need in Hvb as [_ Hvb]. apply bind_need in Hvb as [_ Hvb].
    apply bind_need in Hvb as [_ Hvb]. apply bind_need in Hvb as [Hn Hvb]. apply need_addr_nonempty in Hvb.
    apply mint_pnft_ok in H as [d [r [_ [_ [_ H]]]]]. cbv zeta in H. destruct H as [_ [_ ->]].
    repeat apply stored_ok_set; try exact HS; try exact I.
    cbn [val_stored_ok tk_name tk_creator]. auto using nonempty_neq.
  Qed.

  Lemma transfer_pnft_stored : forall st denom_id id sender receiver st',
    Pnft_stored_ok st -> transfer_pnft unbech bech st denom_id id sender receiver = Ok st' -> Pnft_stored_ok st'.
  Proof.
    intros st c i sender receiver st' HS H. apply transfer_pnft_ok in H as [p [r [_ [_ [_ [_ [_ ->]]]]]]].
    repeat apply stored_ok_set; try exact I. repeat apply stored_ok_del. exact HS.
  Qed.

  Lemma burn_pnft_stored : forall st denom_id id burner st',
    Pnft_stored_ok st -> burn_pnft bech st denom_id id burner = Ok st' -> Pnft_stored_ok st'.
  Proof.
    intros st c i burner st' HS H. apply burn_pnft_ok in H as [p [_ [_ [_ [_ ->]]]]].
    apply stored_ok_set; [|exact I]. repeat apply stored_ok_del. exact HS.
  Qed.
End Stored.

(** * a store that satisfies the invariant is determined, up to zero counters, by its class, token and
    owner entries (the by-owner index and the supply counters are derived data) *)
Definition same_base (a b : pnft_state) : Prop :=
  (forall c, get (class_key c) a = get (class_key c) b) /\
  (forall c i, get (nft_key c i) a = get (nft_key c i) b) /\
  (forall c i, get (owner_key c i) a = get (owner_key c i) b).

Lemma same_base_sym a b : same_base a b -> same_base b a.
Proof. intros [H1 [H2 H3]]. repeat split; intros; symmetry; auto. Qed.

Lemma toc_NoDup st c : Inv_pnft st -> NoDup (tokens_of_class st c).
Proof. intros HI. apply (NoDup_map_inv tk_id). apply tokens_of_class_NoDup. exact HI. Qed.

Lemma same_base_toc_len a b c :
  Inv_pnft a -> Inv_pnft b -> same_base a b -> length (tokens_of_class a c) = length (tokens_of_class b c).
Proof.
  intros Ha Hb [_ [Ht _]]. apply Permutation_length. apply NoDup_Permutation; try (apply toc_NoDup; assumption).
  intros t. rewrite (tokens_of_class_spec a Ha), (tokens_of_class_spec b Hb). unfold get_nft. rewrite Ht. reflexivity.
Qed.

Lemma transfer_entry a b k v :
  Inv_pnft a -> Inv_pnft b -> same_base a b -> get k a = Some v -> v <> VSupply 0 -> get k b = Some v.
Proof.
  intros Ha Hb Hsb G Hz. pose proof Hsb as [Sc [St So]].
  pose proof (get_In _ _ _ G) as Hin. pose proof (ip_entries a Ha) as He. rewrite Forall_forall in He.
  specialize (He _ Hin). unfold entry_ok in He. cbn [fst snd] in He.
  destruct v as [d|t|o| |n].
  - destruct He as [-> _]. rewrite <- Sc. exact G.
  - destruct He as [-> _]. rewrite <- St. exact G.
  - destruct He as [c [i [-> _]]]. rewrite <- So. exact G.
  - destruct He as [o [c [i [-> [Ho _]]]]].
    apply get_has_true in G. apply (ip_by_owner a Ha o c i Ho) in G. rewrite So in G.
    apply (ip_by_owner b Hb o c i Ho) in G. apply has_true_get in G as [v G].
    pose proof (look_kind b (NByOwner o c i) v (ip_entries b Hb) G) as K.
    destruct v; try contradiction K. exact G.
  - destruct He as [c [-> _]].
    assert (Hn : get_supply a c = n) by (unfold get_supply; rewrite G; reflexivity).
    rewrite (ip_supply a Ha c), (same_base_toc_len a b c Ha Hb Hsb), <- (ip_supply b Hb c) in Hn.
    unfold get_supply in Hn. destruct (get (supply_key c) b) as [[d|t|o| |m]|]; subst; try reflexivity;
      contradiction Hz; reflexivity.
Qed.

Theorem determined a b :
  Inv_pnft a -> no_zero_supply a -> Inv_pnft b -> same_base a b -> a = strip_zero_supply b.
Proof.
  intros Ha Hz Hb Hsb. pose proof (ip_sorted b Hb) as Sb.
  apply sorted_ext; [exact (ip_sorted a Ha) | apply sorted_filter; exact Sb|].
  intros k. rewrite (get_strip k b Sb). destruct (get k a) as [v|] eqn:Ga.
  - assert (Hv : v <> VSupply 0) by (intros ->; exact (Hz k Ga)).
    rewrite (transfer_entry a b k v Ha Hb Hsb Ga Hv).
    destruct v as [d|t|o| |[|p]]; try reflexivity. contradiction Hv. reflexivity.
  - destruct (get k b) as [v|] eqn:Gb; [|reflexivity].
    assert (T : v <> VSupply 0 -> False).
    { intros Hv. pose proof (transfer_entry b a k v Hb Ha (same_base_sym a b Hsb) Gb Hv) as C.
      rewrite Ga in C. discriminate C. }
    destruct v as [d|t|o| |[|p]]; try reflexivity; exfalso; apply T; discriminate.
Qed.

Lemma no_zero_supply_empty : no_zero_supply [].
Proof. intros k. discriminate. Qed.

Lemma neq_nonempty x : x <> [] -> nonempty x = true.
Proof. destruct x; [intros H; contradiction H; reflexivity | reflexivity]. Qed.

Lemma class_key_inj c c' : class_key c = class_key c' -> c = c'.
Proof. rewrite !class_key_eq. intros E. injection E as E. exact E. Qed.

(** * the import *)
(** InitGenesis, phase 1: SaveDenom for every exported denom *)
Lemma init_denoms_spec : forall ds s0,
  Inv_pnft s0 -> no_zero_supply s0 ->
  (forall d, In d ds -> id_ok (dn_id d) /\ has (class_key (dn_id d)) s0 = false) ->
  NoDup (map dn_id ds) ->
  exists s1, init_denoms ds s0 = Ok s1 /\ Inv_pnft s1 /\ no_zero_supply s1 /\
    (forall d, In d ds -> get (class_key (dn_id d)) s1 = Some (VClass d)) /\
    (forall c, ~ In c (map dn_id ds) -> get (class_key c) s1 = get (class_key c) s0) /\
    (forall c i, get (nft_key c i) s1 = get (nft_key c i) s0) /\
    (forall c i, get (owner_key c i) s1 = get (owner_key c i) s0).
Proof.
  induction ds as [|d r IH]; intros s0 HI Hz Hpre Hnd.
  - exists s0. split; [reflexivity|]. split; [exact HI|]. split; [exact Hz|].
    split; [intros d []|]. repeat split; reflexivity.
  - cbn [map] in Hnd. inversion Hnd as [|? ? Hnin Hnd']; subst.
    destruct (Hpre d (or_introl eq_refl)) as [Hid Hno].
    assert (E : create_denom s0 d = Ok (set (class_key (dn_id d)) (VClass d) s0)).
    { unfold create_denom, has_class. rewrite Hno. reflexivity. }
    set (s0' := set (class_key (dn_id d)) (VClass d) s0) in *.
    assert (HI' : Inv_pnft s0') by (apply set_class_inv; assumption).
    assert (Hz' : no_zero_supply s0').
    { intros k G. unfold s0' in G. rewrite get_set in G. destruct (bytes_eqb k (class_key (dn_id d))); [discriminate G|].
      exact (Hz k G). }
    assert (Hpre' : forall d', In d' r -> id_ok (dn_id d') /\ has (class_key (dn_id d')) s0' = false).
    { intros d' Hd'. destruct (Hpre d' (or_intror Hd')) as [Hid' Hno']. split; [exact Hid'|].
      unfold s0'. rewrite has_set, Hno', orb_false_r. apply bytes_eqb_neq. intros C. apply class_key_inj in C.
      apply Hnin. rewrite <- C. apply in_map. exact Hd'. }
    destruct (IH s0' HI' Hz' Hpre' Hnd') as (s1 & E1 & I1 & Z1 & C1 & C1' & T1 & O1).
    exists s1. split; [cbn [init_denoms]; rewrite E; exact E1|]. split; [exact I1|]. split; [exact Z1|].
    split; [|split; [|split]].
    + intros d' [<-|Hd']; [|exact (C1 d' Hd')]. rewrite (C1' _ Hnin). unfold s0'. apply get_set_eq.
    + intros c Hc. cbn [map] in Hc. rewrite C1' by (intros C; apply Hc; right; exact C).
      unfold s0'. apply get_set_neq. intros C. apply class_key_inj in C. apply Hc. left. symmetry. exact C.
    + intros c i. rewrite T1. unfold s0'. fold_enc. kv. reflexivity.
    + intros c i. rewrite O1. unfold s0'. fold_enc. kv. reflexivity.
Qed.

(** nftKeeper.Mint of a token with accepted ids to a well-formed owner *)
Lemma nft_mint_step st t r st' :
  Inv_pnft st -> no_zero_supply st -> id_ok (tk_class t) -> id_ok (tk_id t) -> verify_address_format r = true ->
  nft_mint st t r = Ok st' ->
  Inv_pnft st' /\ no_zero_supply st' /\
  (forall c, get (class_key c) st' = get (class_key c) st) /\
  (forall c i, get (nft_key c i) st' =
               if bytes_eqb c (tk_class t) && bytes_eqb i (tk_id t) then Some (VToken t) else get (nft_key c i) st) /\
  (forall c i, get (owner_key c i) st' =
               if bytes_eqb c (tk_class t) && bytes_eqb i (tk_id t) then Some (VOwnerOf r) else get (owner_key c i) st).
Proof.
  intros HI Hz Hok Hvb Hvr H. apply nft_mint_ok in H as [Hc [Hn ->]].
  remember (tk_class t) as c eqn:Ec. remember (tk_id t) as id eqn:Eid.
  pose proof (id_ok_nn _ Hok) as Hnc. pose proof (id_ok_nn _ Hvb) as Hni.
  split; [|split; [|split; [|split]]].
  - destruct HI as [Hs He R1 R2 R3 R4]. inv_enc st R1 R2 R3.
    split.
    + repeat apply sorted_set. exact Hs.
    + apply Aol.Inv.Forall_set; [apply Aol.Inv.Forall_set; [apply Aol.Inv.Forall_set; [apply Aol.Inv.Forall_set; [exact He|]|]|]|].
      * unfold entry_ok. cbn [fst snd]. rewrite <- Ec, <- Eid. auto.
      * exists c, id. auto.
      * exists r, c, id. auto.
      * exists c. auto.
    + intros c' i'. fold_enc. kv. intros H.
      destruct (bytes_eqb c' c) eqn:E.
      * apply bytes_eqb_eq in E. subst c'. exact Hc.
      * cbn [andb orb] in H. apply R1 in H. exact H.
    + intros c' i'. fold_enc. kv. rewrite R2. reflexivity.
    + intros o' c' i' Ho'. fold_enc. kv.
      destruct (bytes_eqb c' c) eqn:Ecc; [destruct (bytes_eqb i' id) eqn:Ei|]; cbn [andb];
        try (rewrite andb_false_r; cbn [orb]; apply R3; exact Ho').
      apply bytes_eqb_eq in Ecc. apply bytes_eqb_eq in Ei. subst c' i'.
      assert (Hb : has (enc (NByOwner o' c id)) st = false).
      { destruct (has (enc (NByOwner o' c id)) st) eqn:B; [|reflexivity].
        apply R3 in B; [|exact Ho']. apply get_has_true in B. rewrite R2 in B. fold_enc. congruence. }
      rewrite Hb, orb_false_r, andb_true_r. split; intros H.
      * apply bytes_eqb_eq in H. subst. reflexivity.
      * injection H as ->. apply bytes_eqb_refl.
    + intros c'. rewrite !toc_set_other by reflexivity.
      rewrite toc_set_token by (auto using has_false_get).
      rewrite get_supply_set_supply. rewrite !get_supply_set_other by nsup.
      rewrite !R4. destruct (bytes_eqb c' c) eqn:E; [apply bytes_eqb_eq in E; subst c'|]; lia.
  - intros k G. rewrite get_set in G. destruct (bytes_eqb k (supply_key c)).
    + injection G as G. lia.
    + rewrite get_set in G. destruct (bytes_eqb k (by_owner_key r c id)); [discriminate G|].
      rewrite get_set in G. destruct (bytes_eqb k (owner_key c id)); [discriminate G|].
      rewrite get_set in G. destruct (bytes_eqb k (nft_key c id)); [discriminate G|]. exact (Hz k G).
  - intros c'. fold_enc. kv. reflexivity.
  - intros c' i'. fold_enc. kv. reflexivity.
  - intros c' i'. fold_enc. kv. reflexivity.
Qed.

Definition pkey (p : pnft) : bytes * bytes := (tk_class (p_token p), tk_id (p_token p)).

Section G.
  Variable bech : bytes -> bytes.
  Variable unbech : bytes -> option bytes.
  (** bech32 decoding inverts encoding on well-formed addresses; the encoding is never the empty string *)
  Hypothesis unbech_bech : forall a, verify_address_format a = true -> unbech (bech a) = Some a.
  Hypothesis bech_nonempty : forall a, verify_address_format a = true -> bech a <> [].

  Lemma owner_string_vaf o : verify_address_format o = true -> owner_string bech o = bech o.
  Proof. intros H. destruct o; [cbv in H; discriminate H | reflexivity]. Qed.

  (** what InitGenesis needs of a pnft entry in order to restore it into [s0] *)
  Definition imp_pre (s0 : pnft_state) (p : pnft) : Prop :=
    id_ok (tk_class (p_token p)) /\ id_ok (tk_id (p_token p)) /\
    (exists o, p_owner p = bech o /\ verify_address_format o = true) /\
    has (class_key (tk_class (p_token p))) s0 = true /\
    has (nft_key (tk_class (p_token p)) (tk_id (p_token p))) s0 = false.

  (** InitGenesis, phase 2 (repaired import): every pnft is minted to its exported owner *)
  Lemma init_pnfts_spec : forall ps s0,
    Inv_pnft s0 -> no_zero_supply s0 -> (forall p, In p ps -> imp_pre s0 p) -> NoDup (map pkey ps) ->
    exists s1, init_pnfts unbech false ps s0 = Ok s1 /\ Inv_pnft s1 /\ no_zero_supply s1 /\
      (forall c, get (class_key c) s1 = get (class_key c) s0) /\
      (forall p o, In p ps -> p_owner p = bech o -> verify_address_format o = true ->
         get (nft_key (tk_class (p_token p)) (tk_id (p_token p))) s1 = Some (VToken (p_token p)) /\
         get (owner_key (tk_class (p_token p)) (tk_id (p_token p))) s1 = Some (VOwnerOf o)) /\
      (forall c i, ~ In (c, i) (map pkey ps) ->
         get (nft_key c i) s1 = get (nft_key c i) s0 /\ get (owner_key c i) s1 = get (owner_key c i) s0).
  Proof.
    induction ps as [|p r IH]; intros s0 HI Hz Hpre Hnd.
    - exists s0. split; [reflexivity|]. split; [exact HI|]. split; [exact Hz|]. split; [reflexivity|].
      split; [intros p o []|]. intros c i _. split; reflexivity.
    - cbn [map] in Hnd. inversion Hnd as [|? ? Hnin Hnd']; subst.
      destruct (Hpre p (or_introl eq_refl)) as (Hokc & Hoki & (o0 & Ho0 & Hv0) & Hc & Hn).
      set (t := p_token p) in *.
      destruct (nft_mint s0 t o0) as [s0'| |] eqn:M;
        try (unfold nft_mint, has_class, has_nft in M; rewrite Hc, Hn in M; cbn [negb] in M; discriminate M).
      destruct (nft_mint_step s0 t o0 s0' HI Hz Hokc Hoki Hv0 M) as (HI' & Hz' & Sc & St & So).
      assert (Hpre' : forall p', In p' r -> imp_pre s0' p').
      { intros p' Hp'. destruct (Hpre p' (or_intror Hp')) as (A1 & A2 & A3 & A4 & A5).
        split; [exact A1|]. split; [exact A2|]. split; [exact A3|]. split.
        - unfold has in *. rewrite Sc. exact A4.
        - unfold has in *. rewrite St. rewrite Aol.Inv.pair_neq_eqb; [exact A5|].
          intros C. apply Hnin. change (pkey p) with (tk_class t, tk_id t). rewrite <- C.
          change (tk_class (p_token p'), tk_id (p_token p')) with (pkey p'). apply in_map. exact Hp'. }
      destruct (IH s0' HI' Hz' Hpre' Hnd') as (s1 & E1 & I1 & Z1 & C1 & T1 & F1).
      exists s1. split.
      { cbn [init_pnfts]. unfold import_one. fold t. rewrite Ho0, (unbech_bech o0 Hv0), M. exact E1. }
      split; [exact I1|]. split; [exact Z1|]. split; [intros c; rewrite C1; apply Sc|]. split.
      + intros p' o [<-|Hp'] Ho Hv; [|exact (T1 p' o Hp' Ho Hv)].
        assert (Eo : o = o0).
        { pose proof (unbech_bech o Hv) as U. rewrite <- Ho, Ho0, (unbech_bech o0 Hv0) in U. injection U as U. symmetry. exact U. }
        subst o. fold t. destruct (F1 (tk_class t) (tk_id t) Hnin) as [F1t F1o].
        rewrite F1t, F1o, St, So, !bytes_eqb_refl. cbn [andb]. split; reflexivity.
      + intros c i Hci. cbn [map] in Hci.
        destruct (F1 c i (fun C => Hci (or_intror C))) as [F1t F1o]. rewrite F1t, F1o, St, So.
        rewrite Aol.Inv.pair_neq_eqb; [split; reflexivity|].
        intros C. apply Hci. left. unfold pkey. fold t. symmetry. exact C.
  Qed.

  (** ** the exported genesis of a store that satisfies the invariant *)
  Section Export.
    Variable st : pnft_state.
    Hypothesis Hinv : Inv_pnft st.

    Let ps := pg_pnfts (export_pnft bech st).

    Lemma pnft_facts c i p : get_pnft bech st c i = Some p ->
      get (nft_key c i) st = Some (VToken (p_token p)) /\ tk_class (p_token p) = c /\ tk_id (p_token p) = i /\
      id_ok c /\ id_ok i /\ has (class_key c) st = true /\
      exists o, get (owner_key c i) st = Some (VOwnerOf o) /\ verify_address_format o = true /\ p_owner p = bech o.
    Proof.
      intros Hp. apply get_pnft_some in Hp as [Hg Hown].
      destruct (get_nft_some st c i _ (ip_entries st Hinv) Hg) as [Gt [Hc [Hi [Hokc Hoki]]]].
      pose proof (get_has_true _ _ _ Gt) as Hn.
      split; [exact Gt|]. split; [exact Hc|]. split; [exact Hi|]. split; [exact Hokc|]. split; [exact Hoki|].
      split; [apply (ip_token_class st Hinv c i Hn)|].
      pose proof Hn as Hn'. rewrite <- (ip_token_owner st Hinv) in Hn'. destruct (has_true_get _ _ Hn') as [vo Go].
      destruct (look_owner st c i vo (ip_entries st Hinv) Go) as [o [-> [Hvo _]]].
      exists o. split; [exact Go|]. split; [exact Hvo|]. rewrite Hown. unfold get_owner. rewrite Go.
      apply owner_string_vaf. exact Hvo.
    Qed.

    Lemma class_listed c d : get (class_key c) st = Some (VClass d) -> In d (all_denoms st) /\ dn_id d = c.
    Proof.
      intros G. destruct (look_class st c _ (ip_entries st Hinv) G) as [d' [E [Hid _]]]. injection E as <-.
      split; [|exact Hid]. apply (all_denoms_spec st Hinv). unfold get_class. rewrite Hid, G. reflexivity.
    Qed.

    (** the exported pnfts are exactly the stored tokens, each with its current owner *)
    Lemma export_pnfts_In p : In p ps <-> exists c i, get_pnft bech st c i = Some p.
    Proof.
      unfold ps, export_pnft. cbn [pg_pnfts]. rewrite in_flat_map. split.
      - intros [d [_ Hp]]. apply (pnfts_of_class_spec bech st Hinv) in Hp as [i Hp]. exists (dn_id d), i. exact Hp.
      - intros [c [i Hp]]. destruct (pnft_facts c i p Hp) as (_ & _ & _ & _ & _ & Hc & _).
        apply has_true_get in Hc as [v G]. destruct (look_class st c v (ip_entries st Hinv) G) as [d [-> _]].
        destruct (class_listed c d G) as [Hd Hid]. exists d. split; [exact Hd|].
        apply (pnfts_of_class_spec bech st Hinv). exists i. rewrite Hid. exact Hp.
    Qed.

    Lemma export_pnfts_NoDup : NoDup (map pkey ps).
    Proof.
      unfold ps, export_pnft. cbn [pg_pnfts]. rewrite map_flat_map'. apply NoDup_flat_map.
      - apply (NoDup_map_inv dn_id). apply all_denoms_NoDup. exact Hinv.
      - intros d _. apply (NoDup_map_inv snd). rewrite map_map. cbn [pkey snd].
        apply (pnfts_of_class_NoDup bech st Hinv).
      - intros d d' x Hd Hd' Hx Hx'.
        assert (K : forall d0, In x (map pkey (pnfts_of_class bech st (dn_id d0))) -> fst x = dn_id d0).
        { intros d0 H0. apply in_map_iff in H0 as [p [<- Hp]].
          apply (pnfts_of_class_spec bech st Hinv) in Hp as [i Hp].
          destruct (pnft_facts _ i p Hp) as (_ & Hc & _). exact Hc. }
        apply (all_denoms_spec st Hinv) in Hd. apply (all_denoms_spec st Hinv) in Hd'.
        rewrite <- (K d Hx), (K d' Hx') in Hd. rewrite Hd in Hd'. injection Hd' as ->. reflexivity.
    Qed.

    Lemma export_key_In c i : In (c, i) (map pkey ps) -> has (nft_key c i) st = true.
    Proof.
      intros H. apply in_map_iff in H as [p [E Hp]]. apply export_pnfts_In in Hp as [c' [i' Hp]].
      destruct (pnft_facts c' i' p Hp) as (Gt & Hc & Hi & _). unfold pkey in E. rewrite Hc, Hi in E.
      injection E as <- <-. apply (get_has_true _ _ _ Gt).
    Qed.

    Lemma token_listed c i t : get (nft_key c i) st = Some (VToken t) ->
      exists p o, In p ps /\ p_token p = t /\ tk_class t = c /\ tk_id t = i /\
                  p_owner p = bech o /\ verify_address_format o = true /\ get (owner_key c i) st = Some (VOwnerOf o).
    Proof.
      intros G. set (p := {| p_token := t; p_owner := owner_string bech (get_owner st c i) |}).
      assert (Hp : get_pnft bech st c i = Some p) by (unfold get_pnft, get_nft; rewrite G; reflexivity).
      destruct (pnft_facts c i p Hp) as (_ & Hc & Hi & _ & _ & _ & o & Go & Hvo & Ho).
      exists p, o. split; [apply export_pnfts_In; exists c, i; exact Hp|]. cbn [p_token] in *. auto 8.
    Qed.

    (** ** GenesisState.ValidateBasic accepts the exported genesis *)
    Theorem pnft_export_validates : Pnft_stored_ok st -> validate_pnft_genesis (export_pnft bech st) = true.
    Proof.
      intros HS. unfold validate_pnft_genesis. apply andb_true_iff. split; apply forallb_forall.
      - intros d Hd. unfold export_pnft in Hd. cbn [pg_denoms] in Hd. apply (all_denoms_spec st Hinv) in Hd.
        destruct (get_class_some st _ d (ip_entries st Hinv) Hd) as [G [_ Hid]].
        pose proof (stored_ok_get st _ _ HS G) as [H1 [H2 H3]].
        rewrite (neq_nonempty _ (proj1 Hid)), (neq_nonempty _ H1), (neq_nonempty _ H2), (neq_nonempty _ H3). reflexivity.
      - intros p Hp. fold ps in Hp. apply export_pnfts_In in Hp as [c [i Hp]].
        destruct (pnft_facts c i p Hp) as (Gt & Hc & Hi & Hokc & Hoki & _ & o & _ & Hvo & Ho).
        pose proof (stored_ok_get st _ _ HS Gt) as [H1 H2]. cbv zeta.
        rewrite Hc, Hi, Ho, (neq_nonempty _ (proj1 Hokc)), (neq_nonempty _ (proj1 Hoki)), (neq_nonempty _ H1),
          (neq_nonempty _ H2), (neq_nonempty _ (bech_nonempty o Hvo)). reflexivity.
    Qed.

    (** ** the repaired import restores the store, minus the zero supply counters *)
    Theorem pnft_export_import :
      init_pnft_genesis unbech false (export_pnft bech st) = Ok (strip_zero_supply st).
    Proof.
      unfold init_pnft_genesis. change (pg_pnfts (export_pnft bech st)) with ps.
      change (pg_denoms (export_pnft bech st)) with (all_denoms st).
      destruct (init_denoms_spec (all_denoms st) [] Inv_pnft_empty no_zero_supply_empty) as (s1 & E1 & I1 & Z1 & C1 & C1' & T1 & O1).
      { intros d Hd. split; [|reflexivity]. apply (all_denoms_spec st Hinv) in Hd.
        apply (get_class_id st _ d Hinv Hd). }
      { apply all_denoms_NoDup. exact Hinv. }
      rewrite E1. cbn [bind].
      destruct (init_pnfts_spec ps s1 I1 Z1) as (s2 & E2 & I2 & Z2 & C2 & T2 & F2).
      { intros p Hp. apply export_pnfts_In in Hp as [c [i Hp]].
        destruct (pnft_facts c i p Hp) as (Gt & Hc & Hi & Hokc & Hoki & Hcl & o & _ & Hvo & Ho).
        unfold imp_pre. rewrite Hc, Hi. split; [exact Hokc|]. split; [exact Hoki|]. split; [exists o; auto|]. split.
        - apply has_true_get in Hcl as [v G]. destruct (look_class st c v (ip_entries st Hinv) G) as [d [-> _]].
          destruct (class_listed c d G) as [Hd Hid]. apply (get_has_true _ _ (VClass d)). rewrite <- Hid. exact (C1 d Hd).
        - apply get_has_false. rewrite T1. reflexivity. }
      { exact export_pnfts_NoDup. }
      rewrite E2. f_equal. apply determined; [exact I2 | exact Z2 | exact Hinv|].
      assert (Habs : forall c i, get (nft_key c i) st = None -> ~ In (c, i) (map pkey ps)).
      { intros c i G C. apply export_key_In in C. apply has_true_get in C as [v C]. rewrite G in C. discriminate C. }
      split; [|split].
      - intros c. rewrite C2. destruct (get (class_key c) st) as [v|] eqn:G.
        + destruct (look_class st c v (ip_entries st Hinv) G) as [d [-> _]].
          destruct (class_listed c d G) as [Hd Hid]. rewrite <- Hid. exact (C1 d Hd).
        + rewrite C1'; [reflexivity|]. intros C. apply in_map_iff in C as [d [Hid Hd]].
          apply (all_denoms_spec st Hinv) in Hd. rewrite Hid in Hd. unfold get_class in Hd. rewrite G in Hd. discriminate Hd.
      - intros c i. destruct (get (nft_key c i) st) as [v|] eqn:G.
        + destruct (look_token st c i v (ip_entries st Hinv) G) as [t [-> _]].
          destruct (token_listed c i t G) as (p & o & Hp & Ht & Hc & Hi & Ho & Hvo & _).
          destruct (T2 p o Hp Ho Hvo) as [R _]. rewrite Ht, Hc, Hi in R. exact R.
        + destruct (F2 c i (Habs c i G)) as [R _]. rewrite R, T1. reflexivity.
      - intros c i. destruct (get (owner_key c i) st) as [v|] eqn:G.
        + pose proof (get_has_true _ _ _ G) as Hn. rewrite (ip_token_owner st Hinv) in Hn.
          apply has_true_get in Hn as [vt Gt].
          destruct (look_token st c i vt (ip_entries st Hinv) Gt) as [t [-> _]].
          destruct (token_listed c i t Gt) as (p & o & Hp & Ht & Hc & Hi & Ho & Hvo & Go).
          destruct (T2 p o Hp Ho Hvo) as [_ R]. rewrite Ht, Hc, Hi in R. rewrite R, <- Go, G. reflexivity.
        + assert (Gt : get (nft_key c i) st = None).
          { apply has_false_get. rewrite <- (ip_token_owner st Hinv). apply get_has_false. exact G. }
          destruct (F2 c i (Habs c i Gt)) as [_ R]. rewrite R, O1. reflexivity.
    Qed.
  End Export.
End G.

(** * the stripped store is as good as the original *)
Lemma get_strip_kind st K :
  Inv_pnft st -> (forall c, K <> NSupply c) -> get (enc K) (strip_zero_supply st) = get (enc K) st.
Proof.
  intros HI HK. rewrite (get_strip _ st (ip_sorted st HI)).
  destruct (get (enc K) st) as [v|] eqn:G; [|reflexivity].
  pose proof (look_kind st K v (ip_entries st HI) G) as L.
  destruct K, v; try contradiction L; try reflexivity; exfalso; eapply HK; reflexivity.
Qed.

Theorem strip_inv st : Inv_pnft st -> Inv_pnft (strip_zero_supply st).
Proof.
  intros HI. split.
  - apply sorted_filter. exact (ip_sorted st HI).
  - pose proof (ip_entries st HI) as He. rewrite Forall_forall in *. intros e H. apply He. apply strip_In. exact H.
  - intros c i. unfold has. fold_enc. rewrite (get_strip_kind st (NToken c i) HI), (get_strip_kind st (NClass c) HI) by discriminate.
    exact (ip_token_class st HI c i).
  - intros c i. unfold has. fold_enc. rewrite (get_strip_kind st (NToken c i) HI), (get_strip_kind st (NOwner c i) HI) by discriminate.
    exact (ip_token_owner st HI c i).
  - intros o c i Ho. unfold has. fold_enc.
    rewrite (get_strip_kind st (NByOwner o c i) HI), (get_strip_kind st (NOwner c i) HI) by discriminate.
    exact (ip_by_owner st HI o c i Ho).
  - intros c. rewrite (strip_get_supply st c (ip_sorted st HI)), strip_tokens_of_class. exact (ip_supply st HI c).
Qed.

Section Corollaries.
  Variable bech : bytes -> bytes.
  Variable unbech : bytes -> option bytes.
  Hypothesis unbech_bech : forall a, verify_address_format a = true -> unbech (bech a) = Some a.

  (** the round trip is the identity exactly on the stores without a zero supply counter *)
  Theorem pnft_export_import_identity : forall st, Inv_pnft st -> no_zero_supply st ->
    init_pnft_genesis unbech false (export_pnft bech st) = Ok st.
  Proof.
    intros st HI Hz. rewrite (pnft_export_import bech unbech unbech_bech st HI).
    rewrite (strip_id st (ip_sorted st HI) Hz). reflexivity.
  Qed.

  Theorem pnft_export_import_identity_iff : forall st, Inv_pnft st ->
    (init_pnft_genesis unbech false (export_pnft bech st) = Ok st <-> no_zero_supply st).
  Proof.
    intros st HI. split; [|apply pnft_export_import_identity; exact HI].
    rewrite (pnft_export_import bech unbech unbech_bech st HI). intros E. injection E as E. rewrite <- E.
    apply strip_no_zero. exact (ip_sorted st HI).
  Qed.

  (** the imported store satisfies the invariants again, has no zero counter, and answers every keeper
      read like the original *)
  Theorem pnft_import_state : forall st st2, Inv_pnft st ->
    init_pnft_genesis unbech false (export_pnft bech st) = Ok st2 ->
    Inv_pnft st2 /\ no_zero_supply st2 /\ (Pnft_stored_ok st -> Pnft_stored_ok st2) /\
    (forall c, get_class st2 c = get_class st c) /\
    (forall c i, get_nft st2 c i = get_nft st c i) /\
    (forall c i, get_owner st2 c i = get_owner st c i) /\
    (forall c, get_supply st2 c = get_supply st c) /\
    (forall c i, get_pnft bech st2 c i = get_pnft bech st c i) /\
    all_denoms st2 = all_denoms st /\
    (forall c, pnfts_of_class bech st2 c = pnfts_of_class bech st c).
  Proof.
    intros st st2 HI H. rewrite (pnft_export_import bech unbech unbech_bech st HI) in H. injection H as <-.
    pose proof (ip_sorted st HI) as Hs.
    split; [apply strip_inv; exact HI|]. split; [apply strip_no_zero; exact Hs|]. split; [apply stored_ok_strip|].
    split; [intros c; apply strip_get_class; exact Hs|]. split; [intros c i; apply strip_get_nft; exact Hs|].
    split; [intros c i; apply strip_get_owner; exact Hs|]. split; [intros c; apply strip_get_supply; exact Hs|].
    split; [|split; [apply strip_all_denoms | intros c; apply strip_pnfts_of_class; exact Hs]].
    intros c i. unfold get_pnft. rewrite (strip_get_nft st c i Hs), (strip_get_owner st c i Hs). reflexivity.
  Qed.

  (** the export of the imported store is the same genesis *)
  Theorem pnft_reexport_same : forall st st2, Inv_pnft st ->
    init_pnft_genesis unbech false (export_pnft bech st) = Ok st2 -> export_pnft bech st2 = export_pnft bech st.
  Proof.
    intros st st2 HI H. rewrite (pnft_export_import bech unbech unbech_bech st HI) in H. injection H as <-.
    apply strip_export. exact (ip_sorted st HI).
  Qed.

  (** and a second export/import is the identity *)
  Theorem pnft_export_import_idempotent : forall st st2, Inv_pnft st ->
    init_pnft_genesis unbech false (export_pnft bech st) = Ok st2 ->
    init_pnft_genesis unbech false (export_pnft bech st2) = Ok st2.
  Proof.
    intros st st2 HI H. rewrite (pnft_reexport_same st st2 HI H). exact H.
  Qed.
End Corollaries.

(** * refutations, with the identity as bech32 codec on well-formed addresses *)
Definition id_unbech (s : bytes) : option bytes := if verify_address_format s then Some s else None.
Definition id_bech (a : bytes) : bytes := a.

Lemma id_unbech_wf : unbech_wf id_unbech.
Proof. intros s a H. unfold id_unbech in H. destruct (verify_address_format s) eqn:E; [|discriminate H]. injection H as <-. exact E. Qed.
Lemma id_unbech_bech : forall a, verify_address_format a = true -> id_unbech (id_bech a) = Some a.
Proof. intros a H. unfold id_unbech, id_bech. rewrite H. reflexivity. Qed.
Lemma id_bech_nonempty : forall a, verify_address_format a = true -> id_bech a <> [].
Proof. intros a H E. unfold id_bech in E. subst a. cbv in H. discriminate H. Qed.

(** denom "a" of owner "A"; token "i" minted by "A"; then burned / transferred to "B" / the denom deleted *)
Definition ex_d : denom :=
  {| dn_id := [x61]; dn_name := [x6e]; dn_symbol := [x73]; dn_description := []; dn_uri := []; dn_uri_hash := [];
     dn_owner := [x41]; dn_data := [] |}.
Definition ok_or_empty (x : outcome pnft_state) : pnft_state := match x with Ok s => s | _ => [] end.
Definition ex_s1 : pnft_state := Eval vm_compute in ok_or_empty (create_denom [] ex_d).
Definition ex_s2 : pnft_state :=
  Eval vm_compute in ok_or_empty (mint_pnft id_unbech ex_s1 5%Z [x61] [x69] [x6e] [] [] [] [] [x41]).
Definition ex_burned : pnft_state := Eval vm_compute in ok_or_empty (burn_pnft id_bech ex_s2 [x61] [x69] [x41]).
Definition ex_moved : pnft_state :=
  Eval vm_compute in ok_or_empty (transfer_pnft id_unbech id_bech ex_s2 [x61] [x69] [x41] [x42]).
Definition ex_deleted : pnft_state := Eval vm_compute in ok_or_empty (delete_denom true ex_burned [x61] [x41]).

Lemma ex_s1_ok : Inv_pnft ex_s1 /\ Pnft_stored_ok ex_s1.
Proof.
  assert (E : create_denom [] ex_d = Ok ex_s1) by (vm_compute; reflexivity).
  assert (V : vb_create_denom id_unbech true (dn_id ex_d) (dn_name ex_d) (dn_symbol ex_d) (dn_owner ex_d) = Ok tt)
    by (vm_compute; reflexivity).
  split.
  - exact (create_denom_inv id_unbech [] ex_d ex_s1 Inv_pnft_empty V E).
  - exact (create_denom_stored id_unbech [] ex_d ex_s1 Pnft_stored_ok_empty V E).
Qed.

Lemma ex_s2_ok : Inv_pnft ex_s2 /\ Pnft_stored_ok ex_s2.
Proof.
  destruct ex_s1_ok as [HI HS].
  assert (E : mint_pnft id_unbech ex_s1 5%Z [x61] [x69] [x6e] [] [] [] [] [x41] = Ok ex_s2) by (vm_compute; reflexivity).
  assert (V : vb_mint_pnft id_unbech true [x61] [x69] [x6e] [x41] = Ok tt) by (vm_compute; reflexivity).
  split.
  - exact (mint_pnft_inv id_unbech id_unbech_wf id_bech _ _ _ _ _ _ _ _ _ _ _ HI V E).
  - exact (mint_pnft_stored id_unbech _ _ _ _ _ _ _ _ _ _ _ HS V E).
Qed.

Lemma ex_burned_ok : Inv_pnft ex_burned /\ Pnft_stored_ok ex_burned.
Proof.
  destruct ex_s2_ok as [HI HS].
  assert (E : burn_pnft id_bech ex_s2 [x61] [x69] [x41] = Ok ex_burned) by (vm_compute; reflexivity).
  split; [exact (burn_pnft_inv id_bech _ _ _ _ _ HI E) | exact (burn_pnft_stored id_bech _ _ _ _ _ HS E)].
Qed.

Lemma ex_moved_ok : Inv_pnft ex_moved /\ Pnft_stored_ok ex_moved.
Proof.
  destruct ex_s2_ok as [HI HS].
  assert (E : transfer_pnft id_unbech id_bech ex_s2 [x61] [x69] [x41] [x42] = Ok ex_moved) by (vm_compute; reflexivity).
  split; [exact (transfer_pnft_inv id_unbech id_unbech_wf id_bech _ _ _ _ _ _ HI E)
         | exact (transfer_pnft_stored id_unbech id_bech _ _ _ _ _ _ HS E)].
Qed.

Lemma ex_deleted_ok : Inv_pnft ex_deleted /\ Pnft_stored_ok ex_deleted.
Proof.
  destruct ex_burned_ok as [HI HS].
  assert (E : delete_denom true ex_burned [x61] [x41] = Ok ex_deleted) by (vm_compute; reflexivity).
  split; [exact (delete_denom_inv id_bech _ _ _ _ HI E) | exact (delete_denom_stored _ _ _ _ HS E)].
Qed.

(** "export then import reproduces the store exactly" is FALSE for the model (and for x/nft v0.47.12, whose
    Burn writes the decremented counter back and whose genesis import only counts minted tokens): after
    CreateDenom, MintPNFT, BurnPNFT the store holds [0x05 "a" -> 0]; the imported store does not. *)
Theorem pnft_export_import_exact_refuted :
  exists st, Inv_pnft st /\ Pnft_stored_ok st /\
    validate_pnft_genesis (export_pnft id_bech st) = true /\
    init_pnft_genesis id_unbech false (export_pnft id_bech st) <> Ok st.
Proof.
  exists ex_burned. destruct ex_burned_ok as [HI HS]. split; [exact HI|]. split; [exact HS|].
  split; [vm_compute; reflexivity|]. vm_compute. intros H. discriminate H.
Qed.

(** the smallest such store: after DeleteDenom only the zero counter is left, and the import is empty *)
Theorem pnft_export_import_exact_refuted_min :
  ex_deleted = [(supply_key [x61], VSupply 0)] /\ Inv_pnft ex_deleted /\ Pnft_stored_ok ex_deleted /\
  init_pnft_genesis id_unbech false (export_pnft id_bech ex_deleted) = Ok [].
Proof.
  destruct ex_deleted_ok as [HI HS]. split; [reflexivity|]. split; [exact HI|]. split; [exact HS|]. vm_compute. reflexivity.
Qed.

(** the original import (MintPNFT to the creator) loses the current owner of a transferred token *)
Theorem pnft_import_to_creator_refuted :
  exists st, Inv_pnft st /\ Pnft_stored_ok st /\ no_zero_supply st /\
    init_pnft_genesis id_unbech false (export_pnft id_bech st) = Ok st /\
    init_pnft_genesis id_unbech true (export_pnft id_bech st) <> Ok st /\
    exists st', init_pnft_genesis id_unbech true (export_pnft id_bech st) = Ok st' /\
                get_owner st [x61] [x69] = [x42] /\ get_owner st' [x61] [x69] = [x41].
Proof.
  exists ex_moved. destruct ex_moved_ok as [HI HS]. split; [exact HI|]. split; [exact HS|].
  assert (Hz : no_zero_supply ex_moved).
  { intros k G. apply get_In in G. vm_compute in G. repeat (destruct G as [G|G]; [discriminate G|]). exact G. }
  split; [exact Hz|]. split; [exact (pnft_export_import_identity id_bech id_unbech id_unbech_bech ex_moved HI Hz)|].
  split; [vm_compute; intros H; discriminate H|].
  eexists. split; [vm_compute; reflexivity|]. split; vm_compute; reflexivity.
Qed.

Print Assumptions pnft_export_validates.
Print Assumptions pnft_export_import.
Print Assumptions pnft_export_import_identity.
Print Assumptions pnft_export_import_identity_iff.
Print Assumptions pnft_import_state.
Print Assumptions pnft_reexport_same.
Print Assumptions pnft_export_import_idempotent.
Print Assumptions strip_inv.
Print Assumptions strip_export.
Print Assumptions determined.
Print Assumptions create_denom_stored.
Print Assumptions update_denom_stored.
Print Assumptions delete_denom_stored.
Print Assumptions transfer_denom_stored.
Print Assumptions mint_pnft_stored.
Print Assumptions transfer_pnft_stored.
Print Assumptions burn_pnft_stored.
Print Assumptions pnft_export_import_exact_refuted.
Print Assumptions pnft_export_import_exact_refuted_min.
Print Assumptions pnft_import_to_creator_refuted.
