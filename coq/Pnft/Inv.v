(** The PNFT store invariant [Inv_pnft] is preserved by the seven message handlers; who may act (C06),
    uniqueness / immutability of tokens and the supply counter (C12). *)
From Coq Require Import Strings.String Strings.Byte.
From Coq Require Import List Arith NArith ZArith Bool Lia.
From Coq Require Import ZifyN ZifyNat. Ltac Zify.zify_post_hook ::= Z.div_mod_to_equations.
From PV Require Import Base.Bytes Base.Outcome Base.KV.
From PV Require Import Compkey.Model Aol.Spec.
From PV Require Compkey.Proofs Aol.Inv.
From PV Require Import Pnft.Model Pnft.Spec.
From PV Require Generated.GenNft.
Import ListNotations.

(** * the store keys *)
Notation nn x := (has_nul x = false).

Lemma id_ok_nn x : id_ok x -> nn x.
Proof. intros H. exact (proj2 H). Qed.

Lemma class_key_eq c : class_key c = x01 :: c.
Proof. reflexivity. Qed.
Lemma supply_key_eq c : supply_key c = x05 :: c.
Proof. reflexivity. Qed.
Lemma nft_prefix_eq c : nft_prefix c = x02 :: c ++ [x00].
Proof. reflexivity. Qed.
Lemma nft_key_eq c i : nft_key c i = x02 :: c ++ x00 :: i.
Proof. unfold nft_key. rewrite nft_prefix_eq. cbn [app]. rewrite <- app_assoc. reflexivity. Qed.
Lemma owner_key_eq c i : owner_key c i = x04 :: c ++ x00 :: i.
Proof. reflexivity. Qed.
Lemma by_owner_key_eq o c i :
  by_owner_key o c i = x03 :: byte_of_N_mod (N.of_nat (length o)) :: o ++ x00 :: c ++ x00 :: i.
Proof.
  unfold by_owner_key, by_owner_prefix, len_prefixed, delim, GenNft.nft_by_owner_key, GenNft.nft_delimiter.
  cbn [app]. repeat (rewrite <- ?app_assoc; cbn [app]). reflexivity.
Qed.

Lemma has_nul_app x y : has_nul (x ++ y) = has_nul x || has_nul y.
Proof. unfold has_nul. apply existsb_app. Qed.

Lemma has_nul_cons a x : has_nul (a :: x) = byte_eqb x00 a || has_nul x.
Proof. reflexivity. Qed.

(** the delimiter splits uniquely when one of the two readings is NUL-free *)
Lemma delim_split_inj : forall x y x' y',
  nn x' -> nn y' -> x ++ x00 :: y = x' ++ x00 :: y' -> x = x' /\ y = y'.
Proof.
  induction x as [|a x IH]; intros y [|a' x'] y' Hx' Hy' E; cbn [app] in E.
  - injection E as E. split; [reflexivity | exact E].
  - injection E as Ea E. subst a'. rewrite has_nul_cons, byte_eqb_refl in Hx'. discriminate.
  - injection E as Ea E. subst a. rewrite <- E in Hy'. rewrite has_nul_app, has_nul_cons, byte_eqb_refl in Hy'.
    rewrite orb_true_r in Hy'. discriminate.
  - injection E as Ea E. subst a'. rewrite has_nul_cons in Hx'. apply orb_false_iff in Hx' as [_ Hx'].
    destruct (IH y x' y' Hx' Hy' E) as [E1 E2]. subst. split; reflexivity.
Qed.

Lemma app_eq_len {A} : forall (x y a c : list A), length x = length y -> x ++ a = y ++ c -> x = y /\ a = c.
Proof.
  induction x as [|h x IH]; intros [|h' y] a c HL E; cbn in HL; try discriminate.
  - split; [reflexivity | exact E].
  - cbn [app] in E. injection E as Eh E. injection HL as HL. destruct (IH y a c HL E) as [E1 E2].
    subst. split; reflexivity.
Qed.

Lemma nft_key_inj1 : forall c i c' i', nn c' -> nn i' -> nft_key c i = nft_key c' i' -> c = c' /\ i = i'.
Proof.
  intros c i c' i' Hc Hi E. rewrite !nft_key_eq in E. injection E as E. exact (delim_split_inj _ _ _ _ Hc Hi E).
Qed.

Lemma owner_key_inj1 : forall c i c' i', nn c' -> nn i' -> owner_key c i = owner_key c' i' -> c = c' /\ i = i'.
Proof.
  intros c i c' i' Hc Hi E. rewrite !owner_key_eq in E. injection E as E. exact (delim_split_inj _ _ _ _ Hc Hi E).
Qed.

Lemma nft_key_inj : forall c i c' i',
  id_ok c -> id_ok c' -> has_nul i = false -> has_nul i' = false -> nft_key c i = nft_key c' i' -> c = c' /\ i = i'.
Proof. intros c i c' i' _ Hc' _ Hi' E. exact (nft_key_inj1 c i c' i' (id_ok_nn _ Hc') Hi' E). Qed.

Lemma owner_key_inj : forall c i c' i',
  id_ok c -> id_ok c' -> has_nul i = false -> has_nul i' = false -> owner_key c i = owner_key c' i' -> c = c' /\ i = i'.
Proof. intros c i c' i' _ Hc' _ Hi' E. exact (owner_key_inj1 c i c' i' (id_ok_nn _ Hc') Hi' E). Qed.

(** with 0x00 inside an identifier two different (class, token) pairs share one key: this is why the
    validators must reject it *)
Lemma nft_key_alias_example : exists c i c' i', (c, i) <> (c', i') /\ nft_key c i = nft_key c' i'.
Proof.
  exists [x61], [x00; x62], [x61; x00], [x62]. split; [discriminate | reflexivity].
Qed.

Lemma vaf_len o : verify_address_format o = true -> (length o <= 255)%nat.
Proof.
  unfold verify_address_format. intros H. apply andb_true_iff in H as [_ H]. apply Nat.leb_le in H. exact H.
Qed.

Lemma len_byte_inj o o' :
  verify_address_format o = true -> verify_address_format o' = true ->
  byte_of_N_mod (N.of_nat (length o)) = byte_of_N_mod (N.of_nat (length o')) -> length o = length o'.
Proof.
  intros H H' E. apply vaf_len in H. apply vaf_len in H'.
  apply (f_equal Byte.to_N) in E. rewrite !Compkey.Proofs.byte_of_N_mod_to_N in E.
  rewrite !N.mod_small in E by lia. lia.
Qed.

Lemma by_owner_key_inj1 : forall o c i o' c' i',
  verify_address_format o = true -> verify_address_format o' = true -> nn c' -> nn i' ->
  by_owner_key o c i = by_owner_key o' c' i' -> o = o' /\ c = c' /\ i = i'.
Proof.
  intros o c i o' c' i' Ho Ho' Hc Hi E. rewrite !by_owner_key_eq in E. injection E as EL E.
  pose proof (len_byte_inj o o' Ho Ho' EL) as HL.
  destruct (app_eq_len _ _ _ _ HL E) as [E1 E2]. injection E2 as E2.
  destruct (delim_split_inj _ _ _ _ Hc Hi E2) as [E3 E4]. auto.
Qed.

(** ** typed keys: a proof device to treat the five key shapes uniformly *)
Inductive nkey :=
| NClass (c : bytes) | NToken (c i : bytes) | NOwner (c i : bytes) | NByOwner (o c i : bytes) | NSupply (c : bytes).

Definition enc (K : nkey) : bytes :=
  match K with
  | NClass c => class_key c | NToken c i => nft_key c i | NOwner c i => owner_key c i
  | NByOwner o c i => by_owner_key o c i | NSupply c => supply_key c
  end.

Definition nkey_eqb (K K0 : nkey) : bool :=
  match K, K0 with
  | NClass c, NClass c0 => bytes_eqb c c0
  | NToken c i, NToken c0 i0 => bytes_eqb c c0 && bytes_eqb i i0
  | NOwner c i, NOwner c0 i0 => bytes_eqb c c0 && bytes_eqb i i0
  | NByOwner o c i, NByOwner o0 c0 i0 => bytes_eqb o o0 && (bytes_eqb c c0 && bytes_eqb i i0)
  | NSupply c, NSupply c0 => bytes_eqb c c0
  | _, _ => false
  end.

(** when [enc K = enc K0] forces [K = K0]: keys of different kinds always differ; for two keys of the
    same kind one of the two must be built from NUL-free identifiers (and owner addresses must be well formed) *)
Definition inj_ok (K K0 : nkey) : Prop :=
  match K, K0 with
  | NToken c i, NToken c0 i0 | NOwner c i, NOwner c0 i0 => (nn c0 /\ nn i0) \/ (nn c /\ nn i)
  | NByOwner o c i, NByOwner o0 c0 i0 =>
      verify_address_format o = true /\ verify_address_format o0 = true /\ ((nn c0 /\ nn i0) \/ (nn c /\ nn i))
  | _, _ => True
  end.

Lemma nkey_eqb_refl K : nkey_eqb K K = true.
Proof. destruct K as [c|c i|c i|o c i|c]; cbn [nkey_eqb]; rewrite ?bytes_eqb_refl; reflexivity. Qed.

Lemma nkey_eqb_eq K K0 : nkey_eqb K K0 = true -> K = K0.
Proof.
  destruct K as [c|c i|c i|o c i|c], K0 as [c0|c0 i0|c0 i0|o0 c0 i0|c0]; cbn [nkey_eqb]; intros H; try discriminate H;
    repeat (apply andb_true_iff in H; let H1 := fresh "H1" in destruct H as [H1 H]; apply bytes_eqb_eq in H1; subst);
    apply bytes_eqb_eq in H; subst; reflexivity.
Qed.

Lemma enc_inj K K0 : inj_ok K K0 -> enc K = enc K0 -> K = K0.
Proof.
  destruct K as [c|c i|c i|o c i|c], K0 as [c0|c0 i0|c0 i0|o0 c0 i0|c0]; cbn [inj_ok enc]; intros Hok E;
    rewrite ?class_key_eq, ?supply_key_eq, ?nft_key_eq, ?owner_key_eq, ?by_owner_key_eq in E; try discriminate E.
  - injection E as E. subst. reflexivity.
  - destruct Hok as [[Hc Hi]|[Hc Hi]].
    + destruct (nft_key_inj1 c i c0 i0 Hc Hi) as [E1 E2]; [rewrite !nft_key_eq; exact E|]. subst. reflexivity.
    + destruct (nft_key_inj1 c0 i0 c i Hc Hi) as [E1 E2]; [rewrite !nft_key_eq; symmetry; exact E|]. subst. reflexivity.
  - destruct Hok as [[Hc Hi]|[Hc Hi]].
    + destruct (owner_key_inj1 c i c0 i0 Hc Hi) as [E1 E2]; [rewrite !owner_key_eq; exact E|]. subst. reflexivity.
    + destruct (owner_key_inj1 c0 i0 c i Hc Hi) as [E1 E2]; [rewrite !owner_key_eq; symmetry; exact E|]. subst. reflexivity.
  - destruct Hok as [Ho [Ho0 [[Hc Hi]|[Hc Hi]]]].
    + destruct (by_owner_key_inj1 o c i o0 c0 i0 Ho Ho0 Hc Hi) as [E1 [E2 E3]]; [rewrite !by_owner_key_eq; exact E|].
      subst. reflexivity.
    + destruct (by_owner_key_inj1 o0 c0 i0 o c i Ho0 Ho Hc Hi) as [E1 [E2 E3]]; [rewrite !by_owner_key_eq; symmetry; exact E|].
      subst. reflexivity.
  - injection E as E. subst. reflexivity.
Qed.

Lemma enc_eqb K K0 : inj_ok K K0 -> bytes_eqb (enc K) (enc K0) = nkey_eqb K K0.
Proof.
  intros Hok. destruct (nkey_eqb K K0) eqn:E.
  - apply nkey_eqb_eq in E. subst. apply bytes_eqb_refl.
  - apply bytes_eqb_neq. intros Heq. apply (enc_inj K K0 Hok) in Heq. subst. rewrite nkey_eqb_refl in E. discriminate.
Qed.

(** * lookups after [set] / [del] *)
Lemma get_set_enc K K0 v (st : pnft_state) : inj_ok K K0 ->
  get (enc K) (set (enc K0) v st) = if nkey_eqb K K0 then Some v else get (enc K) st.
Proof. intros H. rewrite get_set, (enc_eqb K K0 H). reflexivity. Qed.

Lemma get_del_enc K K0 (st : pnft_state) : inj_ok K K0 ->
  get (enc K) (del (enc K0) st) = if nkey_eqb K K0 then None else get (enc K) st.
Proof. intros H. rewrite get_del, (enc_eqb K K0 H). reflexivity. Qed.

Lemma has_set_enc K K0 v (st : pnft_state) : inj_ok K K0 ->
  has (enc K) (set (enc K0) v st) = nkey_eqb K K0 || has (enc K) st.
Proof. intros H. rewrite has_set, (enc_eqb K K0 H). reflexivity. Qed.

Lemma has_del_enc K K0 (st : pnft_state) : inj_ok K K0 ->
  has (enc K) (del (enc K0) st) = negb (nkey_eqb K K0) && has (enc K) st.
Proof. intros H. rewrite has_del, (enc_eqb K K0 H). reflexivity. Qed.

Ltac unf := unfold get_class, has_class, has_nft, get_nft, get_owner, get_supply, set_owner, delete_owner in *.

Ltac fold_enc :=
  repeat match goal with
  | |- context [class_key ?c] => change (class_key c) with (enc (NClass c)) in *
  | |- context [nft_key ?c ?i] => change (nft_key c i) with (enc (NToken c i)) in *
  | |- context [owner_key ?c ?i] => change (owner_key c i) with (enc (NOwner c i)) in *
  | |- context [by_owner_key ?o ?c ?i] => change (by_owner_key o c i) with (enc (NByOwner o c i)) in *
  | |- context [supply_key ?c] => change (supply_key c) with (enc (NSupply c)) in *
  | H : context [class_key ?c] |- _ => change (class_key c) with (enc (NClass c)) in *
  | H : context [nft_key ?c ?i] |- _ => change (nft_key c i) with (enc (NToken c i)) in *
  | H : context [owner_key ?c ?i] |- _ => change (owner_key c i) with (enc (NOwner c i)) in *
  | H : context [by_owner_key ?o ?c ?i] |- _ => change (by_owner_key o c i) with (enc (NByOwner o c i)) in *
  | H : context [supply_key ?c] |- _ => change (supply_key c) with (enc (NSupply c)) in *
  end.

Ltac kok := cbn [inj_ok]; auto 8.

Ltac kv :=
  repeat first [ rewrite get_set_enc by kok | rewrite get_del_enc by kok
               | rewrite has_set_enc by kok | rewrite has_del_enc by kok ];
  cbn [nkey_eqb orb andb negb].

(** the relational fields of the invariant, phrased with typed keys *)
Ltac inv_enc st R1 R2 R3 :=
  change (forall c i, has (enc (NToken c i)) st = true -> has (enc (NClass c)) st = true) in R1;
  change (forall c i, has (enc (NOwner c i)) st = has (enc (NToken c i)) st) in R2;
  change (forall o c i, verify_address_format o = true ->
            (has (enc (NByOwner o c i)) st = true <-> get (enc (NOwner c i)) st = Some (VOwnerOf o))) in R3.

Lemma has_true_get {V} k (st : store V) : has k st = true -> exists v, get k st = Some v.
Proof. unfold has. destruct (get k st) as [v|]; [eauto | discriminate]. Qed.
Lemma has_false_get {V} k (st : store V) : has k st = false -> get k st = None.
Proof. unfold has. destruct (get k st) as [v|]; [discriminate | reflexivity]. Qed.
Lemma get_has_true {V} k (st : store V) v : get k st = Some v -> has k st = true.
Proof. unfold has. intros ->. reflexivity. Qed.
Lemma get_has_false {V} k (st : store V) : get k st = None -> has k st = false.
Proof. unfold has. intros ->. reflexivity. Qed.

(** * what a hit on a typed key returns, given that all entries are well shaped *)
Lemma look_kind (st : pnft_state) K v :
  Forall entry_ok st -> get (enc K) st = Some v ->
  match K, v with
  | NClass c, VClass d => dn_id d = c /\ id_ok c
  | NToken c i, VToken t => tk_class t = c /\ tk_id t = i /\ id_ok c /\ id_ok i
  | NOwner c i, VOwnerOf o => verify_address_format o = true /\ id_ok c /\ id_ok i
  | NByOwner _ _ _, VByOwner => True
  | NSupply c, VSupply _ => id_ok c
  | _, _ => False
  end.
Proof.
  intros Hall G. apply get_In in G. rewrite Forall_forall in Hall. specialize (Hall _ G).
  unfold entry_ok in Hall. cbn [fst snd] in Hall.
  destruct v as [d|t|o| |n].
  - destruct Hall as [E Hid]. destruct K as [c|c i|c i|o c i|c]; cbn [enc] in E;
      rewrite ?class_key_eq, ?supply_key_eq, ?nft_key_eq, ?owner_key_eq, ?by_owner_key_eq in E; try discriminate E.
    injection E as E. subst c. split; [reflexivity | exact Hid].
  - destruct Hall as [E [Hc Hi]]. destruct K as [c|c i|c i|o c i|c]; cbn [enc] in E;
      rewrite ?class_key_eq, ?supply_key_eq, ?owner_key_eq, ?by_owner_key_eq in E;
      try (rewrite nft_key_eq in E; discriminate E).
    destruct (nft_key_inj1 c i _ _ (id_ok_nn _ Hc) (id_ok_nn _ Hi) E) as [E1 E2]. subst. auto.
  - destruct Hall as [c' [i' [E [Hc [Hi Ho]]]]]. destruct K as [c|c i|c i|o' c i|c]; cbn [enc] in E;
      rewrite ?class_key_eq, ?supply_key_eq, ?nft_key_eq, ?by_owner_key_eq in E;
      try (rewrite owner_key_eq in E; discriminate E).
    destruct (owner_key_inj1 c i _ _ (id_ok_nn _ Hc) (id_ok_nn _ Hi) E) as [E1 E2]. subst. auto.
  - destruct Hall as [o' [c' [i' [E _]]]]. destruct K as [c|c i|c i|o c i|c]; cbn [enc] in E;
      rewrite ?class_key_eq, ?supply_key_eq, ?nft_key_eq, ?owner_key_eq, ?by_owner_key_eq in E; try discriminate E.
    exact I.
  - destruct Hall as [c' [E Hc]]. destruct K as [c|c i|c i|o c i|c]; cbn [enc] in E;
      rewrite ?class_key_eq, ?supply_key_eq, ?nft_key_eq, ?owner_key_eq, ?by_owner_key_eq in E; try discriminate E.
    injection E as E. subst c. exact Hc.
Qed.

Lemma look_class (st : pnft_state) c v :
  Forall entry_ok st -> get (class_key c) st = Some v -> exists d, v = VClass d /\ dn_id d = c /\ id_ok c.
Proof.
  intros Hall G. pose proof (look_kind st (NClass c) v Hall G) as H. destruct v as [d|t|o| |n]; try contradiction.
  exists d. tauto.
Qed.

Lemma look_token (st : pnft_state) c i v :
  Forall entry_ok st -> get (nft_key c i) st = Some v ->
  exists t, v = VToken t /\ tk_class t = c /\ tk_id t = i /\ id_ok c /\ id_ok i.
Proof.
  intros Hall G. pose proof (look_kind st (NToken c i) v Hall G) as H. destruct v as [d|t|o| |n]; try contradiction.
  exists t. tauto.
Qed.

Lemma look_owner (st : pnft_state) c i v :
  Forall entry_ok st -> get (owner_key c i) st = Some v ->
  exists o, v = VOwnerOf o /\ verify_address_format o = true /\ id_ok c /\ id_ok i.
Proof.
  intros Hall G. pose proof (look_kind st (NOwner c i) v Hall G) as H. destruct v as [d|t|o| |n]; try contradiction.
  exists o. tauto.
Qed.

Lemma get_class_some (st : pnft_state) c d :
  Forall entry_ok st -> get_class st c = Some d -> get (class_key c) st = Some (VClass d) /\ dn_id d = c /\ id_ok c.
Proof.
  intros Hall G. unfold get_class in G. destruct (get (class_key c) st) as [v|] eqn:E; [|discriminate].
  destruct (look_class st c v Hall E) as [d' [-> [Hid Hok]]]. injection G as ->. auto.
Qed.

Lemma get_nft_some (st : pnft_state) c i t :
  Forall entry_ok st -> get_nft st c i = Some t ->
  get (nft_key c i) st = Some (VToken t) /\ tk_class t = c /\ tk_id t = i /\ id_ok c /\ id_ok i.
Proof.
  intros Hall G. unfold get_nft in G. destruct (get (nft_key c i) st) as [v|] eqn:E; [|discriminate].
  destruct (look_token st c i v Hall E) as [t' [-> H]]. injection G as ->. auto.
Qed.

(** * the token listing under [set] / [del] *)
Definition tokf (e : bytes * nft_val) : list token := match snd e with VToken t => [t] | _ => [] end.

Lemma toc_eq (st : pnft_state) c : tokens_of_class st c = flat_map tokf (prefix_items (nft_prefix c) st).
Proof. reflexivity. Qed.

Lemma toc_app (l1 l2 : pnft_state) c : tokens_of_class (l1 ++ l2) c = tokens_of_class l1 c ++ tokens_of_class l2 c.
Proof. rewrite !toc_eq. unfold prefix_items. rewrite filter_app, flat_map_app. reflexivity. Qed.

Lemma toc_cons k v (l : pnft_state) c :
  tokens_of_class ((k, v) :: l) c = (if is_prefix (nft_prefix c) k then tokf (k, v) else []) ++ tokens_of_class l c.
Proof.
  rewrite !toc_eq. unfold prefix_items. cbn [filter fst]. destruct (is_prefix (nft_prefix c) k); reflexivity.
Qed.

Lemma prefix_items_set_other {V} p k (v : V) (st : store V) :
  is_prefix p k = false -> prefix_items p (set k v st) = prefix_items p st.
Proof.
  intros Hp. unfold prefix_items. induction st as [|[k' v'] r IH]; cbn [set filter fst].
  - rewrite Hp. reflexivity.
  - destruct (bytes_eqb k k') eqn:E.
    + apply bytes_eqb_eq in E. subst k'. cbn [filter fst]. rewrite Hp. reflexivity.
    + destruct (bytes_ltb k k'); cbn [filter fst]; [rewrite Hp; reflexivity|].
      rewrite IH. reflexivity.
Qed.

Lemma prefix_items_del_other {V} p k (st : store V) :
  is_prefix p k = false -> prefix_items p (del k st) = prefix_items p st.
Proof.
  intros Hp. unfold prefix_items. induction st as [|[k' v'] r IH]; cbn [del filter fst]; [reflexivity|].
  destruct (bytes_eqb k k') eqn:E.
  - apply bytes_eqb_eq in E. subst k'. rewrite Hp. exact IH.
  - cbn [filter fst]. rewrite IH. reflexivity.
Qed.

Lemma toc_set_other k v (st : pnft_state) c :
  is_prefix (nft_prefix c) k = false -> tokens_of_class (set k v st) c = tokens_of_class st c.
Proof. intros H. rewrite !toc_eq, (prefix_items_set_other _ _ _ _ H). reflexivity. Qed.

Lemma toc_del_other k (st : pnft_state) c :
  is_prefix (nft_prefix c) k = false -> tokens_of_class (del k st) c = tokens_of_class st c.
Proof. intros H. rewrite !toc_eq, (prefix_items_del_other _ _ _ H). reflexivity. Qed.

Lemma is_prefix_nft c c0 i0 : nn c0 -> nn i0 -> is_prefix (nft_prefix c) (nft_key c0 i0) = bytes_eqb c c0.
Proof.
  intros Hc Hi. destruct (bytes_eqb c c0) eqn:E.
  - apply bytes_eqb_eq in E. subst. unfold nft_key. apply is_prefix_app.
  - destruct (is_prefix (nft_prefix c) (nft_key c0 i0)) eqn:P; [|reflexivity].
    apply is_prefix_spec in P as [r Hr]. rewrite nft_key_eq, nft_prefix_eq in Hr. cbn [app] in Hr.
    rewrite <- app_assoc in Hr. cbn [app] in Hr. injection Hr as Hr. symmetry in Hr.
    destruct (delim_split_inj _ _ _ _ Hc Hi Hr) as [E1 _]. subst. rewrite bytes_eqb_refl in E. discriminate.
Qed.

Lemma toc_set_token (st : pnft_state) c0 i0 t c :
  get (nft_key c0 i0) st = None -> nn c0 -> nn i0 ->
  length (tokens_of_class (set (nft_key c0 i0) (VToken t) st) c) =
  (length (tokens_of_class st c) + (if bytes_eqb c c0 then 1 else 0))%nat.
Proof.
  intros G Hc Hi. destruct (Aol.Inv.set_split_absent _ (VToken t) st G) as [l1 [l2 [E1 E2]]].
  rewrite E2, E1. rewrite !toc_app, toc_cons, !app_length, (is_prefix_nft c c0 i0 Hc Hi).
  destruct (bytes_eqb c c0); cbn; lia.
Qed.

Lemma toc_del_token (st : pnft_state) c0 i0 t c :
  sorted st -> get (nft_key c0 i0) st = Some (VToken t) -> nn c0 -> nn i0 ->
  length (tokens_of_class st c) =
  (length (tokens_of_class (del (nft_key c0 i0) st) c) + (if bytes_eqb c c0 then 1 else 0))%nat.
Proof.
  intros Hs G Hc Hi. destruct (Aol.Inv.split_present _ _ st Hs G) as [l1 [l2 [E1 [_ E3]]]].
  rewrite E3, E1. rewrite !toc_app, toc_cons, !app_length, (is_prefix_nft c c0 i0 Hc Hi).
  destruct (bytes_eqb c c0); cbn; lia.
Qed.

(** a token that is present is listed *)
Lemma toc_pos (st : pnft_state) c i :
  sorted st -> Forall entry_ok st -> has (nft_key c i) st = true -> (0 < length (tokens_of_class st c))%nat.
Proof.
  intros Hs Hall H. apply has_true_get in H as [v G].
  destruct (look_token st c i v Hall G) as [t [-> [_ [_ [Hc Hi]]]]].
  pose proof (toc_del_token st c i t c Hs G (id_ok_nn _ Hc) (id_ok_nn _ Hi)) as L.
  rewrite bytes_eqb_refl in L. lia.
Qed.

(** * the invariant *)
Lemma Inv_pnft_empty : Inv_pnft [].
Proof.
  split.
  - exact I.
  - constructor.
  - intros c i H. discriminate H.
  - intros c i. reflexivity.
  - intros o c i _. split; intros H; discriminate H.
  - intros c. reflexivity.
Qed.

Lemma nonempty_neq x : nonempty x = true -> x <> [].
Proof. intros H ->. discriminate H. Qed.

Lemma vb_create_denom_id_ok unbech id name symbol creator :
  vb_create_denom unbech true id name symbol creator = Ok tt -> id_ok id.
Proof.
  unfold vb_create_denom, need, vb_err. intros H.
  destruct (nonempty id) eqn:N; cbn [bind] in H; [|discriminate H].
  cbn [andb] in H. destruct (has_nul id) eqn:Z; cbn [negb bind] in H; [discriminate H|].
  split; [apply nonempty_neq; exact N | exact Z].
Qed.

Lemma vb_mint_pnft_id_ok unbech denom_id id name creator :
  vb_mint_pnft unbech true denom_id id name creator = Ok tt -> id_ok id.
Proof.
  unfold vb_mint_pnft, need, vb_err. intros H.
  destruct (nonempty denom_id) eqn:N0; cbn [bind] in H; [|discriminate H].
  destruct (nonempty id) eqn:N; cbn [bind] in H; [|discriminate H].
  cbn [andb] in H. destruct (has_nul id) eqn:Z; cbn [negb bind] in H; [discriminate H|].
  split; [apply nonempty_neq; exact N | exact Z].
Qed.

(** ** what an accepted message did: the new state as explicit [set] / [del] *)
Lemma create_denom_ok st d st' :
  create_denom st d = Ok st' ->
  has (class_key (dn_id d)) st = false /\ st' = set (class_key (dn_id d)) (VClass d) st.
Proof.
  unfold create_denom, has_class. destruct (has (class_key (dn_id d)) st); [discriminate|].
  intros [= <-]. split; reflexivity.
Qed.

Lemma update_denom_ok st id name symbol description uri uri_hash updater data st' :
  update_denom st id name symbol description uri uri_hash updater data = Ok st' ->
  exists d d', get_class st id = Some d /\ dn_owner d = updater /\ dn_id d' = dn_id d /\ dn_owner d' = dn_owner d /\
               has (class_key (dn_id d)) st = true /\ st' = set (class_key (dn_id d)) (VClass d') st.
Proof.
  unfold update_denom. destruct (get_class st id) as [d|]; [|discriminate].
  destruct (bytes_eqb updater (dn_owner d)) eqn:E; cbn [negb]; [|discriminate].
  apply bytes_eqb_eq in E. symmetry in E. cbn [dn_id]. unfold has_class.
  destruct (has (class_key (dn_id d)) st) eqn:Hc; [|discriminate].
  intros [= <-]. eexists d, _. split; [reflexivity|]. split; [exact E|].
  refine (conj _ (conj _ (conj Hc eq_refl))); reflexivity.
Qed.

Lemma delete_denom_ok st id remover st' :
  delete_denom true st id remover = Ok st' ->
  exists d, get_class st id = Some d /\ dn_owner d = remover /\ get_supply st id = 0%N /\ st' = del (class_key id) st.
Proof.
  unfold delete_denom. destruct (get_class st id) as [d|]; [|discriminate].
  destruct (bytes_eqb remover (dn_owner d)) eqn:E; cbn [negb andb]; [|discriminate].
  apply bytes_eqb_eq in E. symmetry in E. destruct (0 <? get_supply st id)%N eqn:L; [discriminate|].
  intros [= <-]. exists d. apply N.ltb_ge in L. repeat split; auto. lia.
Qed.

Lemma transfer_denom_ok st id sender receiver st' :
  transfer_denom st id sender receiver = Ok st' ->
  exists d d', get_class st id = Some d /\ dn_owner d = sender /\ dn_id d' = dn_id d /\ dn_owner d' = receiver /\
               has (class_key (dn_id d)) st = true /\ st' = set (class_key (dn_id d)) (VClass d') st.
Proof.
  unfold transfer_denom. destruct (get_class st id) as [d|]; [|discriminate].
  destruct (bytes_eqb sender (dn_owner d)) eqn:E; cbn [negb]; [|discriminate].
  apply bytes_eqb_eq in E. symmetry in E. cbn [dn_id]. unfold has_class.
  destruct (has (class_key (dn_id d)) st) eqn:Hc; [|discriminate].
  intros [= <-]. eexists d, _. split; [reflexivity|]. split; [exact E|].
  refine (conj _ (conj _ (conj Hc eq_refl))); reflexivity.
Qed.

Lemma get_supply_set_other k v (st : pnft_state) c :
  (forall c', k <> supply_key c') -> get_supply (set k v st) c = get_supply st c.
Proof. intros H. unfold get_supply. rewrite get_set_neq; [reflexivity|]. intros E. exact (H c (eq_sym E)). Qed.

Lemma get_supply_del_other k (st : pnft_state) c :
  (forall c', k <> supply_key c') -> get_supply (del k st) c = get_supply st c.
Proof. intros H. unfold get_supply. rewrite get_del_neq; [reflexivity|]. intros E. exact (H c (eq_sym E)). Qed.

Lemma nft_mint_ok st t r st' :
  nft_mint st t r = Ok st' ->
  has (class_key (tk_class t)) st = true /\ has (nft_key (tk_class t) (tk_id t)) st = false /\
  st' = set (supply_key (tk_class t)) (VSupply (get_supply st (tk_class t) + 1))
          (set (by_owner_key r (tk_class t) (tk_id t)) VByOwner
             (set (owner_key (tk_class t) (tk_id t)) (VOwnerOf r) (set (nft_key (tk_class t) (tk_id t)) (VToken t) st))).
Proof.
  unfold nft_mint, has_class, has_nft. intros H.
  destruct (has (class_key (tk_class t)) st) eqn:Hc; cbn [negb] in H; [|discriminate H].
  destruct (has (nft_key (tk_class t) (tk_id t)) st) eqn:Hn; [discriminate H|].
  injection H as <-. split; [reflexivity|]. split; [reflexivity|].
  unfold set_owner. do 3 f_equal.
  rewrite !get_supply_set_other; [reflexivity| | |]; intros c' E;
    rewrite ?supply_key_eq, ?nft_key_eq, ?owner_key_eq, ?by_owner_key_eq in E; discriminate E.
Qed.

Lemma nft_transfer_ok st c i r st' :
  nft_transfer st c i r = Ok st' ->
  has (class_key c) st = true /\ has (nft_key c i) st = true /\
  st' = set (by_owner_key r c i) VByOwner
          (set (owner_key c i) (VOwnerOf r) (del (by_owner_key (get_owner st c i) c i) (del (owner_key c i) st))).
Proof.
  unfold nft_transfer, has_class, has_nft. intros H.
  destruct (has (class_key c) st) eqn:Hc; cbn [negb] in H; [|discriminate H].
  destruct (has (nft_key c i) st) eqn:Hn; cbn [negb] in H; [|discriminate H].
  injection H as <-. auto.
Qed.

Lemma nft_burn_ok st c i st' :
  nft_burn st c i = Ok st' ->
  has (class_key c) st = true /\ has (nft_key c i) st = true /\
  st' = set (supply_key c) (VSupply (if (get_supply st c =? 0)%N then 18446744073709551615%N else (get_supply st c - 1)%N))
          (del (by_owner_key (get_owner st c i) c i) (del (owner_key c i) (del (nft_key c i) st))).
Proof.
  unfold nft_burn, has_class, has_nft. intros H.
  destruct (has (class_key c) st) eqn:Hc; cbn [negb] in H; [|discriminate H].
  destruct (has (nft_key c i) st) eqn:Hn; cbn [negb] in H; [|discriminate H].
  injection H as <-. split; [reflexivity|]. split; [reflexivity|].
  unfold delete_owner.
  rewrite !get_supply_del_other; [reflexivity| | |]; intros c' E;
    rewrite ?supply_key_eq, ?nft_key_eq, ?owner_key_eq, ?by_owner_key_eq in E; discriminate E.
Qed.

Ltac nsup :=
  let c' := fresh "c'" in let E := fresh "E" in
  intros c' E; rewrite ?supply_key_eq, ?nft_key_eq, ?owner_key_eq, ?by_owner_key_eq, ?class_key_eq in E; discriminate E.

Lemma get_supply_set_supply c0 n (st : pnft_state) c :
  get_supply (set (supply_key c0) (VSupply n) st) c = if bytes_eqb c c0 then n else get_supply st c.
Proof.
  unfold get_supply. rewrite get_set. change (bytes_eqb (supply_key c) (supply_key c0)) with (bytes_eqb c c0).
  destruct (bytes_eqb c c0); reflexivity.
Qed.

(** writing a class entry with an accepted id (CreateDenom, UpdateDenom, TransferDenom) *)
Lemma set_class_inv st d : Inv_pnft st -> id_ok (dn_id d) -> Inv_pnft (set (class_key (dn_id d)) (VClass d) st).
Proof.
  intros HI Hid. destruct HI as [Hs He R1 R2 R3 R4]. inv_enc st R1 R2 R3.
  split.
  - apply sorted_set. exact Hs.
  - apply Aol.Inv.Forall_set; [exact He|]. split; [reflexivity | exact Hid].
  - intros c i. fold_enc. kv. intros H. rewrite (R1 c i H). apply orb_true_r.
  - intros c i. fold_enc. kv. apply R2.
  - intros o c i Ho. fold_enc. kv. apply R3. exact Ho.
  - intros c. rewrite toc_set_other by reflexivity. rewrite <- R4. apply get_supply_set_other. nsup.
Qed.

Section Steps.
  Variable unbech : bytes -> option bytes.
  Hypothesis Hunbech : unbech_wf unbech.
  Variable bech : bytes -> bytes.

  Lemma mint_pnft_ok st now denom_id id name description uri uri_hash data creator st' :
    mint_pnft unbech st now denom_id id name description uri uri_hash data creator = Ok st' ->
    exists d r, get_class st denom_id = Some d /\ dn_owner d = creator /\ unbech creator = Some r /\
      let c := dn_id d in
      let t := {| tk_class := c; tk_id := id; tk_uri := uri; tk_uri_hash := uri_hash; tk_name := name;
                  tk_description := description; tk_creator := creator; tk_created_at := now; tk_data := data |} in
      has (class_key c) st = true /\ has (nft_key c id) st = false /\
      st' = set (supply_key c) (VSupply (get_supply st c + 1))
              (set (by_owner_key r c id) VByOwner (set (owner_key c id) (VOwnerOf r) (set (nft_key c id) (VToken t) st))).
  Proof.
    unfold mint_pnft. destruct (get_class st denom_id) as [d|]; [|discriminate].
    destruct (bytes_eqb (dn_owner d) creator) eqn:E; cbn [negb]; [|discriminate].
    apply bytes_eqb_eq in E. destruct (unbech creator) as [r|]; [|discriminate].
    match goal with |- context [nft_mint st ?t r] => destruct (nft_mint st t r) as [st1| |] eqn:M end; try discriminate.
    intros [= <-]. apply nft_mint_ok in M. cbn [tk_class tk_id] in M. exists d, r. repeat split; auto; apply M.
  Qed.

  Lemma get_pnft_some st c i p :
    get_pnft bech st c i = Some p ->
    get_nft st c i = Some (p_token p) /\ p_owner p = owner_string bech (get_owner st c i).
  Proof.
    unfold get_pnft. destruct (get_nft st c i) as [t|]; [|discriminate]. intros [= <-]. split; reflexivity.
  Qed.

  Lemma transfer_pnft_ok st c i sender receiver st' :
    transfer_pnft unbech bech st c i sender receiver = Ok st' ->
    exists p r, get_pnft bech st c i = Some p /\ p_owner p = sender /\ unbech receiver = Some r /\
      has (class_key c) st = true /\ has (nft_key c i) st = true /\
      st' = set (by_owner_key r c i) VByOwner
              (set (owner_key c i) (VOwnerOf r) (del (by_owner_key (get_owner st c i) c i) (del (owner_key c i) st))).
  Proof.
    unfold transfer_pnft. destruct (get_pnft bech st c i) as [p|]; [|discriminate].
    destruct (bytes_eqb sender (p_owner p)) eqn:E; cbn [negb]; [|discriminate].
    apply bytes_eqb_eq in E. symmetry in E. destruct (unbech receiver) as [r|]; [|discriminate].
    destruct (nft_transfer st c i r) as [st1| |] eqn:T; try discriminate.
    intros [= <-]. apply nft_transfer_ok in T. exists p, r. repeat split; auto; apply T.
  Qed.

  Lemma burn_pnft_ok st c i burner st' :
    burn_pnft bech st c i burner = Ok st' ->
    exists p, get_pnft bech st c i = Some p /\ p_owner p = burner /\
      has (class_key c) st = true /\ has (nft_key c i) st = true /\
      st' = set (supply_key c) (VSupply (if (get_supply st c =? 0)%N then 18446744073709551615%N else (get_supply st c - 1)%N))
              (del (by_owner_key (get_owner st c i) c i) (del (owner_key c i) (del (nft_key c i) st))).
  Proof.
    unfold burn_pnft. destruct (get_pnft bech st c i) as [p|]; [|discriminate].
    destruct (bytes_eqb burner (p_owner p)) eqn:E; cbn [negb]; [|discriminate].
    apply bytes_eqb_eq in E. symmetry in E.
    destruct (nft_burn st c i) as [st1| |] eqn:T; try discriminate.
    intros [= <-]. apply nft_burn_ok in T. exists p. repeat split; auto; apply T.
  Qed.

  (** ** preservation *)
  Lemma create_denom_inv : forall st d st',
    Inv_pnft st -> vb_create_denom unbech true (dn_id d) (dn_name d) (dn_symbol d) (dn_owner d) = Ok tt ->
    create_denom st d = Ok st' -> Inv_pnft st'.
  Proof.
    intros st d st' HI Hvb H. apply vb_create_denom_id_ok in Hvb.
    apply create_denom_ok in H as [Hno ->]. apply set_class_inv; assumption.
  Qed.

  Lemma update_denom_inv : forall st id name symbol description uri uri_hash updater data st',
    Inv_pnft st -> update_denom st id name symbol description uri uri_hash updater data = Ok st' -> Inv_pnft st'.
  Proof.
    intros st id name symbol description uri uri_hash updater data st' HI H.
    apply update_denom_ok in H as [d [d' [Hg [Ho [Hid [Ho' [Hc ->]]]]]]].
    destruct (get_class_some st id d (ip_entries st HI) Hg) as [_ [Hd Hok]].
    rewrite <- Hid. apply set_class_inv; [exact HI|]. rewrite Hid, Hd. exact Hok.
  Qed.

  Lemma transfer_denom_inv : forall st id sender receiver st',
    Inv_pnft st -> transfer_denom st id sender receiver = Ok st' -> Inv_pnft st'.
  Proof.
    intros st id sender receiver st' HI H.
    apply transfer_denom_ok in H as [d [d' [Hg [Ho [Hid [Ho' [Hc ->]]]]]]].
    destruct (get_class_some st id d (ip_entries st HI) Hg) as [_ [Hd Hok]].
    rewrite <- Hid. apply set_class_inv; [exact HI|]. rewrite Hid, Hd. exact Hok.
  Qed.

  Lemma delete_denom_inv : forall st id remover st',
    Inv_pnft st -> delete_denom true st id remover = Ok st' -> Inv_pnft st'.
  Proof.
    intros st id remover st' HI H. apply delete_denom_ok in H as [d [Hg [Ho [Hsup ->]]]].
    destruct HI as [Hs He R1 R2 R3 R4]. inv_enc st R1 R2 R3.
    split.
    - apply sorted_del. exact Hs.
    - apply Aol.Inv.Forall_del. exact He.
    - intros c i. fold_enc. kv. intros H. rewrite (R1 c i H), andb_true_r.
      destruct (bytes_eqb c id) eqn:E; [|reflexivity]. apply bytes_eqb_eq in E. subst c. exfalso.
      pose proof (toc_pos st id i Hs He H) as P. rewrite R4 in Hsup. lia.
    - intros c i. fold_enc. kv. apply R2.
    - intros o c i Hvo. fold_enc. kv. apply R3. exact Hvo.
    - intros c. rewrite toc_del_other by reflexivity. rewrite <- R4. apply get_supply_del_other. nsup.
  Qed.

  Lemma mint_pnft_inv : forall st now denom_id id name description uri uri_hash data creator st',
    Inv_pnft st -> vb_mint_pnft unbech true denom_id id name creator = Ok tt ->
    mint_pnft unbech st now denom_id id name description uri uri_hash data creator = Ok st' -> Inv_pnft st'.
  Proof.
    intros st now denom_id id name description uri uri_hash data creator st' HI Hvb H.
    apply vb_mint_pnft_id_ok in Hvb.
    apply mint_pnft_ok in H as [d [r [Hg [Ho [Hr H]]]]]. cbv zeta in H. destruct H as [Hc [Hn ->]].
    destruct HI as [Hs He R1 R2 R3 R4]. inv_enc st R1 R2 R3.
    destruct (get_class_some st denom_id d He Hg) as [_ [Hd Hok]]. rewrite <- Hd in Hok.
    set (c := dn_id d) in *. clearbody c.
    pose proof (id_ok_nn _ Hok) as Hnc. pose proof (id_ok_nn _ Hvb) as Hni.
    pose proof (Hunbech _ _ Hr) as Hvr.
    split.
    - repeat apply sorted_set. exact Hs.
    - apply Aol.Inv.Forall_set; [apply Aol.Inv.Forall_set; [apply Aol.Inv.Forall_set; [apply Aol.Inv.Forall_set; [exact He|]|]|]|].
      + unfold entry_ok. cbn [fst snd tk_class tk_id]. auto.
      + exists c, id. auto.
      + exists r, c, id. auto.
      + exists c. auto.
    - intros c' i'. fold_enc. kv. intros H.
      destruct (bytes_eqb c' c) eqn:E.
      + apply bytes_eqb_eq in E. subst c'. exact Hc.
      + cbn [andb orb] in H. apply R1 in H. exact H.
    - intros c' i'. fold_enc. kv. rewrite R2. reflexivity.
    - intros o' c' i' Ho'. fold_enc. kv.
      destruct (bytes_eqb c' c) eqn:Ec; [destruct (bytes_eqb i' id) eqn:Ei|]; cbn [andb];
        try (rewrite andb_false_r; cbn [orb]; apply R3; exact Ho').
      apply bytes_eqb_eq in Ec. apply bytes_eqb_eq in Ei. subst c' i'.
      assert (Hb : has (enc (NByOwner o' c id)) st = false).
      { destruct (has (enc (NByOwner o' c id)) st) eqn:B; [|reflexivity].
        apply R3 in B; [|exact Ho']. apply get_has_true in B. rewrite R2 in B. fold_enc. congruence. }
      rewrite Hb, orb_false_r, andb_true_r. split; intros H.
      * apply bytes_eqb_eq in H. subst. reflexivity.
      * injection H as ->. apply bytes_eqb_refl.
    - intros c'. rewrite !toc_set_other by reflexivity.
      rewrite toc_set_token by (auto using has_false_get).
      rewrite get_supply_set_supply. rewrite !get_supply_set_other by nsup.
      rewrite !R4. destruct (bytes_eqb c' c) eqn:E; [apply bytes_eqb_eq in E; subst c'|]; lia.
  Qed.

  Lemma transfer_pnft_inv : forall st denom_id id sender receiver st',
    Inv_pnft st -> transfer_pnft unbech bech st denom_id id sender receiver = Ok st' -> Inv_pnft st'.
  Proof.
    intros st c i sender receiver st' HI H.
    apply transfer_pnft_ok in H as [p [r [Hp [Hsender [Hr [Hc [Hn ->]]]]]]].
    destruct HI as [Hs He R1 R2 R3 R4]. inv_enc st R1 R2 R3.
    destruct (has_true_get _ _ Hn) as [v Gv].
    destruct (look_token st c i v He Gv) as [t [-> [_ [_ [Hokc Hoki]]]]].
    pose proof (id_ok_nn _ Hokc) as Hnc. pose proof (id_ok_nn _ Hoki) as Hni.
    pose proof (Hunbech _ _ Hr) as Hvr.
    assert (Hown : has (owner_key c i) st = true) by (fold_enc; rewrite R2; exact Hn).
    destruct (has_true_get _ _ Hown) as [vo Go].
    destruct (look_owner st c i vo He Go) as [o [-> [Hvo _]]].
    assert (Hgo : get_owner st c i = o) by (unfold get_owner; rewrite Go; reflexivity).
    rewrite Hgo.
    split.
    - apply sorted_set, sorted_set, sorted_del, sorted_del. exact Hs.
    - apply Aol.Inv.Forall_set; [apply Aol.Inv.Forall_set; [apply Aol.Inv.Forall_del, Aol.Inv.Forall_del; exact He|]|].
      + exists c, i. auto.
      + exists r, c, i. auto.
    - intros c' i'. fold_enc. kv. apply R1.
    - intros c' i'. fold_enc. kv.
      destruct (bytes_eqb c' c) eqn:Ec; [destruct (bytes_eqb i' i) eqn:Ei|]; cbn [andb orb negb]; try apply R2.
      apply bytes_eqb_eq in Ec. apply bytes_eqb_eq in Ei. subst c' i'. symmetry. exact Hn.
    - intros o' c' i' Ho'. fold_enc. kv.
      destruct (bytes_eqb c' c) eqn:Ec; [destruct (bytes_eqb i' i) eqn:Ei|]; cbn [andb];
        try (rewrite !andb_false_r; cbn [orb negb andb]; apply R3; exact Ho').
      apply bytes_eqb_eq in Ec. apply bytes_eqb_eq in Ei. subst c' i'. rewrite !andb_true_r.
      destruct (bytes_eqb o' r) eqn:Er; cbn [orb].
      + apply bytes_eqb_eq in Er. subst o'. tauto.
      + apply bytes_eqb_neq in Er. split; intros H; [|injection H as H; congruence].
        exfalso. apply andb_true_iff in H as [H1 H2]. apply R3 in H2; [|exact Ho'].
        fold_enc. rewrite Go in H2. injection H2 as ->. rewrite bytes_eqb_refl in H1. discriminate H1.
    - intros c'. rewrite !toc_set_other by reflexivity. rewrite !toc_del_other by reflexivity.
      rewrite !get_supply_set_other by nsup. rewrite !get_supply_del_other by nsup. apply R4.
  Qed.

  Lemma burn_pnft_inv : forall st denom_id id burner st',
    Inv_pnft st -> burn_pnft bech st denom_id id burner = Ok st' -> Inv_pnft st'.
  Proof.
    intros st c i burner st' HI H.
    apply burn_pnft_ok in H as [p [Hp [Hburner [Hc [Hn ->]]]]].
    destruct HI as [Hs He R1 R2 R3 R4]. inv_enc st R1 R2 R3.
    destruct (has_true_get _ _ Hn) as [v Gv].
    destruct (look_token st c i v He Gv) as [t [-> [_ [_ [Hokc Hoki]]]]].
    pose proof (id_ok_nn _ Hokc) as Hnc. pose proof (id_ok_nn _ Hoki) as Hni.
    assert (Hown : has (owner_key c i) st = true) by (fold_enc; rewrite R2; exact Hn).
    destruct (has_true_get _ _ Hown) as [vo Go].
    destruct (look_owner st c i vo He Go) as [o [-> [Hvo _]]].
    assert (Hgo : get_owner st c i = o) by (unfold get_owner; rewrite Go; reflexivity).
    rewrite Hgo.
    split.
    - apply sorted_set, sorted_del, sorted_del, sorted_del. exact Hs.
    - apply Aol.Inv.Forall_set; [apply Aol.Inv.Forall_del, Aol.Inv.Forall_del, Aol.Inv.Forall_del; exact He|].
      exists c. auto.
    - intros c' i'. fold_enc. kv. intros H. apply andb_true_iff in H as [_ H]. apply R1 in H. exact H.
    - intros c' i'. fold_enc. kv. rewrite R2. reflexivity.
    - intros o' c' i' Ho'. fold_enc. kv.
      destruct (bytes_eqb c' c) eqn:Ec; [destruct (bytes_eqb i' i) eqn:Ei|]; cbn [andb];
        try (rewrite !andb_false_r; cbn [orb negb andb]; apply R3; exact Ho').
      apply bytes_eqb_eq in Ec. apply bytes_eqb_eq in Ei. subst c' i'. rewrite !andb_true_r.
      split; intros H; [|discriminate H]. exfalso.
      apply andb_true_iff in H as [H1 H2]. apply R3 in H2; [|exact Ho'].
      fold_enc. rewrite Go in H2. injection H2 as ->. rewrite bytes_eqb_refl in H1. discriminate H1.
    - intros c'. rewrite toc_set_other by reflexivity. rewrite !toc_del_other by reflexivity.
      pose proof (toc_del_token st c i t c' Hs Gv Hnc Hni) as L.
      rewrite get_supply_set_supply. rewrite !get_supply_del_other by nsup.
      rewrite !R4.
      destruct (bytes_eqb c' c) eqn:E; [apply bytes_eqb_eq in E; subst c'|]; [|lia].
      destruct (N.of_nat (length (tokens_of_class st c)) =? 0)%N eqn:Z; [apply N.eqb_eq in Z|apply N.eqb_neq in Z]; lia.
  Qed.

  (** ** C06: who may act -- an accepted request comes from the stored owner (string comparison) *)
  Lemma create_denom_effect : forall st d st',
    create_denom st d = Ok st' -> get_class st (dn_id d) = None /\ get_class st' (dn_id d) = Some d.
  Proof.
    intros st d st' H. apply create_denom_ok in H as [Hno ->]. unfold get_class.
    rewrite (has_false_get _ _ Hno), get_set_eq. split; reflexivity.
  Qed.

  Lemma update_denom_owner : forall st id name symbol description uri uri_hash updater data st',
    update_denom st id name symbol description uri uri_hash updater data = Ok st' ->
    exists dn, get_class st id = Some dn /\ dn_owner dn = updater.
  Proof.
    intros st id name symbol description uri uri_hash updater data st' H.
    apply update_denom_ok in H as [d [d' [Hg [Ho _]]]]. exists d. auto.
  Qed.

  Lemma delete_denom_owner : forall st id remover st',
    delete_denom true st id remover = Ok st' ->
    exists dn, get_class st id = Some dn /\ dn_owner dn = remover /\ get_supply st id = 0%N.
  Proof.
    intros st id remover st' H. apply delete_denom_ok in H as [d [Hg [Ho [Hsup _]]]]. exists d. auto.
  Qed.

  Lemma transfer_denom_owner : forall st id sender receiver st',
    Inv_pnft st -> transfer_denom st id sender receiver = Ok st' ->
    exists dn, get_class st id = Some dn /\ dn_owner dn = sender /\
    exists dn', get_class st' id = Some dn' /\ dn_owner dn' = receiver.
  Proof.
    intros st id sender receiver st' HI H.
    apply transfer_denom_ok in H as [d [d' [Hg [Ho [Hid [Ho' [Hc ->]]]]]]].
    destruct (get_class_some st id d (ip_entries st HI) Hg) as [_ [Hd _]].
    exists d. split; [exact Hg|]. split; [exact Ho|]. exists d'. split; [|exact Ho'].
    unfold get_class. rewrite Hd, get_set_eq. reflexivity.
  Qed.

  Lemma mint_pnft_owner : forall st now denom_id id name description uri uri_hash data creator st',
    mint_pnft unbech st now denom_id id name description uri uri_hash data creator = Ok st' ->
    exists dn r, get_class st denom_id = Some dn /\ dn_owner dn = creator /\ unbech creator = Some r /\
      get_nft st (dn_id dn) id = None /\
      get_nft st' (dn_id dn) id =
        Some {| tk_class := dn_id dn; tk_id := id; tk_uri := uri; tk_uri_hash := uri_hash; tk_name := name;
                tk_description := description; tk_creator := creator; tk_created_at := now; tk_data := data |} /\
      get_owner st' (dn_id dn) id = r.
  Proof.
    intros st now denom_id id name description uri uri_hash data creator st' H.
    apply mint_pnft_ok in H as [d [r [Hg [Ho [Hr H]]]]]. cbv zeta in H. destruct H as [Hc [Hn ->]].
    exists d, r. split; [exact Hg|]. split; [exact Ho|]. split; [exact Hr|].
    split; [unfold get_nft; rewrite (has_false_get _ _ Hn); reflexivity|].
    split.
    - unfold get_nft. fold_enc. kv. rewrite get_set_eq. reflexivity.
    - unfold get_owner. fold_enc. kv. rewrite get_set_eq. reflexivity.
  Qed.

  (** with the invariant a denom is stored under its own id (so [dn_id dn] above is [denom_id]) *)
  Lemma get_class_id : forall st id dn, Inv_pnft st -> get_class st id = Some dn -> dn_id dn = id /\ id_ok id.
  Proof. intros st id dn HI Hg. apply (get_class_some st id dn (ip_entries st HI) Hg). Qed.

  Lemma transfer_pnft_owner : forall st c i sender receiver st',
    transfer_pnft unbech bech st c i sender receiver = Ok st' ->
    exists p r, get_pnft bech st c i = Some p /\ p_owner p = sender /\ unbech receiver = Some r /\
                get_owner st' c i = r.
  Proof.
    intros st c i sender receiver st' H.
    apply transfer_pnft_ok in H as [p [r [Hp [Hsender [Hr [Hc [Hn ->]]]]]]].
    exists p, r. split; [exact Hp|]. split; [exact Hsender|]. split; [exact Hr|].
    unfold get_owner. fold_enc. kv. rewrite get_set_eq. reflexivity.
  Qed.

  Lemma burn_pnft_owner : forall st c i burner st',
    burn_pnft bech st c i burner = Ok st' -> exists p, get_pnft bech st c i = Some p /\ p_owner p = burner.
  Proof.
    intros st c i burner st' H. apply burn_pnft_ok in H as [p [Hp [Hb _]]]. exists p. auto.
  Qed.

  (** ** C06: ownership changes only through those messages *)
  (** *** denom owners *)
  Lemma create_denom_owner_frame : forall st d st',
    create_denom st d = Ok st' -> forall id', id' <> dn_id d -> denom_owner st' id' = denom_owner st id'.
  Proof.
    intros st d st' H id' Hne. apply create_denom_ok in H as [_ ->].
    unfold denom_owner, get_class. fold_enc. kv. apply bytes_eqb_neq in Hne. rewrite Hne. reflexivity.
  Qed.

  Lemma update_denom_keeps_owners : forall st id name symbol description uri uri_hash updater data st',
    Inv_pnft st -> update_denom st id name symbol description uri uri_hash updater data = Ok st' ->
    forall id', denom_owner st' id' = denom_owner st id'.
  Proof.
    intros st id name symbol description uri uri_hash updater data st' HI H id'.
    apply update_denom_ok in H as [d [d' [Hg [Ho [Hid [Ho' [Hc ->]]]]]]].
    destruct (get_class_some st id d (ip_entries st HI) Hg) as [_ [Hd _]].
    unfold denom_owner at 1. unfold get_class. fold_enc. kv.
    destruct (bytes_eqb id' (dn_id d)) eqn:E; [|reflexivity].
    apply bytes_eqb_eq in E. subst id'. unfold denom_owner. rewrite Hd, Hg, Ho'. reflexivity.
  Qed.

  Lemma delete_denom_owner_frame : forall st id remover st',
    delete_denom true st id remover = Ok st' -> forall id', id' <> id -> denom_owner st' id' = denom_owner st id'.
  Proof.
    intros st id remover st' H id' Hne. apply delete_denom_ok in H as [d [_ [_ [_ ->]]]].
    unfold denom_owner, get_class. fold_enc. kv. apply bytes_eqb_neq in Hne. rewrite Hne. reflexivity.
  Qed.

  Lemma transfer_denom_owner_frame : forall st id sender receiver st',
    Inv_pnft st -> transfer_denom st id sender receiver = Ok st' ->
    forall id', id' <> id -> denom_owner st' id' = denom_owner st id'.
  Proof.
    intros st id sender receiver st' HI H id' Hne.
    apply transfer_denom_ok in H as [d [d' [Hg [Ho [Hid [Ho' [Hc ->]]]]]]].
    destruct (get_class_some st id d (ip_entries st HI) Hg) as [_ [Hd _]].
    unfold denom_owner, get_class. fold_enc. kv. rewrite Hd. apply bytes_eqb_neq in Hne. rewrite Hne. reflexivity.
  Qed.

  Lemma mint_pnft_keeps_denom_owners : forall st now denom_id id name description uri uri_hash data creator st',
    mint_pnft unbech st now denom_id id name description uri uri_hash data creator = Ok st' ->
    forall id', denom_owner st' id' = denom_owner st id'.
  Proof.
    intros st now denom_id id name description uri uri_hash data creator st' H id'.
    apply mint_pnft_ok in H as [d [r [_ [_ [_ H]]]]]. cbv zeta in H. destruct H as [_ [_ ->]].
    unfold denom_owner, get_class. fold_enc. kv. reflexivity.
  Qed.

  Lemma transfer_pnft_keeps_denom_owners : forall st c i sender receiver st',
    transfer_pnft unbech bech st c i sender receiver = Ok st' -> forall id', denom_owner st' id' = denom_owner st id'.
  Proof.
    intros st c i sender receiver st' H id'.
    apply transfer_pnft_ok in H as [p [r [_ [_ [_ [_ [_ ->]]]]]]].
    unfold denom_owner, get_class. fold_enc. kv. reflexivity.
  Qed.

  Lemma burn_pnft_keeps_denom_owners : forall st c i burner st',
    burn_pnft bech st c i burner = Ok st' -> forall id', denom_owner st' id' = denom_owner st id'.
  Proof.
    intros st c i burner st' H id'. apply burn_pnft_ok in H as [p [_ [_ [_ [_ ->]]]]].
    unfold denom_owner, get_class. fold_enc. kv. reflexivity.
  Qed.

  (** *** token owners *)
  Lemma create_denom_keeps_token_owners : forall st d st',
    create_denom st d = Ok st' -> forall c' i', get_owner st' c' i' = get_owner st c' i'.
  Proof.
    intros st d st' H c' i'. apply create_denom_ok in H as [_ ->]. unfold get_owner. fold_enc. kv. reflexivity.
  Qed.

  Lemma update_denom_keeps_token_owners : forall st id name symbol description uri uri_hash updater data st',
    update_denom st id name symbol description uri uri_hash updater data = Ok st' ->
    forall c' i', get_owner st' c' i' = get_owner st c' i'.
  Proof.
    intros st id name symbol description uri uri_hash updater data st' H c' i'.
    apply update_denom_ok in H as [d [d' [_ [_ [_ [_ [_ ->]]]]]]]. unfold get_owner. fold_enc. kv. reflexivity.
  Qed.

  Lemma delete_denom_keeps_token_owners : forall st id remover st',
    delete_denom true st id remover = Ok st' -> forall c' i', get_owner st' c' i' = get_owner st c' i'.
  Proof.
    intros st id remover st' H c' i'. apply delete_denom_ok in H as [d [_ [_ [_ ->]]]].
    unfold get_owner. fold_enc. kv. reflexivity.
  Qed.

  Lemma transfer_denom_keeps_token_owners : forall st id sender receiver st',
    transfer_denom st id sender receiver = Ok st' -> forall c' i', get_owner st' c' i' = get_owner st c' i'.
  Proof.
    intros st id sender receiver st' H c' i'.
    apply transfer_denom_ok in H as [d [d' [_ [_ [_ [_ [_ ->]]]]]]]. unfold get_owner. fold_enc. kv. reflexivity.
  Qed.

  Lemma mint_pnft_token_owner_frame : forall st now denom_id id name description uri uri_hash data creator st',
    Inv_pnft st -> mint_pnft unbech st now denom_id id name description uri uri_hash data creator = Ok st' ->
    forall c' i', id_ok c' -> id_ok i' -> (c', i') <> (denom_id, id) -> get_owner st' c' i' = get_owner st c' i'.
  Proof.
    intros st now denom_id id name description uri uri_hash data creator st' HI H c' i' Hc' Hi' Hne.
    apply mint_pnft_ok in H as [d [r [Hg [_ [_ H]]]]]. cbv zeta in H. destruct H as [_ [_ ->]].
    destruct (get_class_some st denom_id d (ip_entries st HI) Hg) as [_ [Hd _]]. rewrite Hd.
    pose proof (id_ok_nn _ Hc') as Hnc. pose proof (id_ok_nn _ Hi') as Hni.
    unfold get_owner. fold_enc. kv.
    destruct (bytes_eqb c' denom_id) eqn:Ec; [destruct (bytes_eqb i' id) eqn:Ei|]; cbn [andb]; try reflexivity.
    apply bytes_eqb_eq in Ec. apply bytes_eqb_eq in Ei. subst. contradiction Hne; reflexivity.
  Qed.

  Lemma transfer_pnft_token_owner_frame : forall st c i sender receiver st',
    Inv_pnft st -> transfer_pnft unbech bech st c i sender receiver = Ok st' ->
    forall c' i', (c', i') <> (c, i) -> get_owner st' c' i' = get_owner st c' i'.
  Proof.
    intros st c i sender receiver st' HI H c' i' Hne.
    apply transfer_pnft_ok in H as [p [r [_ [_ [_ [_ [Hn ->]]]]]]].
    destruct (has_true_get _ _ Hn) as [v Gv].
    destruct (look_token st c i v (ip_entries st HI) Gv) as [t [-> [_ [_ [Hokc Hoki]]]]].
    pose proof (id_ok_nn _ Hokc) as Hnc. pose proof (id_ok_nn _ Hoki) as Hni.
    unfold get_owner at 1 2. fold_enc. kv.
    destruct (bytes_eqb c' c) eqn:Ec; [destruct (bytes_eqb i' i) eqn:Ei|]; cbn [andb]; try reflexivity.
    apply bytes_eqb_eq in Ec. apply bytes_eqb_eq in Ei. subst. contradiction Hne; reflexivity.
  Qed.

  Lemma burn_pnft_token_owner_frame : forall st c i burner st',
    Inv_pnft st -> burn_pnft bech st c i burner = Ok st' ->
    forall c' i', (c', i') <> (c, i) -> get_owner st' c' i' = get_owner st c' i'.
  Proof.
    intros st c i burner st' HI H c' i' Hne.
    apply burn_pnft_ok in H as [p [_ [_ [_ [Hn ->]]]]].
    destruct (has_true_get _ _ Hn) as [v Gv].
    destruct (look_token st c i v (ip_entries st HI) Gv) as [t [-> [_ [_ [Hokc Hoki]]]]].
    pose proof (id_ok_nn _ Hokc) as Hnc. pose proof (id_ok_nn _ Hoki) as Hni.
    unfold get_owner at 1 3. fold_enc. kv.
    destruct (bytes_eqb c' c) eqn:Ec; [destruct (bytes_eqb i' i) eqn:Ei|]; cbn [andb]; try reflexivity.
    apply bytes_eqb_eq in Ec. apply bytes_eqb_eq in Ei. subst. contradiction Hne; reflexivity.
  Qed.

  (** ** C12: tokens are unique and immutable *)
  Lemma mint_existing_fails : forall st denom_id id,
    Inv_pnft st -> get_nft st denom_id id <> None ->
    forall now name description uri uri_hash data creator,
      mint_pnft unbech st now denom_id id name description uri uri_hash data creator = Err cs_pnft 6.
  Proof.
    intros st denom_id id HI Hex now name description uri uri_hash data creator.
    unfold mint_pnft. destruct (get_class st denom_id) as [d|] eqn:Hg; [|reflexivity].
    destruct (negb (bytes_eqb (dn_owner d) creator)); [reflexivity|].
    destruct (unbech creator) as [r|]; [|reflexivity].
    destruct (get_class_some st denom_id d (ip_entries st HI) Hg) as [_ [Hd _]].
    unfold nft_mint. cbn [tk_class tk_id]. rewrite Hd.
    destruct (negb (has_class st denom_id)); [reflexivity|].
    assert (Hh : has_nft st denom_id id = true).
    { unfold has_nft, has. unfold get_nft in Hex. destruct (get (nft_key denom_id id) st); [reflexivity|].
      contradiction Hex; reflexivity. }
    rewrite Hh. reflexivity.
  Qed.

  Lemma create_denom_tokens_immutable : forall st d st',
    create_denom st d = Ok st' -> forall c i, get_nft st' c i = get_nft st c i.
  Proof.
    intros st d st' H c i. apply create_denom_ok in H as [_ ->]. unfold get_nft. fold_enc. kv. reflexivity.
  Qed.

  Lemma update_denom_tokens_immutable : forall st id name symbol description uri uri_hash updater data st',
    update_denom st id name symbol description uri uri_hash updater data = Ok st' ->
    forall c i, get_nft st' c i = get_nft st c i.
  Proof.
    intros st id name symbol description uri uri_hash updater data st' H c i.
    apply update_denom_ok in H as [d [d' [_ [_ [_ [_ [_ ->]]]]]]]. unfold get_nft. fold_enc. kv. reflexivity.
  Qed.

  Lemma delete_denom_tokens_immutable : forall st id remover st',
    delete_denom true st id remover = Ok st' -> forall c i, get_nft st' c i = get_nft st c i.
  Proof.
    intros st id remover st' H c i. apply delete_denom_ok in H as [d [_ [_ [_ ->]]]].
    unfold get_nft. fold_enc. kv. reflexivity.
  Qed.

  Lemma transfer_denom_tokens_immutable : forall st id sender receiver st',
    transfer_denom st id sender receiver = Ok st' -> forall c i, get_nft st' c i = get_nft st c i.
  Proof.
    intros st id sender receiver st' H c i.
    apply transfer_denom_ok in H as [d [d' [_ [_ [_ [_ [_ ->]]]]]]]. unfold get_nft. fold_enc. kv. reflexivity.
  Qed.

  Lemma mint_pnft_tokens_immutable : forall st now denom_id id name description uri uri_hash data creator st',
    Inv_pnft st -> mint_pnft unbech st now denom_id id name description uri uri_hash data creator = Ok st' ->
    forall c i t, get_nft st c i = Some t -> get_nft st' c i = Some t.
  Proof.
    intros st now denom_id id name description uri uri_hash data creator st' HI H c i t Ht.
    apply mint_pnft_ok in H as [d [r [_ [_ [_ H]]]]]. cbv zeta in H. destruct H as [_ [Hn ->]].
    destruct (get_nft_some st c i t (ip_entries st HI) Ht) as [Gt [_ [_ [Hokc Hoki]]]].
    pose proof (id_ok_nn _ Hokc) as Hnc. pose proof (id_ok_nn _ Hoki) as Hni.
    unfold get_nft. fold_enc. kv.
    destruct (bytes_eqb c (dn_id d)) eqn:Ec; [destruct (bytes_eqb i id) eqn:Ei|]; cbn [andb]; try (rewrite Gt; reflexivity).
    apply bytes_eqb_eq in Ec. apply bytes_eqb_eq in Ei. subst c i.
    apply has_false_get in Hn. congruence.
  Qed.

  Lemma transfer_pnft_tokens_immutable : forall st c0 i0 sender receiver st',
    transfer_pnft unbech bech st c0 i0 sender receiver = Ok st' -> forall c i, get_nft st' c i = get_nft st c i.
  Proof.
    intros st c0 i0 sender receiver st' H c i.
    apply transfer_pnft_ok in H as [p [r [_ [_ [_ [_ [_ ->]]]]]]]. unfold get_nft. fold_enc. kv. reflexivity.
  Qed.

  (** a burn removes exactly the named token *)
  Lemma burn_pnft_tokens : forall st c0 i0 burner st',
    Inv_pnft st -> burn_pnft bech st c0 i0 burner = Ok st' ->
    get_nft st' c0 i0 = None /\ forall c i, (c, i) <> (c0, i0) -> get_nft st' c i = get_nft st c i.
  Proof.
    intros st c0 i0 burner st' HI H.
    apply burn_pnft_ok in H as [p [_ [_ [_ [Hn ->]]]]].
    destruct (has_true_get _ _ Hn) as [v Gv].
    destruct (look_token st c0 i0 v (ip_entries st HI) Gv) as [t [-> [_ [_ [Hokc Hoki]]]]].
    pose proof (id_ok_nn _ Hokc) as Hnc. pose proof (id_ok_nn _ Hoki) as Hni.
    split.
    - unfold get_nft. fold_enc. kv. rewrite !bytes_eqb_refl. reflexivity.
    - intros c i Hne. unfold get_nft. fold_enc. kv.
      destruct (bytes_eqb c c0) eqn:Ec; [destruct (bytes_eqb i i0) eqn:Ei|]; cbn [andb]; try reflexivity.
      apply bytes_eqb_eq in Ec. apply bytes_eqb_eq in Ei. subst. contradiction Hne; reflexivity.
  Qed.

  Lemma burn_pnft_tokens_immutable : forall st c0 i0 burner st',
    Inv_pnft st -> burn_pnft bech st c0 i0 burner = Ok st' ->
    forall c i t, get_nft st c i = Some t ->
      get_nft st' c i = Some t \/ ((c, i) = (c0, i0) /\ get_nft st' c i = None).
  Proof.
    intros st c0 i0 burner st' HI H c i t Ht. destruct (burn_pnft_tokens st c0 i0 burner st' HI H) as [Hb Hf].
    destruct (bytes_eq_dec c c0) as [Ec|Ec]; [destruct (bytes_eq_dec i i0) as [Ei|Ei]|].
    - subst. right. split; [reflexivity | exact Hb].
    - left. rewrite Hf; [exact Ht|]. intros E. injection E as _ E. contradiction.
    - left. rewrite Hf; [exact Ht|]. intros E. injection E as E _. contradiction.
  Qed.

  (** ** C12: every token belongs to an existing denom, under the ids it is stored by *)
  Lemma token_has_denom : forall st, Inv_pnft st -> forall c i t,
    get_nft st c i = Some t -> has_class st c = true /\ tk_class t = c /\ tk_id t = i /\ id_ok c /\ id_ok i.
  Proof.
    intros st HI c i t Ht. destruct (get_nft_some st c i t (ip_entries st HI) Ht) as [Gt [Hc [Hi [Hokc Hoki]]]].
    split; [|auto]. unfold has_class. apply (ip_token_class st HI c i). apply (get_has_true _ _ _ Gt).
  Qed.

  (** a token has a well-formed owner, and the by-owner index points at it *)
  Lemma token_has_owner : forall st, Inv_pnft st -> forall c i t,
    get_nft st c i = Some t ->
    verify_address_format (get_owner st c i) = true /\ has (by_owner_key (get_owner st c i) c i) st = true.
  Proof.
    intros st HI c i t Ht. destruct (get_nft_some st c i t (ip_entries st HI) Ht) as [Gt _].
    pose proof (get_has_true _ _ _ Gt) as Hn. rewrite <- (ip_token_owner st HI) in Hn.
    destruct (has_true_get _ _ Hn) as [vo Go].
    destruct (look_owner st c i vo (ip_entries st HI) Go) as [o [-> [Hvo _]]].
    unfold get_owner. rewrite Go. split; [exact Hvo|]. apply (ip_by_owner st HI o c i Hvo). exact Go.
  Qed.

  (** ** C12: the supply counter is the number of tokens of the class *)
  Lemma supply_is_count : forall st, Inv_pnft st -> forall c,
    get_supply st c = N.of_nat (length (tokens_of_class st c)).
  Proof. intros st HI c. apply (ip_supply st HI). Qed.

  (** the listing of a class contains exactly the tokens stored under that class *)
  Lemma tokens_of_class_spec : forall st, Inv_pnft st -> forall c t,
    In t (tokens_of_class st c) <-> (tk_class t = c /\ get_nft st c (tk_id t) = Some t).
  Proof.
    intros st HI c t. rewrite toc_eq. unfold prefix_items. rewrite in_flat_map. split.
    - intros [[k v] [Hin Ht]]. apply filter_In in Hin as [Hin Hp]. cbn [fst] in Hp.
      unfold tokf in Ht. cbn [snd] in Ht. destruct v as [d|t'|o| |n]; try contradiction.
      destruct Ht as [<-|[]].
      pose proof (ip_entries st HI) as He. rewrite Forall_forall in He. specialize (He _ Hin).
      unfold entry_ok in He. cbn [fst snd] in He. destruct He as [-> [Hokc Hoki]].
      rewrite (is_prefix_nft c _ _ (id_ok_nn _ Hokc) (id_ok_nn _ Hoki)) in Hp. apply bytes_eqb_eq in Hp. subst c.
      split; [reflexivity|]. unfold get_nft. rewrite (In_get _ _ _ (ip_sorted st HI) Hin). reflexivity.
    - intros [Hc Ht]. destruct (get_nft_some st c (tk_id t) t (ip_entries st HI) Ht) as [Gt _].
      exists (nft_key c (tk_id t), VToken t). split; [|left; reflexivity].
      apply filter_In. split; [apply get_In; exact Gt|]. cbn [fst]. unfold nft_key. apply is_prefix_app.
  Qed.
End Steps.

Print Assumptions nft_key_inj.
Print Assumptions owner_key_inj.
Print Assumptions nft_key_alias_example.
Print Assumptions Inv_pnft_empty.
Print Assumptions create_denom_inv.
Print Assumptions update_denom_inv.
Print Assumptions delete_denom_inv.
Print Assumptions transfer_denom_inv.
Print Assumptions mint_pnft_inv.
Print Assumptions transfer_pnft_inv.
Print Assumptions burn_pnft_inv.
Print Assumptions transfer_denom_owner.
Print Assumptions mint_pnft_owner.
Print Assumptions transfer_pnft_owner.
Print Assumptions burn_pnft_owner.
Print Assumptions update_denom_keeps_owners.
Print Assumptions transfer_denom_owner_frame.
Print Assumptions mint_pnft_token_owner_frame.
Print Assumptions transfer_pnft_token_owner_frame.
Print Assumptions burn_pnft_token_owner_frame.
Print Assumptions mint_existing_fails.
Print Assumptions mint_pnft_tokens_immutable.
Print Assumptions burn_pnft_tokens_immutable.
Print Assumptions token_has_denom.
Print Assumptions token_has_owner.
Print Assumptions supply_is_count.
Print Assumptions tokens_of_class_spec.
