(** C12: every PNFT listing agrees with the single-item view.  The tokens of a denom, the tokens of a
    denom held by an owner, all denoms and the denoms of an owner each return exactly the matching items,
    each once; the supply counter is the length of the token listing; the paginated Denoms query pages
    over the class prefix store and yields every denom exactly once. *)
From Coq Require Import Strings.String Strings.Byte.
From Coq Require Import List Arith NArith ZArith Bool Lia Sorted.
From PV Require Import Base.Bytes Base.Outcome Base.KV.
From PV Require Import Compkey.Model Aol.Spec.
From PV Require Import Pnft.Model Pnft.Spec Pnft.Inv.
From PV Require Import Aol.Query.
From PV Require Aol.Listing Pagination.Model Pagination.Proofs.
From PV Require Generated.GenNft.
Import ListNotations.

(** * generic list facts *)

(** a listing that produces at most one item per store entry, where each item determines the key of
    its entry, has no duplicates (the store keys are strictly ascending) *)
Lemma flat_map_NoDup {V A} (F : bytes * V -> list A) (K : A -> bytes) (l : store V) :
  sorted l ->
  (forall e a, In e l -> In a (F e) -> F e = [a] /\ K a = fst e) ->
  NoDup (map K (flat_map F l)).
Proof.
  induction l as [|[k v] r IH]; intros Hs HF; cbn [flat_map map]; [constructor|].
  assert (IHr : NoDup (map K (flat_map F r))).
  { apply IH; [exact (sorted_tail _ _ Hs)|]. intros e a He Ha. apply HF; [right; exact He | exact Ha]. }
  destruct (F (k, v)) as [|a l0] eqn:EF; [exact IHr|].
  destruct (HF (k, v) a (or_introl eq_refl)) as [E1 E2]; [rewrite EF; left; reflexivity|].
  rewrite EF in E1. injection E1 as ->. cbn [app map fst] in *. constructor; [|exact IHr].
  intros Hin. apply in_map_iff in Hin as [a' [Ea' Hin]]. apply in_flat_map in Hin as [[k' v'] [He' Ha']].
  destruct (HF (k', v') a' (or_intror He') Ha') as [_ E3]. cbn [fst] in E3.
  pose proof (sorted_all_gt k v r Hs k' v' He') as Hlt.
  rewrite <- E3, Ea', E2, bytes_ltb_irrefl in Hlt. discriminate Hlt.
Qed.

Lemma NoDup_map_filter {A B} (f : A -> B) (g : A -> bool) (l : list A) :
  NoDup (map f l) -> NoDup (map f (filter g l)).
Proof.
  induction l as [|a l IH]; intros H; cbn [filter map]; [constructor|].
  cbn [map] in H. inversion H as [|? ? Hn Hl]; subst.
  destruct (g a); [|exact (IH Hl)]. cbn [map]. constructor; [|exact (IH Hl)].
  intros Hin. apply Hn. apply in_map_iff in Hin as [x [Ex Hx]]. apply filter_In in Hx as [Hx _].
  apply in_map_iff. exists x. split; assumption.
Qed.

(** * the class entries: the prefix 0x01 selects exactly the [VClass] entries *)
Definition clsf (e : bytes * nft_val) : list denom := match snd e with VClass d => [d] | _ => [] end.

Lemma all_denoms_eq (st : pnft_state) : all_denoms st = flat_map clsf (prefix_items GenNft.nft_class_key st).
Proof. reflexivity. Qed.

Lemma class_entry k v :
  entry_ok (k, v) -> is_prefix GenNft.nft_class_key k = true ->
  exists d, v = VClass d /\ k = class_key (dn_id d) /\ id_ok (dn_id d).
Proof.
  intros He Hp. apply is_prefix_spec in Hp as [r Hr]. unfold GenNft.nft_class_key in Hr. cbn [app] in Hr.
  unfold entry_ok in He. cbn [fst snd] in He. destruct v as [d|t|o| |n].
  - destruct He as [E Hid]. exists d. auto.
  - destruct He as [E _]. rewrite E, nft_key_eq in Hr. discriminate Hr.
  - destruct He as [c [i [E _]]]. rewrite E, owner_key_eq in Hr. discriminate Hr.
  - destruct He as [o [c [i [E _]]]]. rewrite E, by_owner_key_eq in Hr. discriminate Hr.
  - destruct He as [c [E _]]. rewrite E, supply_key_eq in Hr. discriminate Hr.
Qed.

Lemma class_values (l : pnft_state) :
  Forall entry_ok l ->
  map snd (prefix_items GenNft.nft_class_key l) = map VClass (flat_map clsf (prefix_items GenNft.nft_class_key l)).
Proof.
  induction l as [|[k v] r IH]; intros He; [reflexivity|].
  inversion He as [|? ? Hkv Hr]; subst. unfold prefix_items in *. cbn [filter fst].
  destruct (is_prefix GenNft.nft_class_key k) eqn:Hp; [|exact (IH Hr)].
  destruct (class_entry k v Hkv Hp) as [d [-> _]].
  cbn [map snd flat_map clsf app]. rewrite (IH Hr). reflexivity.
Qed.

Section L.
  Variable bech : bytes -> bytes.
  Variable st : pnft_state.
  Hypothesis Hinv : Inv_pnft st.

  Let Hs : sorted st := ip_sorted st Hinv.
  Let He : Forall entry_ok st := ip_entries st Hinv.

  Lemma entry_of_In k v : In (k, v) st -> entry_ok (k, v).
  Proof. intros Hin. pose proof He as H. rewrite Forall_forall in H. exact (H _ Hin). Qed.

  (** ** tokens of a denom *)
  Theorem pnfts_of_class_spec : forall c p,
    In p (pnfts_of_class bech st c) <-> exists i, get_pnft bech st c i = Some p.
  Proof.
    intros c p. unfold pnfts_of_class. rewrite in_map_iff. split.
    - intros [t [Ep Ht]]. apply (tokens_of_class_spec st Hinv) in Ht as [Hc Hg].
      exists (tk_id t). unfold get_pnft. rewrite Hg. rewrite Ep. reflexivity.
    - intros [i Hp]. unfold get_pnft in Hp. destruct (get_nft st c i) as [t|] eqn:Hg; [|discriminate Hp].
      injection Hp as <-. destruct (token_has_denom st Hinv c i t Hg) as [_ [Hc [Hi _]]].
      exists t. split; [rewrite Hi; reflexivity|].
      apply (tokens_of_class_spec st Hinv). split; [exact Hc | rewrite Hi; exact Hg].
  Qed.

  Lemma tokens_of_class_NoDup : forall c, NoDup (map tk_id (tokens_of_class st c)).
  Proof.
    intros c. apply (NoDup_map_inv (nft_key c)). rewrite map_map. rewrite toc_eq.
    apply (flat_map_NoDup tokf (fun t => nft_key c (tk_id t))).
    - unfold prefix_items. apply sorted_filter. exact Hs.
    - intros [k v] t Hin Ht. unfold prefix_items in Hin. apply filter_In in Hin as [Hin Hp]. cbn [fst] in Hp.
      unfold tokf in *. cbn [snd fst] in *. destruct v as [d|t'|o| |n]; try contradiction.
      destruct Ht as [<-|[]]. split; [reflexivity|].
      pose proof (entry_of_In _ _ Hin) as Hok. unfold entry_ok in Hok. cbn [fst snd] in Hok.
      destruct Hok as [-> [Hokc Hoki]].
      rewrite (is_prefix_nft c _ _ (id_ok_nn _ Hokc) (id_ok_nn _ Hoki)) in Hp. apply bytes_eqb_eq in Hp.
      subst c. reflexivity.
  Qed.

  Theorem pnfts_of_class_NoDup : forall c, NoDup (map (fun p => tk_id (p_token p)) (pnfts_of_class bech st c)).
  Proof.
    intros c. unfold pnfts_of_class. rewrite map_map. cbn [p_token].
    exact (tokens_of_class_NoDup c).
  Qed.

  (** ** tokens of a denom held by an owner *)
  Definition byof (c o : bytes) (e : bytes * nft_val) : list pnft :=
    let i := skipn (length (by_owner_prefix o c)) (fst e) in
    match get_nft st c i with
    | Some t => [{| p_token := t; p_owner := owner_string bech (get_owner st c (tk_id t)) |}]
    | None => []
    end.

  Lemma by_owner_eq c o :
    pnfts_of_class_by_owner bech st c o = flat_map (byof c o) (prefix_items (by_owner_prefix o c) st).
  Proof. reflexivity. Qed.

  Theorem pnfts_by_owner_spec : forall c o p, verify_address_format o = true ->
    (In p (pnfts_of_class_by_owner bech st c o) <->
     exists i, get_pnft bech st c i = Some p /\ get_owner st c i = o).
  Proof.
    intros c o p Ho. rewrite by_owner_eq, in_flat_map. split.
    - intros [[k v] [Hin Hp]]. unfold prefix_items in Hin. apply filter_In in Hin as [Hin Hpre]. cbn [fst] in Hpre.
      apply is_prefix_spec in Hpre as [i ->]. unfold byof in Hp. cbn [fst] in Hp.
      rewrite Aol.Listing.skipn_app_exact in Hp.
      destruct (get_nft st c i) as [t|] eqn:Hg; [|contradiction]. destruct Hp as [<-|[]].
      destruct (token_has_denom st Hinv c i t Hg) as [_ [_ [Hi _]]].
      exists i. split; [unfold get_pnft; rewrite Hg, Hi; reflexivity|].
      change (by_owner_prefix o c ++ i) with (by_owner_key o c i) in Hin.
      pose proof (In_get _ _ _ Hs Hin) as G. apply get_has_true in G.
      apply (ip_by_owner st Hinv o c i Ho) in G. unfold get_owner. rewrite G. reflexivity.
    - intros [i [Hp Hown]]. unfold get_pnft in Hp. destruct (get_nft st c i) as [t|] eqn:Hg; [|discriminate Hp].
      injection Hp as <-. destruct (token_has_denom st Hinv c i t Hg) as [_ [_ [Hi _]]].
      destruct (token_has_owner st Hinv c i t Hg) as [_ Hb]. rewrite Hown in Hb.
      apply has_true_get in Hb as [v G]. apply get_In in G.
      exists (by_owner_key o c i, v). split.
      + unfold prefix_items. apply filter_In. split; [exact G|]. cbn [fst]. unfold by_owner_key. apply is_prefix_app.
      + unfold byof. cbn [fst]. unfold by_owner_key. rewrite Aol.Listing.skipn_app_exact, Hg, Hi. left. reflexivity.
  Qed.

  Theorem pnfts_by_owner_NoDup : forall c o, verify_address_format o = true ->
    NoDup (map (fun p => tk_id (p_token p)) (pnfts_of_class_by_owner bech st c o)).
  Proof.
    intros c o _. apply (NoDup_map_inv (fun i => by_owner_prefix o c ++ i)). rewrite map_map, by_owner_eq.
    apply (flat_map_NoDup (byof c o) (fun p => by_owner_prefix o c ++ tk_id (p_token p))).
    - unfold prefix_items. apply sorted_filter. exact Hs.
    - intros [k v] p Hin Hp. unfold prefix_items in Hin. apply filter_In in Hin as [Hin Hpre]. cbn [fst] in Hpre.
      apply is_prefix_spec in Hpre as [i ->]. unfold byof in *. cbn [fst] in *.
      rewrite Aol.Listing.skipn_app_exact in *.
      destruct (get_nft st c i) as [t|] eqn:Hg; [|contradiction]. destruct Hp as [<-|[]].
      split; [reflexivity|]. cbn [p_token].
      destruct (token_has_denom st Hinv c i t Hg) as [_ [_ [Hi _]]]. rewrite Hi. reflexivity.
  Qed.

  (** ** denoms *)
  Theorem all_denoms_spec : forall d, In d (all_denoms st) <-> get_class st (dn_id d) = Some d.
  Proof.
    intros d. rewrite all_denoms_eq, in_flat_map. split.
    - intros [[k v] [Hin Hd]]. unfold prefix_items in Hin. apply filter_In in Hin as [Hin Hp]. cbn [fst] in Hp.
      destruct (class_entry k v (entry_of_In _ _ Hin) Hp) as [d' [-> [-> _]]].
      unfold clsf in Hd. cbn [snd] in Hd. destruct Hd as [<-|[]].
      unfold get_class. rewrite (In_get _ _ _ Hs Hin). reflexivity.
    - intros Hg. destruct (get_class_some st _ d He Hg) as [G _]. apply get_In in G.
      exists (class_key (dn_id d), VClass d). split; [|left; reflexivity].
      unfold prefix_items. apply filter_In. split; [exact G|]. cbn [fst]. unfold class_key. apply is_prefix_app.
  Qed.

  Theorem all_denoms_NoDup : NoDup (map dn_id (all_denoms st)).
  Proof.
    apply (NoDup_map_inv class_key). rewrite map_map, all_denoms_eq.
    apply (flat_map_NoDup clsf (fun d => class_key (dn_id d))).
    - unfold prefix_items. apply sorted_filter. exact Hs.
    - intros [k v] d Hin Hd. unfold prefix_items in Hin. apply filter_In in Hin as [Hin Hp]. cbn [fst] in Hp.
      destruct (class_entry k v (entry_of_In _ _ Hin) Hp) as [d' [-> [-> _]]].
      unfold clsf in *. cbn [snd fst] in *. destruct Hd as [<-|[]]. split; reflexivity.
  Qed.

  Theorem denoms_by_owner_spec : forall o d,
    In d (denoms_by_owner true st o) <-> (get_class st (dn_id d) = Some d /\ dn_owner d = o).
  Proof.
    intros o d. unfold denoms_by_owner. rewrite filter_In, all_denoms_spec, bytes_eqb_eq. reflexivity.
  Qed.

  Theorem denoms_by_owner_NoDup : forall o, NoDup (map dn_id (denoms_by_owner true st o)).
  Proof. intros o. unfold denoms_by_owner. apply NoDup_map_filter. exact all_denoms_NoDup. Qed.

  (** ** every listed token belongs to an existing denom *)
  Theorem listed_token_has_denom : forall c p, In p (pnfts_of_class bech st c) -> has_class st c = true.
  Proof.
    intros c p Hin. apply pnfts_of_class_spec in Hin as [i Hp].
    apply get_pnft_some in Hp as [Hg _]. exact (proj1 (token_has_denom st Hinv c i _ Hg)).
  Qed.

  (** ** the x/nft total supply is the number of listed tokens *)
  Theorem supply_is_listed : forall c, get_supply st c = N.of_nat (length (pnfts_of_class bech st c)).
  Proof. intros c. unfold pnfts_of_class. rewrite map_length. exact (ip_supply st Hinv c). Qed.
End L.

(** * the paginated Denoms query pages over the class prefix store *)
Theorem denoms_sub_store : forall st, Inv_pnft st ->
  Pagination.Proofs.sorted_keys (sub_store GenNft.nft_class_key st) /\
  Pagination.Proofs.no_empty_key (sub_store GenNft.nft_class_key st) /\
  map snd (sub_store GenNft.nft_class_key st) = map VClass (all_denoms st).
Proof.
  intros st Hinv. split; [|split].
  - apply Aol.Listing.sub_store_sorted_keys. exact (ip_sorted st Hinv).
  - unfold Pagination.Proofs.no_empty_key. apply Forall_forall. intros [k v] Hin. cbn [fst].
    apply Aol.Listing.sub_store_In in Hin.
    destruct (class_entry _ v (entry_of_In st Hinv _ _ Hin) (is_prefix_app _ _)) as [d [_ [E Hid]]].
    unfold class_key in E. apply app_inv_head in E. subst k. exact (proj1 Hid).
  - unfold sub_store. rewrite map_map. cbn [snd]. rewrite all_denoms_eq.
    exact (class_values st (ip_entries st Hinv)).
Qed.

Theorem denoms_paging_complete : forall st limit ct reverse fuel, Inv_pnft st ->
  (0 < limit < Pagination.Model.two64)%N ->
  (N.of_nat (length (all_denoms st)) < Pagination.Model.two64)%N -> (length (all_denoms st) < fuel)%nat ->
  exists items,
    Pagination.Model.pages_by_key fuel (sub_store GenNft.nft_class_key st) limit ct reverse None = Ok items /\
    map snd items = map VClass (if reverse then rev (all_denoms st) else all_denoms st).
Proof.
  intros st limit ct reverse fuel Hinv Hl Hb Hf.
  destruct (denoms_sub_store st Hinv) as [Hsk [Hne Hv]].
  assert (Hlen : length (sub_store GenNft.nft_class_key st) = length (all_denoms st)).
  { rewrite <- (map_length snd), Hv, map_length. reflexivity. }
  exists (Pagination.Proofs.visit_order reverse (sub_store GenNft.nft_class_key st)). split.
  - apply Pagination.Proofs.pages_by_key_complete.
    + exact Hsk.
    + intros _. exact Hne.
    + exact Hl.
    + left. rewrite Hlen. exact Hb.
    + rewrite Hlen. exact Hf.
  - unfold Pagination.Proofs.visit_order. destruct reverse.
    + rewrite !map_rev, Hv. reflexivity.
    + exact Hv.
Qed.

(** * the original (unrepaired) DenomsByOwner ignored the owner *)
Theorem denoms_by_owner_unfiltered_refuted :
  exists st o d, Inv_pnft st /\ In d (denoms_by_owner false st o) /\ dn_owner d <> o.
Proof.
  pose (d := {| dn_id := [x61]; dn_name := [x6e]; dn_symbol := [x73]; dn_description := []; dn_uri := [];
                dn_uri_hash := []; dn_owner := [x61]; dn_data := [] |}).
  exists (set (class_key (dn_id d)) (VClass d) []), [x62], d. split; [|split].
  - apply set_class_inv; [exact Inv_pnft_empty|]. split; [discriminate | reflexivity].
  - left. reflexivity.
  - discriminate.
Qed.

Print Assumptions pnfts_of_class_spec.
Print Assumptions pnfts_of_class_NoDup.
Print Assumptions pnfts_by_owner_spec.
Print Assumptions pnfts_by_owner_NoDup.
Print Assumptions all_denoms_spec.
Print Assumptions all_denoms_NoDup.
Print Assumptions denoms_by_owner_spec.
Print Assumptions denoms_by_owner_NoDup.
Print Assumptions listed_token_has_denom.
Print Assumptions supply_is_listed.
Print Assumptions denoms_sub_store.
Print Assumptions denoms_paging_complete.
Print Assumptions denoms_by_owner_unfiltered_refuted.
