(** The paginated Denoms query of x/pnft: query.Paginate over the class prefix of the x/nft store. *)
From Coq Require Import Strings.String Strings.Byte.
From Coq Require Import List Arith NArith ZArith Bool.
From PV Require Import Base.Bytes Base.Outcome Base.KV Aol.Query Pnft.Model.
From PV Require Generated.GenNft.
From PV Require Pagination.Model.
Import ListNotations.

Definition denom_on (_ : bytes) (v : nft_val) : outcome denom :=
  match v with VClass d => Ok d | _ => Err (b "pnft") 1 end.

Definition q_denoms (st : pnft_state) (req : option Pagination.Model.page_req)
  : outcome (list denom * Pagination.Model.page_res) :=
  Pagination.Model.paginate_with denom_on (sub_store GenNft.nft_class_key st) req.
