(** The invariant of the PNFT store (x/pnft on top of x/nft) and the predicates used to state the
    user-facing facts of Pnft/Inv.v.  Definitions only. *)
From Coq Require Import Strings.String Strings.Byte.
From Coq Require Import List Arith NArith ZArith Bool.
From PV Require Import Base.Bytes Base.Outcome Base.KV.
From PV Require Import Compkey.Model Aol.Spec.   (* verify_address_format, unbech_wf *)
From PV Require Import Pnft.Model.
Import ListNotations.

(** an identifier (denom id, token id) accepted by the repaired validators: non-empty, no 0x00 *)
Definition id_ok (x : bytes) : Prop := x <> [] /\ has_nul x = false.

(** every store entry has one of the five x/nft shapes, built from accepted identifiers and
    well-formed owner addresses *)
Definition entry_ok (e : bytes * nft_val) : Prop :=
  match snd e with
  | VClass d => fst e = class_key (dn_id d) /\ id_ok (dn_id d)
  | VToken t => fst e = nft_key (tk_class t) (tk_id t) /\ id_ok (tk_class t) /\ id_ok (tk_id t)
  | VOwnerOf o => exists c i, fst e = owner_key c i /\ id_ok c /\ id_ok i /\ verify_address_format o = true
  | VByOwner => exists o c i, fst e = by_owner_key o c i /\ verify_address_format o = true /\ id_ok c /\ id_ok i
  | VSupply _ => exists c, fst e = supply_key c /\ id_ok c
  end.

Record Inv_pnft (st : pnft_state) : Prop := {
  ip_sorted : sorted st;
  ip_entries : Forall entry_ok st;
  (* every token belongs to an existing class *)
  ip_token_class : forall c i, has (nft_key c i) st = true -> has (class_key c) st = true;
  (* a token exists iff its owner entry exists *)
  ip_token_owner : forall c i, has (owner_key c i) st = has (nft_key c i) st;
  (* the by-owner index entry (o, c, i) exists iff the owner entry of (c, i) holds o *)
  ip_by_owner : forall o c i, verify_address_format o = true ->
      (has (by_owner_key o c i) st = true <-> get (owner_key c i) st = Some (VOwnerOf o));
  (* the supply counter of a class is the number of its tokens *)
  ip_supply : forall c, get_supply st c = N.of_nat (length (tokens_of_class st c));
}.

(** the owner (bech32 string) of a denom, if the denom exists *)
Definition denom_owner (st : pnft_state) (id : bytes) : option bytes :=
  match get_class st id with Some d => Some (dn_owner d) | None => None end.
