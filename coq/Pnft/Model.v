(** Model of x/pnft on top of the SDK's x/nft keeper (pinned v0.47.12), with the byte-exact store keys of
    x/nft/keeper/keys.go.  Definitions only (extracted and run against the Go code). *)
From Coq Require Import Strings.String Strings.Byte.
From Coq Require Import List Arith NArith ZArith Bool.
From PV Require Import Base.Bytes Base.Outcome Base.KV.
From PV Require Generated.GenNft.
Import ListNotations.
Local Open Scope N_scope.

Record denom := { dn_id : bytes; dn_name : bytes; dn_symbol : bytes; dn_description : bytes;
                  dn_uri : bytes; dn_uri_hash : bytes; dn_owner : bytes (* bech32 string *); dn_data : bytes }.

(** the stored nft value: nft.NFT{class_id, id, uri, uri_hash, data = PNFTMeta{name, description, creator, created_at, data}} *)
Record token := { tk_class : bytes; tk_id : bytes; tk_uri : bytes; tk_uri_hash : bytes;
                  tk_name : bytes; tk_description : bytes; tk_creator : bytes (* bech32 string *);
                  tk_created_at : Z; tk_data : bytes }.

Inductive nft_val :=
| VClass (d : denom)
| VToken (t : token)
| VOwnerOf (owner : bytes)        (* 0x04 class 0x00 id -> owner address bytes *)
| VByOwner                        (* 0x03 len owner 0x00 class 0x00 id -> placeholder *)
| VSupply (n : N).                (* 0x05 class -> big-endian uint64 *)

Definition pnft_state := store nft_val.

Definition cs_pnft : bytes := b "pnft".

Definition nonempty (x : bytes) : bool := negb (bytes_eqb x []).
Definition has_nul (x : bytes) : bool := existsb (byte_eqb x00) x.

(** ** x/nft store keys *)
Definition delim : bytes := GenNft.nft_delimiter.
Definition class_key (c : bytes) : bytes := GenNft.nft_class_key ++ c.
Definition nft_prefix (c : bytes) : bytes := GenNft.nft_nft_key ++ c ++ delim.
Definition nft_key (c i : bytes) : bytes := nft_prefix c ++ i.
Definition owner_key (c i : bytes) : bytes := GenNft.nft_owner_key ++ c ++ delim ++ i.
Definition supply_key (c : bytes) : bytes := GenNft.nft_supply_key ++ c.
(** address.MustLengthPrefix: one length byte (panics above 255, excluded by VerifyAddressFormat) *)
Definition len_prefixed (a : bytes) : bytes := byte_of_N_mod (N.of_nat (length a)) :: a.
Definition by_owner_prefix (o c : bytes) : bytes := GenNft.nft_by_owner_key ++ len_prefixed o ++ delim ++ c ++ delim.
Definition by_owner_key (o c i : bytes) : bytes := by_owner_prefix o c ++ i.

(** ** x/nft keeper *)
Definition has_class (st : pnft_state) (c : bytes) : bool := has (class_key c) st.
Definition get_class (st : pnft_state) (c : bytes) : option denom :=
  match get (class_key c) st with Some (VClass d) => Some d | _ => None end.
Definition has_nft (st : pnft_state) (c i : bytes) : bool := has (nft_key c i) st.
Definition get_nft (st : pnft_state) (c i : bytes) : option token :=
  match get (nft_key c i) st with Some (VToken t) => Some t | _ => None end.
(** GetOwner: the raw bytes under the owner key (empty when absent) *)
Definition get_owner (st : pnft_state) (c i : bytes) : bytes :=
  match get (owner_key c i) st with Some (VOwnerOf o) => o | _ => [] end.
Definition get_supply (st : pnft_state) (c : bytes) : N :=
  match get (supply_key c) st with Some (VSupply n) => n | _ => 0 end.

Definition set_owner (st : pnft_state) (c i o : bytes) : pnft_state :=
  set (by_owner_key o c i) VByOwner (set (owner_key c i) (VOwnerOf o) st).
Definition delete_owner (st : pnft_state) (c i o : bytes) : pnft_state :=
  del (by_owner_key o c i) (del (owner_key c i) st).

Definition cs_nft : bytes := b "nft".

(** nftKeeper.Mint *)
Definition nft_mint (st : pnft_state) (t : token) (receiver : bytes) : outcome pnft_state :=
  if negb (has_class st (tk_class t)) then Err cs_nft 4
  else if has_nft st (tk_class t) (tk_id t) then Err cs_nft 5
  else
    let st1 := set (nft_key (tk_class t) (tk_id t)) (VToken t) st in
    let st2 := set_owner st1 (tk_class t) (tk_id t) receiver in
    Ok (set (supply_key (tk_class t)) (VSupply (get_supply st2 (tk_class t) + 1)) st2).

(** nftKeeper.Transfer *)
Definition nft_transfer (st : pnft_state) (c i receiver : bytes) : outcome pnft_state :=
  if negb (has_class st c) then Err cs_nft 4
  else if negb (has_nft st c i) then Err cs_nft 6
  else
    let o := get_owner st c i in
    Ok (set_owner (delete_owner st c i o) c i receiver).

(** nftKeeper.Burn; uint64 supply - 1 *)
Definition nft_burn (st : pnft_state) (c i : bytes) : outcome pnft_state :=
  if negb (has_class st c) then Err cs_nft 4
  else if negb (has_nft st c i) then Err cs_nft 6
  else
    let o := get_owner st c i in
    let st1 := del (nft_key c i) st in
    let st2 := delete_owner st1 c i o in
    let n := get_supply st2 c in
    Ok (set (supply_key c) (VSupply (if n =? 0 then 18446744073709551615 else n - 1)) st2).

(** ** the pnft view of a token: GetPNFT *)
Record pnft := { p_token : token; p_owner : bytes (* bech32 string of the stored owner bytes *) }.

Section Handlers.
  Variable unbech : bytes -> option bytes.
  Variable bech : bytes -> bytes.       (* AccAddress.String(); the empty address prints as the empty string *)

  Definition owner_string (o : bytes) : bytes := match o with [] => [] | _ => bech o end.

  Definition get_pnft (st : pnft_state) (c i : bytes) : option pnft :=
    match get_nft st c i with
    | Some t => Some {| p_token := t; p_owner := owner_string (get_owner st c i) |}
    | None => None
    end.

  (** keeper.SaveDenom via msgServer.CreateDenom *)
  Definition create_denom (st : pnft_state) (d : denom) : outcome pnft_state :=
    if has_class st (dn_id d) then Err cs_pnft 1
    else Ok (set (class_key (dn_id d)) (VClass d) st).

  Definition pick_nonempty (new old : bytes) : bytes := match new with [] => old | _ => new end.

  (** keeper.UpdateDenom: only the owner; non-empty fields replace the old ones *)
  Definition update_denom (st : pnft_state) (id name symbol description uri uri_hash updater data : bytes) : outcome pnft_state :=
    match get_class st id with
    | None => Err cs_pnft 2
    | Some d =>
        if negb (bytes_eqb updater (dn_owner d)) then Err cs_pnft 2
        else
          let d' := {| dn_id := dn_id d; dn_name := pick_nonempty name (dn_name d); dn_symbol := pick_nonempty symbol (dn_symbol d);
                       dn_description := pick_nonempty description (dn_description d); dn_uri := pick_nonempty uri (dn_uri d);
                       dn_uri_hash := pick_nonempty uri_hash (dn_uri_hash d); dn_owner := dn_owner d;
                       dn_data := pick_nonempty data (dn_data d) |} in
          (* nftKeeper.UpdateClass: HasClass(denom.Id) — the id stored in the value *)
          if has_class st (dn_id d') then Ok (set (class_key (dn_id d')) (VClass d') st) else Err cs_pnft 2
    end.

  (** keeper.DeleteDenom. [guard] = the repaired code that refuses a denom with tokens (finding F8) *)
  Definition delete_denom (guard : bool) (st : pnft_state) (id remover : bytes) : outcome pnft_state :=
    match get_class st id with
    | None => Err cs_pnft 3
    | Some d =>
        if negb (bytes_eqb remover (dn_owner d)) then Err cs_pnft 3
        else if guard && (0 <? get_supply st id) then Err cs_pnft 3
        else Ok (del (class_key id) st)
    end.

  (** keeper.TransferDenomOwner *)
  Definition transfer_denom (st : pnft_state) (id sender receiver : bytes) : outcome pnft_state :=
    match get_class st id with
    | None => Err cs_pnft 4
    | Some d =>
        if negb (bytes_eqb sender (dn_owner d)) then Err cs_pnft 4
        else
          let d' := {| dn_id := dn_id d; dn_name := dn_name d; dn_symbol := dn_symbol d; dn_description := dn_description d;
                       dn_uri := dn_uri d; dn_uri_hash := dn_uri_hash d; dn_owner := receiver; dn_data := dn_data d |} in
          if has_class st (dn_id d') then Ok (set (class_key (dn_id d')) (VClass d') st) else Err cs_pnft 4
    end.

  (** keeper.MintPNFT via msgServer.MintPNFT: only the denom owner; minted to the creator *)
  Definition mint_pnft (st : pnft_state) (now : Z) (denom_id id name description uri uri_hash data creator : bytes) : outcome pnft_state :=
    match get_class st denom_id with
    | None => Err cs_pnft 6
    | Some d =>
        if negb (bytes_eqb (dn_owner d) creator) then Err cs_pnft 6
        else match unbech creator with
             | None => Err cs_pnft 6
             | Some receiver =>
                 let t := {| tk_class := dn_id d; tk_id := id; tk_uri := uri; tk_uri_hash := uri_hash; tk_name := name;
                             tk_description := description; tk_creator := creator; tk_created_at := now; tk_data := data |} in
                 match nft_mint st t receiver with
                 | Ok st' => Ok st'
                 | Err _ _ => Err cs_pnft 6
                 | Panic => Panic
                 end
             end
    end.

  (** keeper.TransferPNFT *)
  Definition transfer_pnft (st : pnft_state) (denom_id id sender receiver : bytes) : outcome pnft_state :=
    match get_pnft st denom_id id with
    | None => Err cs_pnft 7
    | Some p =>
        if negb (bytes_eqb sender (p_owner p)) then Err cs_pnft 7
        else match unbech receiver with
             | None => Err cs_pnft 7
             | Some r => match nft_transfer st denom_id id r with
                         | Ok st' => Ok st' | Err _ _ => Err cs_pnft 7 | Panic => Panic end
             end
    end.

  (** keeper.BurnPNFT *)
  Definition burn_pnft (st : pnft_state) (denom_id id burner : bytes) : outcome pnft_state :=
    match get_pnft st denom_id id with
    | None => Err cs_pnft 8
    | Some p =>
        if negb (bytes_eqb burner (p_owner p)) then Err cs_pnft 8
        else match nft_burn st denom_id id with
             | Ok st' => Ok st' | Err _ _ => Err cs_pnft 8 | Panic => Panic end
    end.

  (** ** listings *)
  (** GetNFTsOfClass: iterate the prefix 0x02 class 0x00 *)
  Definition tokens_of_class (st : pnft_state) (c : bytes) : list token :=
    flat_map (fun e => match snd e with VToken t => [t] | _ => [] end) (prefix_items (nft_prefix c) st).

  Definition pnfts_of_class (st : pnft_state) (c : bytes) : list pnft :=
    map (fun t => {| p_token := t; p_owner := owner_string (get_owner st c (tk_id t)) |}) (tokens_of_class st c).

  (** GetNFTsOfClassByOwner: iterate 0x03 len owner 0x00 class 0x00, look every id up *)
  Definition pnfts_of_class_by_owner (st : pnft_state) (c o : bytes) : list pnft :=
    flat_map (fun e =>
                let i := skipn (length (by_owner_prefix o c)) (fst e) in
                match get_nft st c i with
                | Some t => [{| p_token := t; p_owner := owner_string (get_owner st c (tk_id t)) |}]
                | None => []
                end)
             (prefix_items (by_owner_prefix o c) st).

  (** GetClasses / GetAllDenoms: iterate prefix 0x01 *)
  Definition all_denoms (st : pnft_state) : list denom :=
    flat_map (fun e => match snd e with VClass d => [d] | _ => [] end) (prefix_items GenNft.nft_class_key st).

  (** DenomsByOwner. [filter] = the repaired handler (finding F7); the original returned the first 100 of all *)
  Definition denoms_by_owner (filter_owner : bool) (st : pnft_state) (owner : bytes) : list denom :=
    if filter_owner then List.filter (fun d => bytes_eqb (dn_owner d) owner) (all_denoms st)
    else firstn 100 (all_denoms st).
End Handlers.

(** ** genesis: ExportGenesis = all denoms + the pnfts of every denom; InitGenesis = SaveDenom each denom,
    then import each pnft with its exported owner (the repaired import, finding F10; with [to_creator] it
    is the original code that re-mints through MintPNFT to the creator) *)
Record pnft_genesis := { pg_denoms : list denom; pg_pnfts : list pnft }.

Section Genesis.
  Variable unbech : bytes -> option bytes.
  Variable bech : bytes -> bytes.

  Definition export_pnft (st : pnft_state) : pnft_genesis :=
    let ds := all_denoms st in
    {| pg_denoms := ds; pg_pnfts := flat_map (fun d => pnfts_of_class bech st (dn_id d)) ds |}.

  Fixpoint init_denoms (ds : list denom) (st : pnft_state) : outcome pnft_state :=
    match ds with
    | [] => Ok st
    | d :: r => match create_denom st d with Ok st' => init_denoms r st' | _ => Panic end
    end.

  Definition import_one (to_creator : bool) (st : pnft_state) (p : pnft) : outcome pnft_state :=
    let t := p_token p in
    if to_creator then
      mint_pnft unbech st (tk_created_at t) (tk_class t) (tk_id t) (tk_name t) (tk_description t) (tk_uri t) (tk_uri_hash t)
                (tk_data t) (tk_creator t)
    else
      match unbech (p_owner p) with
      | Some o => nft_mint st t o
      | None => Err cs_pnft 6
      end.

  Fixpoint init_pnfts (to_creator : bool) (ps : list pnft) (st : pnft_state) : outcome pnft_state :=
    match ps with
    | [] => Ok st
    | p :: r => match import_one to_creator st p with Ok st' => init_pnfts to_creator r st' | _ => Panic end
    end.

  Definition init_pnft_genesis (to_creator : bool) (g : pnft_genesis) : outcome pnft_state :=
    do st <- init_denoms (pg_denoms g) [];
    init_pnfts to_creator (pg_pnfts g) st.

  (** GenesisState.ValidateBasic: denoms need id, name, symbol, owner; pnfts need denom id, id, name, creator, owner, time *)
  Definition validate_pnft_genesis (g : pnft_genesis) : bool :=
    forallb (fun d => nonempty (dn_id d) && nonempty (dn_name d) && nonempty (dn_symbol d) && nonempty (dn_owner d)) (pg_denoms g) &&
    forallb (fun p => let t := p_token p in
                      nonempty (tk_class t) && nonempty (tk_id t) && nonempty (tk_name t) && nonempty (tk_creator t) &&
                      nonempty (p_owner p)) (pg_pnfts g).
End Genesis.

(** ** stateless validation of the seven messages (plain errors: codespace "undefined", code 1).
    [no_nul] = the repaired validators that refuse 0x00 in the ids of CreateDenom / MintPNFT (finding F9) *)
Definition vb_err {A} : outcome A := Err (b "undefined") 1.

Section Vb.
  Variable unbech : bytes -> option bytes.
  Definition need (c : bool) : outcome unit := if c then Ok tt else vb_err.
  Definition need_addr (s : bytes) : outcome unit :=
    if nonempty s then match unbech s with Some _ => Ok tt | None => vb_err end else vb_err.

  Definition vb_create_denom (no_nul : bool) (id name symbol creator : bytes) : outcome unit :=
    do _ <- need (nonempty id);
    do _ <- need (negb (no_nul && has_nul id));
    do _ <- need (nonempty name);
    do _ <- need (nonempty symbol);
    need_addr creator.
  Definition vb_update_denom (id updater : bytes) : outcome unit :=
    do _ <- need (nonempty id); need_addr updater.
  Definition vb_delete_denom (id remover : bytes) : outcome unit :=
    do _ <- need (nonempty id); need_addr remover.
  Definition vb_transfer_denom (id sender receiver : bytes) : outcome unit :=
    do _ <- need (nonempty id); do _ <- need_addr sender; need_addr receiver.
  Definition vb_mint_pnft (no_nul : bool) (denom_id id name creator : bytes) : outcome unit :=
    do _ <- need (nonempty denom_id);
    do _ <- need (nonempty id);
    do _ <- need (negb (no_nul && has_nul id));
    do _ <- need (nonempty name);
    need_addr creator.
  Definition vb_transfer_pnft (denom_id id sender receiver : bytes) : outcome unit :=
    do _ <- need (nonempty denom_id); do _ <- need (nonempty id); do _ <- need_addr sender; need_addr receiver.
  Definition vb_burn_pnft (denom_id id burner : bytes) : outcome unit :=
    do _ <- need (nonempty denom_id); do _ <- need (nonempty id); need_addr burner.
End Vb.
