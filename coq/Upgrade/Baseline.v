(** The one input of the store accounting that is not in the repository: the stores of the release that precedes the first
    upgrade descriptor (panacea-core v2.0.x: the SDK 0.42 module set plus aol, did, burn, token and wasm — the last two are the
    ones the first two descriptors delete).  Definition only. *)
From Coq Require Import Strings.String List.
Import ListNotations.
Open Scope string_scope.

Definition baseline : list string :=
  ["acc"; "bank"; "staking"; "mint"; "distribution"; "slashing"; "gov"; "params"; "ibc"; "upgrade"; "evidence";
   "transfer"; "capability"; "aol"; "did"; "burn"; "token"; "wasm"].

(** the consensus versions the custom modules had in the releases this binary upgrades from: the version map a chain has
    recorded when the plan of this release reaches its height.  RunMigrations halts the chain when a module's version in the
    binary is above the recorded one and no migration is registered for the step; none is registered in this release. *)
Definition baseline_custom_versions : list (string * nat) := [("aol", 1); ("burn", 1); ("did", 1); ("pnft", 1)].
