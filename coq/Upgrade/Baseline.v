(** The one input of the store accounting that is not in the repository: the stores of the release that precedes the first
    upgrade descriptor (panacea-core v2.0.x: the SDK 0.42 module set plus aol, did, burn, token and wasm — the last two are the
    ones the first two descriptors delete).  Definition only. *)
From Coq Require Import Strings.String List.
Import ListNotations.
Open Scope string_scope.

Definition baseline : list string :=
  ["acc"; "bank"; "staking"; "mint"; "distribution"; "slashing"; "gov"; "params"; "ibc"; "upgrade"; "evidence";
   "transfer"; "capability"; "aol"; "did"; "burn"; "token"; "wasm"].
