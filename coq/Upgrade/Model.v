(** Model of the store bookkeeping done when a node upgrades through the releases of
    app.Upgrades in order (app/app.go [Upgrades], [setupUpgradeStoreLoaders];
    app/upgrades/*/types.go; cosmos-sdk v0.47.12 x/upgrade/types/storeloader.go
    [UpgradeStoreLoader]; store/rootmulti/store.go [loadVersion], [Commit], [commitStores];
    store/types/store.go [StoreUpgrades.IsAdded / IsDeleted / RenamedFrom]).
    Definitions only; everything is executable ([vm_compute]).

    Store names are [string]s; a set of stores is a duplicate-free [list string] with boolean
    membership by [String.eqb].  "disk" is the set of store names recorded in the commitInfo of the
    last committed height (rootmulti: [cInfo.StoreInfos]); "mounted" is the set of IAVL KV stores
    the running binary mounts ([app.MountKVStores (GenerateKeys)]; transient and memory stores are
    exempt from the version check of [loadVersion] and never appear in commitInfo, so they are not
    part of either set). *)
From Coq Require Import Strings.String List Bool Arith Lia.
Import ListNotations.
Open Scope string_scope.

(** * finite sets of store names *)
Definition mem (s : string) (l : list string) : bool := existsb (String.eqb s) l.
Definition add (s : string) (l : list string) : list string := if mem s l then l else l ++ [s].
(** [union l extra] = l ∪ extra; duplicate-free whenever [l] is (whatever [extra] is) *)
Definition union (l extra : list string) : list string := fold_left (fun acc s => add s acc) extra l.
(** [diff l rem] = l − rem *)
Definition diff (l rem : list string) : list string := filter (fun s => negb (mem s rem)) l.

(** * upgrade descriptors: upgrades.Upgrade{UpgradeName, StoreUpgrades{Added, Renamed, Deleted}} *)
Record descriptor := {
  d_name : string;
  d_added : list string;
  d_deleted : list string;
  d_renamed : list (string * string) (* old, new *)
}.

(** StoreUpgrades.RenamedFrom: the OldKey of the FIRST entry whose NewKey is [s]; "" if there is none.
    The callers test the result against "", so an entry with an empty OldKey is "not a rename". *)
Fixpoint renamed_from (rs : list (string * string)) (s : string) : string :=
  match rs with
  | [] => ""
  | (o, n) :: rs' => if String.eqb n s then o else renamed_from rs' s
  end.

Definition is_added (d : descriptor) (s : string) : bool := mem s (d_added d).       (* IsAdded *)
Definition is_deleted (d : descriptor) (s : string) : bool := mem s (d_deleted d).   (* IsDeleted *)
Definition is_renamed_to (d : descriptor) (s : string) : bool :=                     (* RenamedFrom(s) != "" *)
  negb (String.eqb (renamed_from (d_renamed d) s) "").

(** the new names of the effective renames, and the old names they move the data from *)
Definition renamed_new (d : descriptor) : list string := filter (is_renamed_to d) (map snd (d_renamed d)).
Definition renamed_old (d : descriptor) : list string := map (renamed_from (d_renamed d)) (renamed_new d).

(** [s] is created by [d] (no version check in loadVersion: initialVersion is set instead) *)
Definition introduces (d : descriptor) (s : string) : bool := is_added d s || is_renamed_to d s.
(** [s] is put into rootmulti's removalMap by [d] (dropped from commitInfo at the next Commit) *)
Definition removes (d : descriptor) (s : string) : bool := is_deleted d s || mem s (renamed_old d).

(** disk after the upgrade: (disk − deleted − renamed-old) ∪ added ∪ renamed-new.

    This is the descriptor read as a declaration of intent, independent of what the binary that
    applies it mounts (which is unknown for old releases).  In rootmulti the set recorded at the
    Commit following a successful [loadVersion ver d] is literally (mounted − removalMap): stores
    that are on disk but not mounted are silently dropped from commitInfo (their data is orphaned,
    not deleted, and [Deleted] has an effect only on MOUNTED keys), and a key that is both
    introduced and removed by the same descriptor ends up removed ("deleted wins", see
    [apply_desc_delwins]).  The two readings agree when [desc_wf d] holds and the applying binary
    mounts exactly the intended set. *)
Definition apply_desc (d : descriptor) (disk : list string) : list string :=
  union (union (diff (diff disk (d_deleted d)) (renamed_old d)) (d_added d)) (renamed_new d).

(** the order rootmulti uses for a key that is both introduced and removed by [d] *)
Definition apply_desc_delwins (d : descriptor) (disk : list string) : list string :=
  diff (diff (union (union disk (d_added d)) (renamed_new d)) (d_deleted d)) (renamed_old d).

(** no store is both introduced (Added / renamed-to) and removed (Deleted / renamed-from) by [d] *)
Definition desc_wf (d : descriptor) : bool :=
  forallb (fun s => negb (removes d s)) (d_added d ++ renamed_new d).

(** rootmulti.loadVersion(ver, upgrades) for ver > 0, as a predicate on names.  The loop runs over
    the MOUNTED keys only: a mounted key passes iff IsAdded || RenamedFrom != "" (then
    initialVersion := ver+1 and no check), or its commitID.Version == ver, i.e. it is in commitInfo
    (a key absent from commitInfo gets the zero CommitID, version 0 != ver: "version of store X
    mismatch root store's version ... new stores should be added using StoreUpgrades" -> failure).
    Stores present in commitInfo but not mounted are never looked at: tolerated, with or without a
    [Deleted] entry (decided from the source: "note this doesn't panic on unmounted keys now").
    A rename whose old store is absent loads an empty old store: no failure.  An [Added] entry for
    a store that already exists skips the check: no failure at load.
    [d = None] is the plain DefaultStoreLoader (upgrades == nil); UpgradeStoreLoader also falls
    back to it when all three lists of the descriptor are empty, which [Some d] with empty lists
    reproduces. *)
Definition load_ok (mounted disk : list string) (d : option descriptor) : bool :=
  forallb (fun s => mem s disk || match d with Some d' => introduces d' s | None => false end) mounted.

(** disk after upgrading through all descriptors in order *)
Definition upgrade_path (baseline : list string) (ds : list descriptor) : list string :=
  fold_left (fun disk d => apply_desc d disk) ds baseline.

(** * the accounting check
    Per store, scan the descriptors in order keeping one bit "accounted for so far": it starts as
    "predates the first descriptor" (is in baseline), is set by a descriptor that introduces the
    store, and is cleared by a descriptor that removes it without re-introducing it. *)
Definition step (d : descriptor) (s : string) (b : bool) : bool := introduces d s || (b && negb (removes d s)).
Definition survives (ds : list descriptor) (s : string) (init : bool) : bool :=
  fold_left (fun b d => step d s b) ds init.
Definition accounted (baseline : list string) (ds : list descriptor) (mounted : list string) : bool :=
  forallb (fun s => survives ds s (mem s baseline)) mounted.

(** the descriptor applied last ([None] for an empty list) *)
Fixpoint last_opt (ds : list descriptor) : option descriptor :=
  match ds with
  | [] => None
  | [d] => Some d
  | _ :: ds' => last_opt ds'
  end.

(** side condition for the last step: the last descriptor is well-formed (vacuous for []) *)
Definition last_wf (ds : list descriptor) : bool :=
  match last_opt ds with Some d => desc_wf d | None => true end.

(** * toy configuration used by the examples *)
Definition mk (n : string) (a dl : list string) : descriptor :=
  {| d_name := n; d_added := a; d_deleted := dl; d_renamed := [] |}.
Definition toy_baseline : list string := ["a"; "b"].
Definition toy_ds : list descriptor := [mk "u1" ["c"] []; mk "u2" ["d"] ["a"]].
