(** Proofs about the store accounting of the upgrade path (Upgrade/Model.v). *)
From Coq Require Import Strings.String List Bool Arith Lia.
From PV Require Import Upgrade.Model.
Import ListNotations.
Open Scope string_scope.
Open Scope list_scope.

(** * membership and the set operations *)
Lemma mem_In : forall (s : string) (l : list string), mem s l = true <-> In s l.
Proof.
  intros s l. unfold mem. rewrite existsb_exists. split.
  - intros [x [Hin Heq]]. apply String.eqb_eq in Heq. subst x. exact Hin.
  - intros Hin. exists s. split; [exact Hin | apply String.eqb_refl].
Qed.

Lemma mem_false_iff : forall (s : string) (l : list string), mem s l = false <-> ~ In s l.
Proof.
  intros s l. rewrite <- mem_In. destruct (mem s l); split; intros H; congruence.
Qed.

Lemma In_add : forall (s x : string) (l : list string), In s (add x l) <-> In s l \/ s = x.
Proof.
  intros s x l. unfold add. destruct (mem x l) eqn:Hm.
  - apply mem_In in Hm. split.
    + intros H. left. exact H.
    + intros [H | H]; [exact H | subst s; exact Hm].
  - rewrite in_app_iff. simpl. split.
    + intros [H | [H | []]]; [left; exact H | right; symmetry; exact H].
    + intros [H | H]; [left; exact H | right; left; symmetry; exact H].
Qed.

Lemma In_union : forall (extra l : list string) (s : string),
  In s (union l extra) <-> In s l \/ In s extra.
Proof.
  induction extra as [| x extra IH]; intros l s; unfold union in *; simpl.
  - tauto.
  - rewrite IH, In_add. split.
    + intros [[H | H] | H]; [left; exact H | right; left; symmetry; exact H | right; right; exact H].
    + intros [H | [H | H]]; [left; left; exact H | left; right; symmetry; exact H | right; exact H].
Qed.

Lemma In_diff : forall (l rem : list string) (s : string),
  In s (diff l rem) <-> In s l /\ mem s rem = false.
Proof.
  intros l rem s. unfold diff. rewrite filter_In, negb_true_iff. tauto.
Qed.

Lemma NoDup_snoc : forall (l : list string) (x : string), NoDup l -> ~ In x l -> NoDup (l ++ [x]).
Proof.
  induction l as [| a l IH]; intros x Hnd Hni; simpl.
  - constructor; [intros [] | constructor].
  - inversion Hnd as [| a' l' Ha Hl]; subst. constructor.
    + rewrite in_app_iff. simpl. intros [H | [H | []]].
      * exact (Ha H).
      * apply Hni. left. symmetry. exact H.
    + apply IH; [exact Hl |]. intros H. apply Hni. right. exact H.
Qed.

Lemma NoDup_add : forall (x : string) (l : list string), NoDup l -> NoDup (add x l).
Proof.
  intros x l Hnd. unfold add. destruct (mem x l) eqn:Hm; [exact Hnd |].
  apply NoDup_snoc; [exact Hnd | apply mem_false_iff; exact Hm].
Qed.

Lemma NoDup_union : forall (extra l : list string), NoDup l -> NoDup (union l extra).
Proof.
  induction extra as [| x extra IH]; intros l Hnd; unfold union in *; simpl.
  - exact Hnd.
  - apply IH. apply NoDup_add. exact Hnd.
Qed.

Lemma NoDup_diff : forall (l rem : list string), NoDup l -> NoDup (diff l rem).
Proof. intros l rem Hnd. unfold diff. apply NoDup_filter. exact Hnd. Qed.

(** * one descriptor *)
Lemma renamed_from_In : forall (rs : list (string * string)) (s : string),
  renamed_from rs s <> "" -> In s (map snd rs).
Proof.
  induction rs as [| [o n] rs IH]; intros s Hne; simpl in *.
  - congruence.
  - destruct (String.eqb n s) eqn:E.
    + left. apply String.eqb_eq. exact E.
    + right. apply IH. exact Hne.
Qed.

Lemma In_renamed_new : forall (d : descriptor) (s : string),
  In s (renamed_new d) <-> is_renamed_to d s = true.
Proof.
  intros d s. unfold renamed_new. rewrite filter_In. split.
  - intros [_ H]. exact H.
  - intros H. split; [| exact H]. apply renamed_from_In.
    unfold is_renamed_to in H. apply negb_true_iff in H. apply String.eqb_neq. exact H.
Qed.

(** the disk after one descriptor, as a predicate *)
Lemma apply_desc_spec : forall (d : descriptor) (disk : list string) (s : string),
  In s (apply_desc d disk) <-> introduces d s = true \/ (In s disk /\ removes d s = false).
Proof.
  intros d disk s. unfold apply_desc. rewrite !In_union, !In_diff, In_renamed_new.
  unfold introduces, removes, is_added, is_deleted.
  rewrite orb_true_iff, orb_false_iff, mem_In. tauto.
Qed.

Lemma apply_desc_delwins_spec : forall (d : descriptor) (disk : list string) (s : string),
  In s (apply_desc_delwins d disk) <-> (In s disk \/ introduces d s = true) /\ removes d s = false.
Proof.
  intros d disk s. unfold apply_desc_delwins. rewrite !In_diff, !In_union, In_renamed_new.
  unfold introduces, removes, is_added, is_deleted.
  rewrite orb_true_iff, orb_false_iff, mem_In. tauto.
Qed.

Lemma desc_wf_spec : forall (d : descriptor) (s : string),
  desc_wf d = true -> introduces d s = true -> removes d s = false.
Proof.
  intros d s Hwf Hintro. unfold desc_wf in Hwf. rewrite forallb_forall in Hwf.
  apply negb_true_iff. apply Hwf. rewrite in_app_iff, In_renamed_new.
  unfold introduces, is_added in Hintro. apply orb_true_iff in Hintro.
  rewrite mem_In in Hintro. exact Hintro.
Qed.

(** for a well-formed descriptor the order "delete, then add" (Model) and rootmulti's
    "add, then delete" give the same set *)
Lemma apply_desc_order_irrelevant : forall (d : descriptor) (disk : list string) (s : string),
  desc_wf d = true -> (In s (apply_desc d disk) <-> In s (apply_desc_delwins d disk)).
Proof.
  intros d disk s Hwf. rewrite apply_desc_spec, apply_desc_delwins_spec.
  pose proof (desc_wf_spec d s Hwf) as Hw. split.
  - intros [Hi | [Hd Hr]].
    + split; [right; exact Hi | apply Hw; exact Hi].
    + split; [left; exact Hd | exact Hr].
  - intros [[Hd | Hi] Hr]; [right; split; assumption | left; exact Hi].
Qed.

Lemma NoDup_apply_desc : forall (d : descriptor) (disk : list string),
  NoDup disk -> NoDup (apply_desc d disk).
Proof.
  intros d disk Hnd. unfold apply_desc. do 2 apply NoDup_union. do 2 apply NoDup_diff. exact Hnd.
Qed.

Lemma mem_apply_desc : forall (d : descriptor) (disk : list string) (s : string),
  mem s (apply_desc d disk) = step d s (mem s disk).
Proof.
  intros d disk s. apply eq_true_iff_eq. rewrite mem_In, apply_desc_spec. unfold step.
  rewrite orb_true_iff, andb_true_iff, negb_true_iff, mem_In. tauto.
Qed.

(** * the whole path *)
Lemma upgrade_path_snoc : forall (baseline : list string) (ds : list descriptor) (d : descriptor),
  upgrade_path baseline (ds ++ [d]) = apply_desc d (upgrade_path baseline ds).
Proof. intros baseline ds d. unfold upgrade_path. rewrite fold_left_app. reflexivity. Qed.

Lemma NoDup_upgrade_path : forall (ds : list descriptor) (baseline : list string),
  NoDup baseline -> NoDup (upgrade_path baseline ds).
Proof.
  induction ds as [| d ds IH]; intros baseline Hnd; unfold upgrade_path in *; simpl.
  - exact Hnd.
  - apply IH. apply NoDup_apply_desc. exact Hnd.
Qed.

(** the per-store scan computes exactly membership in the final disk *)
Lemma survives_spec : forall (ds : list descriptor) (disk : list string) (s : string),
  survives ds s (mem s disk) = true <-> In s (upgrade_path disk ds).
Proof.
  induction ds as [| d ds IH]; intros disk s; unfold survives, upgrade_path in *; simpl.
  - apply mem_In.
  - rewrite <- mem_apply_desc. apply IH.
Qed.

Theorem accounted_iff : forall (baseline : list string) (ds : list descriptor) (mounted : list string),
  accounted baseline ds mounted = true <->
  (forall s, In s mounted -> In s (upgrade_path baseline ds)).
Proof.
  intros baseline ds mounted. unfold accounted. rewrite forallb_forall. split.
  - intros H s Hin. apply survives_spec. apply H. exact Hin.
  - intros H s Hin. apply survives_spec. apply H. exact Hin.
Qed.

(** 1a. after upgrading through all descriptors in order every mounted store exists on disk *)
Theorem accounted_sound : forall (baseline : list string) (ds : list descriptor) (mounted : list string),
  accounted baseline ds mounted = true ->
  forall s, In s mounted -> In s (upgrade_path baseline ds).
Proof. intros baseline ds mounted Hacc. apply accounted_iff. exact Hacc. Qed.

Lemma load_ok_None : forall (mounted disk : list string),
  load_ok mounted disk None = true <-> (forall s, In s mounted -> In s disk).
Proof.
  intros mounted disk. unfold load_ok. rewrite forallb_forall. split.
  - intros H s Hin. apply mem_In. specialize (H s Hin). rewrite orb_false_r in H. exact H.
  - intros H s Hin. rewrite orb_false_r. apply mem_In. apply H. exact Hin.
Qed.

(** every later plain restart (DefaultStoreLoader) of this binary succeeds *)
Theorem accounted_restart_ok : forall (baseline : list string) (ds : list descriptor) (mounted : list string),
  accounted baseline ds mounted = true ->
  load_ok mounted (upgrade_path baseline ds) None = true.
Proof.
  intros baseline ds mounted Hacc. apply load_ok_None. apply accounted_sound. exact Hacc.
Qed.

Lemma last_opt_snoc : forall (ds : list descriptor) (d : descriptor), last_opt (ds ++ [d]) = Some d.
Proof.
  induction ds as [| a ds IH]; intros d; [reflexivity |].
  specialize (IH d). simpl. destruct (ds ++ [d]) as [| d0 l] eqn:E.
  - destruct ds; discriminate E.
  - exact IH.
Qed.

Lemma last_opt_cases : forall (ds : list descriptor),
  (ds = [] /\ last_opt ds = None) \/
  (exists ds' d, ds = ds' ++ [d] /\ removelast ds = ds' /\ last_opt ds = Some d).
Proof.
  intros ds. destruct ds as [| d0 ds0].
  - left. split; reflexivity.
  - right. assert (Hne : d0 :: ds0 <> []) by discriminate.
    destruct (exists_last Hne) as [ds' [d Heq]]. exists ds', d. rewrite Heq.
    split; [reflexivity |]. split; [apply removelast_last | apply last_opt_snoc].
Qed.

(** 1b. the load performed at the LAST upgrade height -- this binary, the disk left by the
    previous descriptors, UpgradeStoreLoader with the last descriptor -- succeeds.
    No side condition is needed for the load itself. *)
Theorem accounted_last_load_ok : forall (baseline : list string) (ds : list descriptor) (mounted : list string),
  accounted baseline ds mounted = true ->
  load_ok mounted (upgrade_path baseline (removelast ds)) (last_opt ds) = true.
Proof.
  intros baseline ds mounted Hacc.
  destruct (last_opt_cases ds) as [[Hnil Hlast] | [ds' [d [Heq [Hrl Hlast]]]]].
  - rewrite Hlast. subst ds. simpl. apply (accounted_restart_ok baseline [] mounted). exact Hacc.
  - rewrite Hlast, Hrl. unfold load_ok. rewrite forallb_forall. intros s Hin.
    pose proof (accounted_sound baseline ds mounted Hacc s Hin) as Hs.
    rewrite Heq, upgrade_path_snoc, apply_desc_spec in Hs.
    destruct Hs as [Hi | [Hd _]].
    + rewrite Hi. apply orb_true_r.
    + apply mem_In in Hd. rewrite Hd. reflexivity.
Qed.

(** 1c. with the side condition [last_wf ds] (the last descriptor does not both introduce and
    remove a store) no mounted store is put into the removalMap by the last descriptor, so the
    commitInfo written by the Commit after the upgrade (mounted − removalMap) still has every
    mounted store.  Without the side condition [accounted] can hold for a store that is Added and
    Deleted by the same descriptor, which rootmulti loads and then drops ([last_wf_needed]). *)
Theorem accounted_last_not_removed : forall (baseline : list string) (ds : list descriptor) (mounted : list string) (d : descriptor),
  accounted baseline ds mounted = true ->
  last_wf ds = true ->
  last_opt ds = Some d ->
  forall s, In s mounted -> removes d s = false /\ In s (apply_desc_delwins d (upgrade_path baseline (removelast ds))).
Proof.
  intros baseline ds mounted d Hacc Hwf Hlast s Hin.
  unfold last_wf in Hwf. rewrite Hlast in Hwf.
  destruct (last_opt_cases ds) as [[Hnil Hl] | [ds' [d' [Heq [Hrl Hl]]]]].
  - rewrite Hl in Hlast. discriminate Hlast.
  - rewrite Hl in Hlast. injection Hlast as Hdd. subst d'.
    pose proof (accounted_sound baseline ds mounted Hacc s Hin) as Hs.
    rewrite Heq, upgrade_path_snoc in Hs. rewrite Hrl.
    split.
    + apply apply_desc_spec in Hs. destruct Hs as [Hi | [_ Hr]].
      * apply desc_wf_spec; assumption.
      * exact Hr.
    + apply apply_desc_order_irrelevant; assumption.
Qed.

(** * 2. converse *)
Lemma survives_false_no_intro : forall (ds : list descriptor) (s : string),
  (forall d, In d ds -> introduces d s = false) -> survives ds s false = false.
Proof.
  induction ds as [| d ds IH]; intros s Hno; unfold survives in *; simpl.
  - reflexivity.
  - unfold step at 2. rewrite (Hno d (or_introl eq_refl)). simpl.
    apply IH. intros d' Hd'. apply Hno. right. exact Hd'.
Qed.

Lemma accounted_false_of_missing : forall (baseline : list string) (ds : list descriptor) (mounted : list string) (s : string),
  In s mounted -> ~ In s (upgrade_path baseline ds) -> accounted baseline ds mounted = false.
Proof.
  intros baseline ds mounted s Hin Hmiss.
  destruct (accounted baseline ds mounted) eqn:Hacc; [| reflexivity].
  exfalso. apply Hmiss. exact (accounted_sound baseline ds mounted Hacc s Hin).
Qed.

(** a mounted store that is neither in the baseline nor introduced by any descriptor is missing
    from the final disk, and [accounted] says so *)
Theorem accounted_complete : forall (baseline : list string) (ds : list descriptor) (mounted : list string) (s : string),
  In s mounted ->
  ~ In s baseline ->
  (forall d, In d ds -> introduces d s = false) ->
  accounted baseline ds mounted = false /\ ~ In s (upgrade_path baseline ds).
Proof.
  intros baseline ds mounted s Hin Hnb Hno.
  assert (Hmiss : ~ In s (upgrade_path baseline ds)).
  { intros Hon. apply survives_spec in Hon. apply mem_false_iff in Hnb. rewrite Hnb in Hon.
    rewrite (survives_false_no_intro ds s Hno) in Hon. discriminate Hon. }
  split; [| exact Hmiss]. exact (accounted_false_of_missing baseline ds mounted s Hin Hmiss).
Qed.

(** * 3. removed and not re-introduced *)
Lemma removed_not_on_disk : forall (baseline : list string) (ds1 ds2 : list descriptor) (dj : descriptor) (s : string),
  removes dj s = true ->
  introduces dj s = false ->
  (forall d, In d ds2 -> introduces d s = false) ->
  ~ In s (upgrade_path baseline (ds1 ++ dj :: ds2)).
Proof.
  intros baseline ds1 ds2 dj s Hrem Hni Hno Hon.
  apply survives_spec in Hon. unfold survives in Hon. rewrite fold_left_app in Hon. simpl in Hon.
  unfold step at 2 in Hon. rewrite Hrem, Hni, andb_false_r in Hon. simpl in Hon.
  pose proof (survives_false_no_intro ds2 s Hno) as Hf. unfold survives in Hf.
  rewrite Hf in Hon. discriminate Hon.
Qed.

(** a store added by descriptor i, deleted by a later descriptor j and not re-introduced by j or
    later is not on disk at the end; [accounted] rejects a binary that mounts it *)
Theorem accounted_rejects_removed : forall (baseline : list string) (ds0 dmid ds2 : list descriptor) (di dj : descriptor) (mounted : list string) (s : string),
  is_added di s = true ->
  removes dj s = true ->
  introduces dj s = false ->
  (forall d, In d ds2 -> introduces d s = false) ->
  ~ In s (upgrade_path baseline (ds0 ++ di :: dmid ++ dj :: ds2)) /\
  (In s mounted -> accounted baseline (ds0 ++ di :: dmid ++ dj :: ds2) mounted = false).
Proof.
  intros baseline ds0 dmid ds2 di dj mounted s _ Hrem Hni Hno.
  assert (Hmiss : ~ In s (upgrade_path baseline (ds0 ++ di :: dmid ++ dj :: ds2))).
  { replace (ds0 ++ di :: dmid ++ dj :: ds2) with ((ds0 ++ di :: dmid) ++ dj :: ds2)
      by (rewrite <- app_assoc; reflexivity).
    apply removed_not_on_disk; assumption. }
  split; [exact Hmiss |].
  intros Hin. exact (accounted_false_of_missing baseline _ mounted s Hin Hmiss).
Qed.

(** * 4. examples (toy configuration: baseline [a;b], u1 adds c, u2 adds d and deletes a) *)
Example toy_path : upgrade_path toy_baseline toy_ds = ["b"; "c"; "d"].
Proof. vm_compute. reflexivity. Qed.
Example toy_ok : accounted toy_baseline toy_ds ["b"; "c"; "d"] = true.
Proof. vm_compute. reflexivity. Qed.
Example toy_deleted_mounted : accounted toy_baseline toy_ds ["a"; "b"; "c"; "d"] = false.
Proof. vm_compute. reflexivity. Qed.
Example toy_never_added : accounted toy_baseline toy_ds ["b"; "c"; "d"; "e"] = false.
Proof. vm_compute. reflexivity. Qed.
Example toy_last_load : load_ok ["b"; "c"; "d"] (upgrade_path toy_baseline (removelast toy_ds)) (last_opt toy_ds) = true.
Proof. vm_compute. reflexivity. Qed.
Example toy_last_load_without_added : (* forgetting Added:[d] in u2 makes the load at u2 fail *)
  load_ok ["b"; "c"; "d"] (upgrade_path toy_baseline (removelast toy_ds)) (Some (mk "u2" [] ["a"])) = false.
Proof. vm_compute. reflexivity. Qed.
Example toy_unmounted_tolerated : (* a is still on disk at u2 and not mounted: tolerated *)
  load_ok ["b"; "c"; "d"] ["a"; "b"; "c"] (Some (mk "u2" ["d"] [])) = true.
Proof. vm_compute. reflexivity. Qed.
Example toy_last_wf : last_wf toy_ds = true.
Proof. vm_compute. reflexivity. Qed.
Example toy_rename : (* rename a -> z: z appears, a disappears; an entry with empty OldKey is no rename *)
  apply_desc {| d_name := "r"; d_added := []; d_deleted := []; d_renamed := [("a", "z"); ("", "y")] |} ["a"; "b"]
  = ["b"; "z"].
Proof. vm_compute. reflexivity. Qed.
(** the side condition of [accounted_last_not_removed] is needed: x is Added and Deleted by the same
    descriptor; the Model order keeps it ([accounted] = true), rootmulti's order drops it *)
Example last_wf_needed :
  let d := mk "bad" ["x"] ["x"] in
  accounted [] [d] ["x"] = true /\ last_wf [d] = false /\
  apply_desc d [] = ["x"] /\ apply_desc_delwins d [] = [].
Proof. vm_compute. repeat split; reflexivity. Qed.

Print Assumptions accounted_sound.
Print Assumptions accounted_iff.
Print Assumptions accounted_restart_ok.
Print Assumptions accounted_last_load_ok.
Print Assumptions accounted_last_not_removed.
Print Assumptions accounted_complete.
Print Assumptions accounted_rejects_removed.
Print Assumptions apply_desc_order_irrelevant.
Print Assumptions NoDup_upgrade_path.
