(** C19, configuration half: the store accounting of THIS repository.  [GenUpgrade] is regenerated on every run from the
    application linked against /repo (mounted IAVL stores, app.Upgrades in order, registered handlers).  The only input
    that is not in the repository is [baseline]: the stores of the release that precedes the first descriptor
    (panacea-core v2.0.x: the SDK 0.42 module set plus aol, did, burn, token and wasm — the last two are the ones the first
    two descriptors delete). *)
From Coq Require Import Strings.String List Bool Arith.
From PV Require Import Upgrade.Model Upgrade.Proofs.
From PV Require Export Upgrade.Baseline.
From PV Require Generated.GenUpgrade.
Import ListNotations.
Open Scope string_scope.

Theorem repo_accounted : accounted baseline GenUpgrade.upgrades GenUpgrade.mounted_stores = true.
Proof. vm_compute. reflexivity. Qed.

Theorem repo_descriptors_wf : forallb desc_wf GenUpgrade.upgrades = true.
Proof. vm_compute. reflexivity. Qed.

(** a handler is registered for every entry of app.Upgrades, and only for those *)
Theorem repo_handlers_registered : map d_name GenUpgrade.upgrades = GenUpgrade.handlers_registered.
Proof. vm_compute. reflexivity. Qed.

(** the binary's consensus versions of the custom modules are the recorded ones: RunMigrations has no step to take for them
    (and no migration to look for) *)
Theorem repo_custom_versions_need_no_migration : GenUpgrade.custom_consensus_versions = baseline_custom_versions.
Proof. vm_compute. reflexivity. Qed.

Theorem repo_nonempty : (5 <=? length GenUpgrade.upgrades)%nat && (20 <=? length GenUpgrade.mounted_stores)%nat = true.
Proof. vm_compute. reflexivity. Qed.

(** hence (Upgrade/Proofs.v): after upgrading through the releases in order every mounted store exists on disk, the load at
    the last upgrade height succeeds, the last descriptor removes no mounted store, and every later restart succeeds *)
Theorem repo_every_mounted_store_on_disk : forall s, In s GenUpgrade.mounted_stores -> In s (upgrade_path baseline GenUpgrade.upgrades).
Proof. exact (accounted_sound baseline GenUpgrade.upgrades GenUpgrade.mounted_stores repo_accounted). Qed.

Theorem repo_last_upgrade_loads :
  load_ok GenUpgrade.mounted_stores (upgrade_path baseline (removelast GenUpgrade.upgrades)) (last_opt GenUpgrade.upgrades) = true.
Proof. exact (accounted_last_load_ok baseline GenUpgrade.upgrades GenUpgrade.mounted_stores repo_accounted). Qed.

Theorem repo_restart_after_upgrade_loads :
  load_ok GenUpgrade.mounted_stores (upgrade_path baseline GenUpgrade.upgrades) None = true.
Proof. exact (accounted_restart_ok baseline GenUpgrade.upgrades GenUpgrade.mounted_stores repo_accounted). Qed.

(** no store is on disk after the path that the binary does not mount, except none: the path ends exactly at the mounted set *)
Theorem repo_disk_is_mounted : forall s, In s (upgrade_path baseline GenUpgrade.upgrades) <-> In s GenUpgrade.mounted_stores.
Proof.
  assert (H : forallb (fun s => mem s GenUpgrade.mounted_stores) (upgrade_path baseline GenUpgrade.upgrades) = true)
    by (vm_compute; reflexivity).
  intros s. split.
  - intros Hin. rewrite forallb_forall in H. apply mem_In. apply H. exact Hin.
  - apply repo_every_mounted_store_on_disk.
Qed.

Print Assumptions repo_accounted.
Print Assumptions repo_last_upgrade_loads.
Print Assumptions repo_disk_is_mounted.

(** which upgrade heights THIS binary can be started at (upgrade-info.json naming that descriptor, the disk left by the
    previous ones): exactly those from which every store it mounts is on disk or introduced — here v2.2.0 and v2.2.1.
    The harness starts the real binary at each height in a child process and the answers must agree (UPROBE). *)
Definition loadable_at (k : nat) : bool :=
  match nth_error GenUpgrade.upgrades k with
  | Some d => load_ok GenUpgrade.mounted_stores (upgrade_path baseline (firstn k GenUpgrade.upgrades)) (Some d)
  | None => false
  end.
Theorem repo_loadable_heights : map loadable_at (seq 0 (length GenUpgrade.upgrades)) = [false; false; false; true; true].
Proof. vm_compute. reflexivity. Qed.
Print Assumptions repo_loadable_heights.
