(** Executable model of Cosmos SDK v0.47.12 [query.Paginate] (types/query/pagination.go) running on a
    prefix store (store/prefix/store.go).  Definitions only; everything here is extracted.

    The store is given as the list [items] of the (key, value) pairs of the *sub-store*: keys have the
    store prefix already stripped and are listed in ascending [bytes_ltb] order with distinct keys
    (the order of the parent iterator).  None of the definitions below relies on that order; the
    theorems in [Pagination/Proofs.v] assume it ([sorted_keys]).

    Go values and their representation here
    - [[]byte] that may be nil : [option bytes]; [None] is Go's nil, [Some []] is an empty non-nil slice.
      [Paginate] tests the request key twice, once with [key != nil] and once with [len(key) != 0],
      and the two tests differ exactly on [Some []] (gogoproto unmarshals an explicitly present empty
      bytes field to a non-nil empty slice).  [PageResponse.NextKey] is nil or the result of
      [iterator.Key()], which is never nil but is empty when an item has the empty sub-key.
    - [uint64] : [N], assumed < 2^64 on input ([pr_offset], [pr_limit]); every uint64 addition of the
      source is followed by an explicit [u64] (mod 2^64).
    - a [types.Iterator] : the list of the items it still has to visit, head = current item;
      [Valid()] = non-empty, [Next()] = tail, [Key()] on an invalid prefixIterator panics.
    - [onResult] : the model returns the list of (key, value) pairs on which [onResult] is called, in
      call order.  An [onResult] that fails makes [Paginate] return that error at once and nothing in
      the loops can fail otherwise, so [paginate_with] (below) is the general form. *)
From Coq Require Import Strings.String.
From Coq Require Import List NArith Bool.
From PV Require Import Base.Bytes Base.Outcome.
Import ListNotations.
Local Open Scope N_scope.

(** [fmt.Errorf("invalid request, either offset or key is expected, got both")] *)
Definition perr {A} : outcome A := Err (b "paginate"%string) 1.

(** [query.DefaultLimit] *)
Definition default_limit : N := 100.

Definition two64 : N := 18446744073709551616.
Definition u64 (n : N) : N := n mod two64.

Record page_req := mk_page_req {
  pr_key : option bytes;      (* PageRequest.Key, None = nil *)
  pr_offset : N;              (* uint64 *)
  pr_limit : N;               (* uint64 *)
  pr_count_total : bool;
  pr_reverse : bool
}.

Record page_res := mk_page_res {
  pg_next_key : option bytes; (* PageResponse.NextKey, None = nil *)
  pg_total : N                (* PageResponse.Total *)
}.

(** [&PageRequest{}] *)
Definition empty_req : page_req := mk_page_req None 0 0 false false.

(** [len(k) == 0] for a possibly-nil slice *)
Definition key_is_nil (k : option bytes) : bool :=
  match k with None => true | Some [] => true | Some (_ :: _) => false end.

(** [k != nil] *)
Definition key_not_nil (k : option bytes) : bool :=
  match k with None => false | Some _ => true end.

(** the key of the current item of an iterator, if it is valid *)
Definition next_key_of {V} (it : list (bytes * V)) : option bytes :=
  match it with [] => None | (k, _) :: _ => Some k end.

Section Paginate.
  Context {V : Type}.
  Notation item := (bytes * V)%type.

  (** ** The prefix store iterators.
      [prefix.Store.Iterator(start, end)] asks the parent for [prefix++start, prefix++end) or, when
      [end == nil], for [prefix++start, PrefixEndBytes(prefix)); [cloneAppend(prefix, nil) = prefix],
      so a nil [start] is the same as an empty one.  Relative to the sub-store that is:
      all items with [start <= k] and ([end = nil] or [k < end]). *)
  Definition in_range (start : bytes) (end_ : option bytes) (k : bytes) : bool :=
    bytes_leb start k && match end_ with None => true | Some e => bytes_ltb k e end.

  Definition range (items : list item) (start : bytes) (end_ : option bytes) : list item :=
    filter (fun kv => in_range start end_ (fst kv)) items.

  Definition nil_to_empty (k : option bytes) : bytes := match k with None => [] | Some x => x end.

  Definition store_iterator (items : list item) (start end_ : option bytes) : list item :=
    range items (nil_to_empty start) end_.

  Definition store_reverse_iterator (items : list item) (start end_ : option bytes) : list item :=
    rev (range items (nil_to_empty start) end_).

  (** ** [getIterator(prefixStore, start, reverse)]
<<
      if reverse {
          var end []byte
          if start != nil {
              itr := prefixStore.Iterator(start, nil)
              defer itr.Close()
              if itr.Valid() {
                  itr.Next()
                  end = itr.Key()        // panics when itr is no longer valid
              }
          }
          return prefixStore.ReverseIterator(nil, end)
      }
      return prefixStore.Iterator(start, nil)
>>
      [prefixIterator.Next] clears [valid] when the parent runs out of the prefix range and
      [prefixIterator.Key] panics ("prefixIterator invalid, cannot call Key()") when [valid] is false. *)
  Definition get_iterator (items : list item) (start : option bytes) (reverse : bool)
    : outcome (list item) :=
    if reverse then
      match start with
      | None => Ok (store_reverse_iterator items None None)
      | Some _ =>
          match store_iterator items start None with
          | [] => Ok (store_reverse_iterator items None None)          (* !itr.Valid(): end stays nil *)
          | _ :: [] => Panic                                           (* Next(); Key() on invalid *)
          | _ :: (k2, _) :: _ => Ok (store_reverse_iterator items None (Some k2))
          end
      end
    else Ok (store_iterator items start None).

  (** ** the loop of the key branch
<<
      for ; iterator.Valid(); iterator.Next() {
          if count == limit { nextKey = iterator.Key(); break }
          ... onResult(iterator.Key(), iterator.Value()) ...
          count++
      }
>>
      [out] is the reversed list of the items passed to onResult so far. *)
  Fixpoint key_loop (it : list item) (limit count : N) (out : list item)
    : list item * option bytes :=
    match it with
    | [] => (rev out, None)
    | (k, v) :: rest =>
        if count =? limit then (rev out, Some k)
        else key_loop rest limit (u64 (count + 1)) ((k, v) :: out)
    end.

  (** ** the loop of the offset branch
<<
      for ; iterator.Valid(); iterator.Next() {
          count++
          if count <= offset { continue }
          if count <= end {
              ... onResult(iterator.Key(), iterator.Value()) ...
          } else if count == end+1 {
              nextKey = iterator.Key()
              if !countTotal { break }
          }
      }
>>
      state: [out] (reversed results), [next] (nextKey), [count]; the result is the final state. *)
  Fixpoint off_loop (offset end_ : N) (count_total : bool) (it : list item)
           (out : list item) (next : option bytes) (count : N)
    : list item * option bytes * N :=
    match it with
    | [] => (out, next, count)
    | (k, v) :: rest =>
        let count := u64 (count + 1) in
        if count <=? offset then off_loop offset end_ count_total rest out next count
        else if count <=? end_ then off_loop offset end_ count_total rest ((k, v) :: out) next count
        else if count =? u64 (end_ + 1) then
          if count_total then off_loop offset end_ count_total rest out (Some k) count
          else (out, Some k, count)
        else off_loop offset end_ count_total rest out next count
    end.

  (** the [if len(key) != 0 { ... }] block; [limit] is already defaulted *)
  Definition page_by_key (items : list item) (key : option bytes) (limit : N) (reverse : bool)
    : outcome (list item * page_res) :=
    do it <- get_iterator items key reverse;
    let (out, next) := key_loop it limit 0 [] in
    Ok (out, mk_page_res next 0).

  (** the rest of the function; [limit] and [count_total] are already defaulted *)
  Definition page_by_offset (items : list item) (offset limit : N) (count_total reverse : bool)
    : outcome (list item * page_res) :=
    do it <- get_iterator items None reverse;
    let end_ := u64 (offset + limit) in
    match off_loop offset end_ count_total it [] None 0 with
    | (out, next, count) => Ok (rev out, mk_page_res next (if count_total then count else 0))
    end.

  (** ** [Paginate(prefixStore, pageRequest, onResult)] with an [onResult] that never fails *)
  Definition paginate (items : list item) (req : option page_req)
    : outcome (list item * page_res) :=
    let r := match req with Some r => r | None => empty_req end in
    if (0 <? pr_offset r) && key_not_nil (pr_key r) then perr
    else
      let limit := if pr_limit r =? 0 then default_limit else pr_limit r in
      let count_total := if pr_limit r =? 0 then true else pr_count_total r in
      if negb (key_is_nil (pr_key r))
      then page_by_key items (pr_key r) limit (pr_reverse r)
      else page_by_offset items (pr_offset r) limit count_total (pr_reverse r).

  (** ** with a fallible [onResult]: the first failing call aborts with its error.  A panic of
      [getIterator] comes before any call of [onResult]. *)
  Fixpoint map_outcome {R} (on : bytes -> V -> outcome R) (its : list item) : outcome (list R) :=
    match its with
    | [] => Ok []
    | (k, v) :: rest => do r <- on k v; do rs <- map_outcome on rest; Ok (r :: rs)
    end.

  Definition paginate_with {R} (on : bytes -> V -> outcome R) (items : list item)
             (req : option page_req) : outcome (list R * page_res) :=
    do pr <- paginate items req;
    do rs <- map_outcome on (fst pr);
    Ok (rs, snd pr).

  (** ** Client-side drivers: fetch page after page the way a client of the gRPC API does.
      A client stops when [len(NextKey) == 0]. *)
  Definition fuel_err {A} : outcome A := Err (b "paginate-fuel"%string) 2.

  (** key style: the next request carries [Key = previous NextKey] (and offset 0) *)
  Fixpoint pages_by_key (fuel : nat) (items : list item) (limit : N) (count_total reverse : bool)
           (key : option bytes) : outcome (list item) :=
    match fuel with
    | O => fuel_err
    | S f =>
        do pr <- paginate items (Some (mk_page_req key 0 limit count_total reverse));
        if key_is_nil (pg_next_key (snd pr)) then Ok (fst pr)
        else do rest <- pages_by_key f items limit count_total reverse (pg_next_key (snd pr));
             Ok (fst pr ++ rest)
    end.

  (** offset style: offsets [offset], [offset+limit], [offset+2*limit], ... with a nil key *)
  Fixpoint pages_by_offset (fuel : nat) (items : list item) (limit : N) (count_total reverse : bool)
           (offset : N) : outcome (list item) :=
    match fuel with
    | O => fuel_err
    | S f =>
        do pr <- paginate items (Some (mk_page_req None offset limit count_total reverse));
        if key_is_nil (pg_next_key (snd pr)) then Ok (fst pr)
        else do rest <- pages_by_offset f items limit count_total reverse (offset + limit);
             Ok (fst pr ++ rest)
    end.
End Paginate.
