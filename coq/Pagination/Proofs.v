(** Theorems about the model of [query.Paginate] ([Pagination/Model.v]): paging through a store,
    key style or offset style, forward or reverse, yields every item exactly once. *)
From Coq Require Import Strings.String.
From Coq Require Import List Arith NArith ZArith Bool Lia Sorted Permutation.
From Coq Require Import ZifyN ZifyNat. Ltac Zify.zify_post_hook ::= Z.div_mod_to_equations.
From PV Require Import Base.Bytes Base.Outcome Pagination.Model.
Import ListNotations.
Local Open Scope N_scope.

(** keys strictly ascending (hence distinct) *)
Definition sorted_keys {V} (items : list (bytes * V)) : Prop :=
  StronglySorted (fun x y => bytes_ltb x y = true) (map fst items).

(** no item has the empty sub-key *)
Definition no_empty_key {V} (items : list (bytes * V)) : Prop :=
  Forall (fun kv : bytes * V => fst kv <> []) items.

(** the order in which the iterator of [Paginate] visits the store *)
Definition visit_order {V} (reverse : bool) (items : list (bytes * V)) : list (bytes * V) :=
  if reverse then rev items else items.

Lemma two64_eq : two64 = 2 ^ 64.
Proof. reflexivity. Qed.

Section Proofs.
  Context {V : Type}.
  Notation item := (bytes * V)%type.
  Implicit Types items it its seq done rest s out : list item.

  (** ** lists *)
  Lemma skipn_skipn_add (n m : nat) (l : list item) : skipn n (skipn m l) = skipn (m + n) l.
  Proof.
    revert l; induction m as [|m IH]; intros l; [reflexivity|].
    destruct l as [|x l]; [destruct n; reflexivity|]. cbn [skipn Nat.add]. apply IH.
  Qed.

  Lemma filter_all_true (f : item -> bool) (l : list item) :
    Forall (fun x => f x = true) l -> filter f l = l.
  Proof.
    induction l as [|x l IH]; intros H; [reflexivity|].
    inversion H as [|? ? Hx Hl]; subst. cbn [filter]. rewrite Hx, (IH Hl). reflexivity.
  Qed.

  Lemma filter_all_false (f : item -> bool) (l : list item) :
    Forall (fun x => f x = false) l -> filter f l = [].
  Proof.
    induction l as [|x l IH]; intros H; [reflexivity|].
    inversion H as [|? ? Hx Hl]; subst. cbn [filter]. rewrite Hx. exact (IH Hl).
  Qed.

  (** ** sortedness *)
  Lemma bytes_ltb_nil_r (x : bytes) : bytes_ltb x [] = false.
  Proof. destruct x; reflexivity. Qed.

  Lemma bytes_leb_nil_l (x : bytes) : bytes_leb [] x = true.
  Proof. unfold bytes_leb. rewrite bytes_ltb_nil_r. reflexivity. Qed.

  Lemma sorted_keys_cons (x : item) (l : list item) :
    sorted_keys (x :: l) <->
    sorted_keys l /\ Forall (fun y => bytes_ltb (fst x) (fst y) = true) l.
  Proof.
    unfold sorted_keys. cbn [map]. split.
    - intros H. apply StronglySorted_inv in H as [Hs Hf]. split; [exact Hs|].
      apply Forall_map in Hf. exact Hf.
    - intros [Hs Hf]. constructor; [exact Hs|]. apply Forall_map. exact Hf.
  Qed.

  Lemma sorted_keys_app (l1 l2 : list item) :
    sorted_keys (l1 ++ l2) <->
    sorted_keys l1 /\ sorted_keys l2 /\
    Forall (fun x => Forall (fun y => bytes_ltb (fst x) (fst y) = true) l2) l1.
  Proof.
    induction l1 as [|x l1 IH]; cbn [app].
    - split.
      + intros H. split; [constructor|]. split; [exact H | constructor].
      + intros [_ [H _]]. exact H.
    - rewrite !sorted_keys_cons, IH, Forall_app. split.
      + intros [[H1 [H2 H12]] [Hx1 Hx2]]. repeat split; try assumption. constructor; assumption.
      + intros [[H1 Hx1] [H2 H12]]. inversion H12 as [|? ? Hx2 H12']; subst.
        repeat split; assumption.
  Qed.

  Lemma sorted_keys_NoDup (items : list item) : sorted_keys items -> NoDup (map fst items).
  Proof.
    induction items as [|x l IH]; intros H; cbn [map]; [constructor|].
    apply sorted_keys_cons in H as [Hs Hf]. constructor; [|exact (IH Hs)].
    intros Hin. apply in_map_iff in Hin as [y [Hy Hin]].
    rewrite Forall_forall in Hf. specialize (Hf y Hin). cbv beta in Hf.
    apply bytes_ltb_neq in Hf. congruence.
  Qed.

  (** in a sorted store only the first key can be empty *)
  Lemma sorted_keys_tail_nonempty (x : item) (l : list item) :
    sorted_keys (x :: l) -> no_empty_key l.
  Proof.
    intros H. apply sorted_keys_cons in H as [_ Hf]. unfold no_empty_key.
    rewrite Forall_forall in Hf. apply Forall_forall. intros y Hin E.
    specialize (Hf y Hin). cbv beta in Hf. rewrite E in Hf. rewrite bytes_ltb_nil_r in Hf. discriminate.
  Qed.

  Lemma key_is_nil_nonempty (k : bytes) : k <> [] -> key_is_nil (Some k) = false.
  Proof. destruct k; [congruence | reflexivity]. Qed.

  (** ** the store iterators on a sorted store *)
  Lemma range_all items : range items [] None = items.
  Proof.
    unfold range. apply filter_all_true. apply Forall_forall. intros x _.
    unfold in_range. rewrite bytes_leb_nil_l. reflexivity.
  Qed.

  (** [Iterator(k, nil)] positioned on a stored key: that item and everything after it *)
  Lemma range_from done k v rest :
    sorted_keys (done ++ (k, v) :: rest) ->
    range (done ++ (k, v) :: rest) k None = (k, v) :: rest.
  Proof.
    intros H. apply sorted_keys_app in H as [_ [H2 H12]].
    apply sorted_keys_cons in H2 as [_ Hk]. cbn [fst] in Hk.
    unfold range. rewrite filter_app. rewrite filter_all_false, filter_all_true; [reflexivity| |].
    - constructor.
      + unfold in_range, bytes_leb. cbn [fst]. rewrite bytes_ltb_irrefl. reflexivity.
      + revert Hk. apply Forall_impl. intros y Hy. unfold in_range, bytes_leb.
        rewrite (bytes_ltb_asym _ _ Hy). reflexivity.
    - revert H12. apply Forall_impl. intros x Hx. inversion Hx as [|? ? Hxk _]; subst.
      cbn [fst] in Hxk. unfold in_range, bytes_leb. rewrite Hxk. reflexivity.
  Qed.

  (** [ReverseIterator(nil, k2)] with [k2] a stored key: everything strictly before it *)
  Lemma range_below rest k2 v2 done :
    sorted_keys (rest ++ (k2, v2) :: done) ->
    range (rest ++ (k2, v2) :: done) [] (Some k2) = rest.
  Proof.
    intros H. apply sorted_keys_app in H as [_ [H2 H12]].
    apply sorted_keys_cons in H2 as [_ Hk]. cbn [fst] in Hk.
    unfold range. rewrite filter_app. rewrite filter_all_true, filter_all_false.
    - apply app_nil_r.
    - constructor.
      + unfold in_range. cbn [fst]. rewrite bytes_ltb_irrefl. apply andb_false_r.
      + revert Hk. apply Forall_impl. intros y Hy. unfold in_range.
        rewrite (bytes_ltb_asym _ _ Hy). apply andb_false_r.
    - revert H12. apply Forall_impl. intros x Hx. inversion Hx as [|? ? Hxk _]; subst.
      cbn [fst] in Hxk. unfold in_range. rewrite bytes_leb_nil_l, Hxk. reflexivity.
  Qed.
  (** ** the loops *)
  Ltac nlia := unfold u64, two64 in *; lia.

  Lemma u64_small (n : N) : n < two64 -> u64 n = n.
  Proof. intros H. unfold u64. apply N.mod_small. exact H. Qed.

  Lemma key_loop_spec it : forall limit count out,
    count <= limit -> limit < two64 ->
    key_loop it limit count out =
      (rev out ++ firstn (N.to_nat (limit - count)) it,
       next_key_of (skipn (N.to_nat (limit - count)) it)).
  Proof.
    induction it as [|[k v] rest IH]; intros limit count out Hle Hlt; cbn [key_loop].
    - rewrite firstn_nil, skipn_nil, app_nil_r. reflexivity.
    - destruct (N.eqb_spec count limit) as [E|NE].
      + subst count. rewrite N.sub_diag. cbn [N.to_nat firstn skipn next_key_of].
        rewrite app_nil_r. reflexivity.
      + rewrite u64_small by nlia. rewrite IH by lia.
        replace (N.to_nat (limit - count)) with (S (N.to_nat (limit - (count + 1)))) by lia.
        cbn [firstn skipn rev]. rewrite <- app_assoc. reflexivity.
  Qed.

  (** phase 1 of the offset loop: the first [offset] items are skipped *)
  Lemma off_skip offset end_ ct its1 : forall its2 out next c,
    offset < two64 -> c + N.of_nat (length its1) <= offset ->
    off_loop offset end_ ct (its1 ++ its2) out next c =
    off_loop offset end_ ct its2 out next (c + N.of_nat (length its1)).
  Proof.
    induction its1 as [|[k v] its1 IH]; intros its2 out next c Ho Hc.
    - cbn [app length N.of_nat]. rewrite N.add_0_r. reflexivity.
    - cbn [app length] in *. cbn [off_loop].
      rewrite u64_small by nlia.
      replace (c + 1 <=? offset) with true by (symmetry; apply N.leb_le; lia).
      rewrite IH by lia. f_equal. lia.
  Qed.

  (** phase 2: items number [offset+1 .. end] are passed to onResult *)
  Lemma off_collect offset end_ ct its1 : forall its2 out next c,
    end_ < two64 -> offset <= c -> c + N.of_nat (length its1) <= end_ ->
    off_loop offset end_ ct (its1 ++ its2) out next c =
    off_loop offset end_ ct its2 (rev its1 ++ out) next (c + N.of_nat (length its1)).
  Proof.
    induction its1 as [|[k v] its1 IH]; intros its2 out next c He Ho Hc.
    - cbn [app length N.of_nat rev]. rewrite N.add_0_r. reflexivity.
    - cbn [app length] in *. cbn [off_loop].
      rewrite u64_small by nlia.
      replace (c + 1 <=? offset) with false by (symmetry; apply N.leb_gt; lia).
      replace (c + 1 <=? end_) with true by (symmetry; apply N.leb_le; lia).
      rewrite IH by lia. cbn [rev]. rewrite <- app_assoc. cbn [app]. f_equal. lia.
  Qed.

  (** phase 4 (countTotal): past [end+1] the loop only counts *)
  Lemma off_tail offset end_ ct it : forall out next c,
    offset <= end_ -> end_ < c -> c + N.of_nat (length it) < two64 ->
    off_loop offset end_ ct it out next c = (out, next, c + N.of_nat (length it)).
  Proof.
    induction it as [|[k v] it IH]; intros out next c Hoe Hc Hb.
    - cbn [off_loop length N.of_nat]. rewrite N.add_0_r. reflexivity.
    - cbn [length] in *. cbn [off_loop].
      rewrite (u64_small (c + 1)) by nlia. rewrite (u64_small (end_ + 1)) by nlia.
      replace (c + 1 <=? offset) with false by (symmetry; apply N.leb_gt; lia).
      replace (c + 1 <=? end_) with false by (symmetry; apply N.leb_gt; lia).
      replace (c + 1 =? end_ + 1) with false by (symmetry; apply N.eqb_neq; lia).
      rewrite IH by lia. f_equal. lia.
  Qed.

  Lemma off_loop_parts s1 s2 s3 offset limit ct :
    offset + limit < two64 ->
    (N.of_nat (length (s1 ++ s2 ++ s3)) < two64 \/ (ct = false /\ offset + limit + 1 < two64)) ->
    N.of_nat (length s1) <= offset ->
    (N.of_nat (length s1) < offset -> s2 = [] /\ s3 = []) ->
    N.of_nat (length s2) <= limit ->
    (N.of_nat (length s2) < limit -> s3 = []) ->
    exists cnt,
      off_loop offset (offset + limit) ct (s1 ++ s2 ++ s3) [] None 0 = (rev s2, next_key_of s3, cnt)
      /\ (ct = true -> cnt = N.of_nat (length (s1 ++ s2 ++ s3))).
  Proof.
    intros Hol Hb H1 H1' H2 H2'.
    rewrite !app_length in *.
    rewrite off_skip by nlia. rewrite N.add_0_l.
    destruct (N.lt_ge_cases (N.of_nat (length s1)) offset) as [Hlt|Hge].
    - destruct (H1' Hlt) as [E2 E3]. subst s2 s3.
      cbn [app off_loop rev next_key_of length]. eexists; split; [reflexivity|]. intros _. lia.
    - assert (E1 : N.of_nat (length s1) = offset) by lia.
      rewrite off_collect by nlia. rewrite app_nil_r.
      destruct s3 as [|[k v] r].
      + cbn [off_loop next_key_of]. eexists; split; [reflexivity|]. intros _. cbn [length]. lia.
      + assert (E2 : N.of_nat (length s2) = limit).
        { destruct (N.lt_ge_cases (N.of_nat (length s2)) limit) as [Hl|Hg];
            [specialize (H2' Hl); discriminate | lia]. }
        cbn [length] in Hb.
        cbn [off_loop next_key_of]. rewrite E1, E2.
        assert (Hlt : offset + limit + 1 < two64) by (destruct Hb as [Hb|[_ Hb]]; nlia).
        rewrite !u64_small by exact Hlt.
        replace (offset + limit + 1 <=? offset) with false by (symmetry; apply N.leb_gt; lia).
        replace (offset + limit + 1 <=? offset + limit) with false
          by (symmetry; apply N.leb_gt; lia).
        rewrite N.eqb_refl.
        destruct ct.
        * destruct Hb as [Hb|[Hf _]]; [|discriminate Hf].
          rewrite off_tail by nlia. eexists; split; [reflexivity|]. intros _. cbn [length]. lia.
        * eexists; split; [reflexivity|]. intros Hf; discriminate Hf.
  Qed.

  (** ** one page, offset style *)
  Lemma get_iterator_nil items reverse :
    get_iterator items None reverse = Ok (visit_order reverse items).
  Proof.
    unfold get_iterator, store_reverse_iterator, store_iterator, visit_order, nil_to_empty.
    rewrite range_all. destruct reverse; reflexivity.
  Qed.

  Lemma visit_order_length reverse items : length (visit_order reverse items) = length items.
  Proof. destruct reverse; [apply rev_length | reflexivity]. Qed.

  Lemma page_by_offset_spec items offset limit ct reverse :
    offset + limit < two64 ->
    (N.of_nat (length items) < two64 \/ (ct = false /\ offset + limit + 1 < two64)) ->
    page_by_offset items offset limit ct reverse =
      Ok (firstn (N.to_nat limit) (skipn (N.to_nat offset) (visit_order reverse items)),
          mk_page_res
            (next_key_of (skipn (N.to_nat limit) (skipn (N.to_nat offset) (visit_order reverse items))))
            (if ct then N.of_nat (length items) else 0)).
  Proof.
    intros Hol Hb. unfold page_by_offset. rewrite get_iterator_nil. cbn [bind].
    rewrite <- (visit_order_length reverse items) in *.
    set (seq := visit_order reverse items) in *.
    set (o := N.to_nat offset). set (L := N.to_nat limit).
    pose proof (off_loop_parts (firstn o seq) (firstn L (skipn o seq)) (skipn L (skipn o seq))
                               offset limit ct Hol) as P.
    rewrite !firstn_skipn in P.
    destruct P as [cnt [Hrun Hcnt]].
    - exact Hb.
    - rewrite firstn_length. lia.
    - rewrite firstn_length. intros Hlt.
      assert (Hs : skipn o seq = []) by (apply skipn_all2; lia).
      rewrite Hs, firstn_nil, skipn_nil. split; reflexivity.
    - rewrite firstn_length. lia.
    - rewrite firstn_length. intros Hlt. apply skipn_all2. lia.
    - rewrite u64_small by exact Hol. rewrite Hrun, rev_involutive.
      destruct ct; [rewrite (Hcnt eq_refl)|]; reflexivity.
  Qed.

  (** Any request with an empty key takes the offset branch.  [Some []] (empty, non-nil) is only
      accepted together with offset 0. *)
  Lemma paginate_offset_spec items key offset limit ct reverse :
    key_is_nil key = true -> (offset = 0 \/ key = None) ->
    0 < limit -> offset + limit < two64 ->
    (N.of_nat (length items) < two64 \/ (ct = false /\ offset + limit + 1 < two64)) ->
    paginate items (Some (mk_page_req key offset limit ct reverse)) =
      Ok (firstn (N.to_nat limit) (skipn (N.to_nat offset) (visit_order reverse items)),
          mk_page_res
            (next_key_of (skipn (N.to_nat limit) (skipn (N.to_nat offset) (visit_order reverse items))))
            (if ct then N.of_nat (length items) else 0)).
  Proof.
    intros Hk Hok Hl Hol Hb. unfold paginate.
    cbn [pr_key pr_offset pr_limit pr_count_total pr_reverse].
    replace ((0 <? offset) && key_not_nil key)%bool with false
      by (destruct Hok as [E|E]; subst; [reflexivity | symmetry; apply andb_false_r]).
    replace (limit =? 0) with false by (symmetry; apply N.eqb_neq; lia).
    rewrite Hk. cbn [negb]. apply page_by_offset_spec; assumption.
  Qed.
  (** ** one page, key style *)
  Lemma paginate_key_unfold items k limit ct reverse :
    k <> [] -> 0 < limit ->
    paginate items (Some (mk_page_req (Some k) 0 limit ct reverse)) =
    page_by_key items (Some k) limit reverse.
  Proof.
    intros Hk Hl. unfold paginate. cbn [pr_key pr_offset pr_limit pr_count_total pr_reverse].
    rewrite N.ltb_irrefl. cbn [andb].
    replace (limit =? 0) with false by (symmetry; apply N.eqb_neq; lia).
    rewrite key_is_nil_nonempty by exact Hk. reflexivity.
  Qed.

  (** forward, from a stored key: that item and its successors *)
  Lemma paginate_key_forward done k v rest limit ct :
    sorted_keys (done ++ (k, v) :: rest) -> k <> [] -> 0 < limit < two64 ->
    paginate (done ++ (k, v) :: rest) (Some (mk_page_req (Some k) 0 limit ct false)) =
      Ok (firstn (N.to_nat limit) ((k, v) :: rest),
          mk_page_res (next_key_of (skipn (N.to_nat limit) ((k, v) :: rest))) 0).
  Proof.
    intros Hs Hk [Hl0 Hl]. rewrite paginate_key_unfold by assumption.
    unfold page_by_key, get_iterator, store_iterator, nil_to_empty.
    rewrite range_from by exact Hs. cbn [bind].
    rewrite key_loop_spec by lia. rewrite N.sub_0_r. reflexivity.
  Qed.

  (** reverse, from a stored key that is not the greatest one: that item and its predecessors *)
  Lemma paginate_key_reverse seq k v k2 v2 done limit ct :
    sorted_keys (rev ((k, v) :: seq) ++ (k2, v2) :: done) -> k <> [] -> 0 < limit < two64 ->
    paginate (rev ((k, v) :: seq) ++ (k2, v2) :: done)
             (Some (mk_page_req (Some k) 0 limit ct true)) =
      Ok (firstn (N.to_nat limit) ((k, v) :: seq),
          mk_page_res (next_key_of (skipn (N.to_nat limit) ((k, v) :: seq))) 0).
  Proof.
    intros Hs Hk [Hl0 Hl]. rewrite paginate_key_unfold by assumption.
    assert (E2 : range (rev ((k, v) :: seq) ++ (k2, v2) :: done) [] (Some k2) = rev ((k, v) :: seq))
      by (apply range_below; exact Hs).
    assert (E1 : range (rev ((k, v) :: seq) ++ (k2, v2) :: done) k None = (k, v) :: (k2, v2) :: done).
    { revert Hs. cbn [rev]. rewrite <- app_assoc. cbn [app]. apply range_from. }
    unfold page_by_key, get_iterator, store_iterator, store_reverse_iterator, nil_to_empty.
    rewrite E1. cbv beta iota. rewrite E2, rev_involutive. cbn [bind].
    rewrite key_loop_spec by lia. rewrite N.sub_0_r. reflexivity.
  Qed.

  (** ** the next keys handed out are never empty *)
  Lemma no_empty_key_skipn (n : nat) (l : list item) : no_empty_key l -> no_empty_key (skipn n l).
  Proof.
    unfold no_empty_key. intros H. rewrite <- (firstn_skipn n l) in H.
    apply Forall_app in H. apply H.
  Qed.

  Lemma visit_tail_nonempty items reverse (n : nat) :
    sorted_keys items -> (reverse = true -> no_empty_key items) -> (0 < n)%nat ->
    no_empty_key (skipn n (visit_order reverse items)).
  Proof.
    intros Hs Hne Hn. destruct reverse; cbn [visit_order].
    - apply no_empty_key_skipn. apply Forall_rev. exact (Hne eq_refl).
    - destruct items as [|x l]; [rewrite skipn_nil; constructor|].
      destruct n as [|n]; [lia|]. cbn [skipn]. apply no_empty_key_skipn.
      exact (sorted_keys_tail_nonempty _ _ Hs).
  Qed.

  Lemma no_empty_key_head k v (l : list item) :
    no_empty_key ((k, v) :: l) -> key_is_nil (Some k) = false.
  Proof. intros H. apply Forall_inv in H. apply key_is_nil_nonempty. exact H. Qed.

  (** ** Theorem 1: key-style paging *)
  Lemma pages_by_key_forward_from fuel : forall items done rest limit ct,
    items = done ++ rest -> sorted_keys items -> done <> [] -> rest <> [] ->
    0 < limit < two64 -> (length rest <= fuel)%nat ->
    pages_by_key fuel items limit ct false (next_key_of rest) = Ok rest.
  Proof.
    induction fuel as [|f IH]; intros items done rest limit ct Hit Hs Hd Hr Hl Hf.
    - destruct rest as [|x rest']; [congruence | cbn [length] in Hf; lia].
    - destruct rest as [|[k v] rest']; [congruence|]. cbn [next_key_of pages_by_key].
      assert (Hne : no_empty_key ((k, v) :: rest')).
      { destruct done as [|d done']; [congruence|]. subst items. cbn [app] in Hs.
        apply sorted_keys_tail_nonempty in Hs. apply Forall_app in Hs. apply Hs. }
      subst items.
      rewrite paginate_key_forward;
        [| exact Hs | apply Forall_inv in Hne; exact Hne | exact Hl].
      cbn [bind fst snd pg_next_key].
      set (L := N.to_nat limit). set (R := (k, v) :: rest') in *.
      pose proof (firstn_skipn L R) as Hfs.
      pose proof (no_empty_key_skipn L R Hne) as Hne'.
      destruct (skipn L R) as [|[k' v'] r''] eqn:Esk.
      + cbn [next_key_of key_is_nil]. rewrite app_nil_r in Hfs. rewrite Hfs. reflexivity.
      + cbn [next_key_of]. rewrite (no_empty_key_head _ _ _ Hne').
        change (Some k') with (next_key_of ((k', v') :: r'')). rewrite <- Esk.
        rewrite (IH (done ++ R) (done ++ firstn L R) (skipn L R) limit ct).
        * cbn [bind]. rewrite firstn_skipn. reflexivity.
        * rewrite <- app_assoc, firstn_skipn. reflexivity.
        * exact Hs.
        * intros E. apply app_eq_nil in E as [E _]. exact (Hd E).
        * rewrite Esk. discriminate.
        * exact Hl.
        * rewrite skipn_length. subst L R. cbn [length] in *. lia.
  Qed.

  Lemma pages_by_key_reverse_from fuel : forall items seq done limit ct,
    items = rev seq ++ done -> sorted_keys items -> done <> [] -> seq <> [] ->
    no_empty_key seq -> 0 < limit < two64 -> (length seq <= fuel)%nat ->
    pages_by_key fuel items limit ct true (next_key_of seq) = Ok seq.
  Proof.
    induction fuel as [|f IH]; intros items seq done limit ct Hit Hs Hd Hr Hne Hl Hf.
    - destruct seq as [|x seq']; [congruence | cbn [length] in Hf; lia].
    - destruct seq as [|[k v] seq']; [congruence|].
      destruct done as [|[k2 v2] done']; [congruence|].
      cbn [next_key_of pages_by_key]. subst items.
      rewrite paginate_key_reverse;
        [| exact Hs | apply Forall_inv in Hne; exact Hne | exact Hl].
      cbn [bind fst snd pg_next_key].
      set (L := N.to_nat limit). set (R := (k, v) :: seq') in *.
      set (D := (k2, v2) :: done') in *.
      pose proof (firstn_skipn L R) as Hfs.
      pose proof (no_empty_key_skipn L R Hne) as Hne'.
      destruct (skipn L R) as [|[k' v'] r''] eqn:Esk.
      + cbn [next_key_of key_is_nil]. rewrite app_nil_r in Hfs. rewrite Hfs. reflexivity.
      + cbn [next_key_of]. rewrite (no_empty_key_head _ _ _ Hne').
        change (Some k') with (next_key_of ((k', v') :: r'')). rewrite <- Esk.
        rewrite (IH (rev R ++ D) (skipn L R) (rev (firstn L R) ++ D) limit ct).
        * cbn [bind]. rewrite firstn_skipn. reflexivity.
        * rewrite app_assoc, <- rev_app_distr, firstn_skipn. reflexivity.
        * exact Hs.
        * intros E. apply app_eq_nil in E as [_ E]. exact (Hd E).
        * rewrite Esk. discriminate.
        * rewrite Esk. exact Hne'.
        * exact Hl.
        * rewrite skipn_length. subst L R. cbn [length] in *. lia.
  Qed.

  (** Key-style paging from a nil key returns every item exactly once, in iteration order, and in
      particular never runs into the reverse-iterator panic.  The first request (nil key) is served
      by the offset branch with offset 0, hence the overflow side condition: either the store has
      fewer than 2^64 items, or the loop breaks at [limit+1] (no count_total) before any wrap.
      Reverse paging needs [no_empty_key]: an item with the empty sub-key comes last in reverse
      order, its key is handed out as a NextKey of length 0, and the client stops one item short. *)
  Theorem pages_by_key_complete fuel items limit ct reverse :
    sorted_keys items -> (reverse = true -> no_empty_key items) ->
    0 < limit < two64 ->
    (N.of_nat (length items) < two64 \/ (ct = false /\ limit + 1 < two64)) ->
    (length items < fuel)%nat ->
    pages_by_key fuel items limit ct reverse None = Ok (visit_order reverse items).
  Proof.
    intros Hs Hne Hl Hb Hf. destruct fuel as [|f]; [lia|]. cbn [pages_by_key].
    rewrite paginate_offset_spec;
      [| reflexivity | left; reflexivity | lia | rewrite N.add_0_l; lia | rewrite N.add_0_l; exact Hb].
    cbn [bind fst snd pg_next_key N.to_nat skipn].
    set (L := N.to_nat limit).
    assert (HL : (0 < L)%nat) by (subst L; lia).
    pose proof (visit_tail_nonempty items reverse L Hs Hne HL) as Hne'.
    pose proof (visit_order_length reverse items) as Hlen.
    set (S := visit_order reverse items) in *.
    pose proof (firstn_skipn L S) as Hfs.
    destruct (skipn L S) as [|[k' v'] r''] eqn:Esk.
    - cbn [next_key_of key_is_nil]. rewrite app_nil_r in Hfs. rewrite Hfs. reflexivity.
    - cbn [next_key_of]. rewrite (no_empty_key_head _ _ _ Hne').
      change (Some k') with (next_key_of ((k', v') :: r'')). rewrite <- Esk.
      assert (Hsl : length (skipn L S) = Datatypes.S (length r'')) by (rewrite Esk; reflexivity).
      rewrite skipn_length in Hsl.
      assert (Hd : firstn L S <> []).
      { intros E. apply (f_equal (@length item)) in E. rewrite firstn_length in E.
        cbn [length] in E. lia. }
      assert (Hr : skipn L S <> []) by (rewrite Esk; discriminate).
      destruct reverse; subst S; cbn [visit_order] in *.
      + rewrite (pages_by_key_reverse_from f items (skipn L (rev items))
                   (rev (firstn L (rev items))) limit ct).
        * cbn [bind]. rewrite firstn_skipn. reflexivity.
        * rewrite <- rev_app_distr, firstn_skipn, rev_involutive. reflexivity.
        * exact Hs.
        * intros E. apply (f_equal (@rev item)) in E. rewrite rev_involutive in E. exact (Hd E).
        * exact Hr.
        * rewrite Esk. exact Hne'.
        * exact Hl.
        * rewrite skipn_length. lia.
      + rewrite (pages_by_key_forward_from f items (firstn L items) (skipn L items) limit ct).
        * cbn [bind]. rewrite firstn_skipn. reflexivity.
        * rewrite firstn_skipn. reflexivity.
        * exact Hs.
        * exact Hd.
        * exact Hr.
        * exact Hl.
        * rewrite skipn_length. lia.
  Qed.

  Corollary pages_by_key_forward fuel items limit ct :
    sorted_keys items -> 0 < limit < two64 ->
    (N.of_nat (length items) < two64 \/ (ct = false /\ limit + 1 < two64)) ->
    (length items < fuel)%nat ->
    pages_by_key fuel items limit ct false None = Ok items.
  Proof.
    intros Hs Hl Hb Hf. apply (pages_by_key_complete fuel items limit ct false); try assumption.
    intros E; discriminate E.
  Qed.

  Corollary pages_by_key_reverse fuel items limit ct :
    sorted_keys items -> no_empty_key items -> 0 < limit < two64 ->
    (N.of_nat (length items) < two64 \/ (ct = false /\ limit + 1 < two64)) ->
    (length items < fuel)%nat ->
    pages_by_key fuel items limit ct true None = Ok (rev items).
  Proof.
    intros Hs Hne Hl Hb Hf. apply (pages_by_key_complete fuel items limit ct true); try assumption.
    intros _. exact Hne.
  Qed.

  (** ** Theorem 2: offset-style paging *)
  Lemma pages_by_offset_from fuel : forall items limit ct reverse (o : nat),
    sorted_keys items -> (reverse = true -> no_empty_key items) ->
    0 < limit -> N.of_nat (length items) + limit < two64 ->
    (o <= length items)%nat -> (length items - o < fuel)%nat ->
    pages_by_offset fuel items limit ct reverse (N.of_nat o) =
    Ok (skipn o (visit_order reverse items)).
  Proof.
    induction fuel as [|f IH]; intros items limit ct reverse o Hs Hne Hl Hb Ho Hf; [lia|].
    cbn [pages_by_offset].
    rewrite paginate_offset_spec;
      [| reflexivity | right; reflexivity | exact Hl | nlia | left; nlia].
    rewrite Nat2N.id. cbn [bind fst snd pg_next_key].
    set (L := N.to_nat limit).
    assert (HL : (0 < o + L)%nat) by (subst L; lia).
    pose proof (visit_tail_nonempty items reverse (o + L) Hs Hne HL) as Hne'.
    pose proof (visit_order_length reverse items) as Hlen.
    set (S := visit_order reverse items) in *.
    pose proof (firstn_skipn L (skipn o S)) as Hfs.
    rewrite skipn_skipn_add in *.
    destruct (skipn (o + L) S) as [|[k' v'] r''] eqn:Esk.
    - cbn [next_key_of key_is_nil]. rewrite app_nil_r in Hfs. rewrite Hfs. reflexivity.
    - cbn [next_key_of]. rewrite (no_empty_key_head _ _ _ Hne').
      assert (Hsl : length (skipn (o + L) S) = Datatypes.S (length r'')) by (rewrite Esk; reflexivity).
      rewrite skipn_length in Hsl.
      replace (N.of_nat o + limit) with (N.of_nat (o + L)) by (subst L; lia).
      rewrite (IH items limit ct reverse (o + L)%nat Hs Hne Hl Hb) by lia.
      cbn [bind]. fold S. rewrite Esk. rewrite Hfs. reflexivity.
  Qed.

  (** Requesting offsets 0, limit, 2*limit, ... until NextKey is empty returns every item exactly
      once, in iteration order. *)
  Theorem pages_by_offset_complete fuel items limit ct reverse :
    sorted_keys items -> (reverse = true -> no_empty_key items) ->
    0 < limit -> N.of_nat (length items) + limit < two64 ->
    (length items < fuel)%nat ->
    pages_by_offset fuel items limit ct reverse 0 = Ok (visit_order reverse items).
  Proof.
    intros Hs Hne Hl Hb Hf.
    exact (pages_by_offset_from fuel items limit ct reverse 0%nat Hs Hne Hl Hb
             (Nat.le_0_l _) ltac:(lia)).
  Qed.

  Corollary pages_by_offset_forward fuel items limit ct :
    sorted_keys items -> 0 < limit -> N.of_nat (length items) + limit < two64 ->
    (length items < fuel)%nat ->
    pages_by_offset fuel items limit ct false 0 = Ok items.
  Proof.
    intros Hs Hl Hb Hf. apply (pages_by_offset_complete fuel items limit ct false); try assumption.
    intros E; discriminate E.
  Qed.

  Corollary pages_by_offset_reverse fuel items limit ct :
    sorted_keys items -> no_empty_key items -> 0 < limit ->
    N.of_nat (length items) + limit < two64 -> (length items < fuel)%nat ->
    pages_by_offset fuel items limit ct true 0 = Ok (rev items).
  Proof.
    intros Hs Hne Hl Hb Hf. apply (pages_by_offset_complete fuel items limit ct true); try assumption.
    intros _. exact Hne.
  Qed.

  (** with count_total every page, whatever its offset, reports the size of the store *)
  Theorem paginate_offset_total items offset limit reverse :
    0 < limit -> offset + limit < two64 -> N.of_nat (length items) < two64 ->
    exists its next,
      paginate items (Some (mk_page_req None offset limit true reverse)) =
      Ok (its, mk_page_res next (N.of_nat (length items))).
  Proof.
    intros Hl Hol Hb. eexists. eexists.
    rewrite paginate_offset_spec;
      [reflexivity | reflexivity | right; reflexivity | exact Hl | exact Hol | left; exact Hb].
  Qed.
  (** ** Theorem 3: no duplicates, nothing missing *)
  Lemma visit_order_perm reverse items : Permutation (visit_order reverse items) items.
  Proof.
    destruct reverse; cbn [visit_order]; [|apply Permutation_refl].
    apply Permutation_sym. apply Permutation_rev.
  Qed.

  Lemma visit_order_NoDup reverse items :
    sorted_keys items -> NoDup (map fst (visit_order reverse items)).
  Proof.
    intros Hs. apply (Permutation_NoDup (l := map fst items)).
    - apply Permutation_map. apply Permutation_sym. apply visit_order_perm.
    - apply sorted_keys_NoDup. exact Hs.
  Qed.

  Corollary pages_by_key_nodup_perm fuel items limit ct reverse :
    sorted_keys items -> (reverse = true -> no_empty_key items) ->
    0 < limit < two64 ->
    (N.of_nat (length items) < two64 \/ (ct = false /\ limit + 1 < two64)) ->
    (length items < fuel)%nat ->
    exists out,
      pages_by_key fuel items limit ct reverse None = Ok out /\
      NoDup (map fst out) /\ Permutation out items /\ Permutation (map fst out) (map fst items).
  Proof.
    intros Hs Hne Hl Hb Hf. exists (visit_order reverse items).
    split; [apply pages_by_key_complete; assumption|].
    split; [apply visit_order_NoDup; exact Hs|].
    split; [apply visit_order_perm | apply Permutation_map; apply visit_order_perm].
  Qed.

  Corollary pages_by_offset_nodup_perm fuel items limit ct reverse :
    sorted_keys items -> (reverse = true -> no_empty_key items) ->
    0 < limit -> N.of_nat (length items) + limit < two64 ->
    (length items < fuel)%nat ->
    exists out,
      pages_by_offset fuel items limit ct reverse 0 = Ok out /\
      NoDup (map fst out) /\ Permutation out items /\ Permutation (map fst out) (map fst items).
  Proof.
    intros Hs Hne Hl Hb Hf. exists (visit_order reverse items).
    split; [apply pages_by_offset_complete; assumption|].
    split; [apply visit_order_NoDup; exact Hs|].
    split; [apply visit_order_perm | apply Permutation_map; apply visit_order_perm].
  Qed.

  (** ** Theorem 4: a nil request *)
  Theorem paginate_default_limit items :
    N.of_nat (length items) < two64 ->
    paginate items None =
      Ok (firstn 100 items,
          mk_page_res (next_key_of (skipn 100 items)) (N.of_nat (length items))).
  Proof.
    intros Hb. unfold paginate, empty_req.
    cbn [pr_key pr_offset pr_limit pr_count_total pr_reverse key_not_nil key_is_nil negb].
    rewrite N.ltb_irrefl, N.eqb_refl. cbn [andb].
    rewrite page_by_offset_spec; [| reflexivity | left; exact Hb].
    replace (N.to_nat default_limit) with 100%nat by reflexivity.
    cbn [N.to_nat visit_order]. reflexivity.
  Qed.

  (** ** exactly when does [Paginate] panic *)
  Lemma page_by_offset_not_panic items offset limit ct reverse :
    page_by_offset items offset limit ct reverse <> Panic.
  Proof.
    unfold page_by_offset. rewrite get_iterator_nil. cbn [bind].
    destruct (off_loop offset (u64 (offset + limit)) ct (visit_order reverse items) [] None 0)
      as [[out next] count].
    discriminate.
  Qed.

  Lemma page_by_key_panic_iff items k limit reverse :
    page_by_key items (Some k) limit reverse = Panic <->
    reverse = true /\ exists x, range items k None = [x].
  Proof.
    unfold page_by_key, get_iterator, store_iterator, nil_to_empty.
    destruct reverse.
    - destruct (range items k None) as [|x [|[k2 v2] r]] eqn:E.
      + cbn [bind]. destruct (key_loop (store_reverse_iterator items None None) limit 0 [])
          as [out next].
        split; [intros H; discriminate H | intros [_ [x Hx]]; discriminate Hx].
      + cbn [bind]. split; [intros _; split; [reflexivity | exists x; reflexivity] | reflexivity].
      + cbn [bind]. destruct (key_loop (store_reverse_iterator items None (Some k2)) limit 0 [])
          as [out next].
        split; [intros H; discriminate H | intros [_ [y Hy]]; discriminate Hy].
    - cbn [bind]. destruct (key_loop (range items k None) limit 0 []) as [out next].
      split; [intros H; discriminate H | intros [H _]; discriminate H].
  Qed.

  (** [Paginate] panics exactly on a reverse request with a non-empty key such that exactly one
      stored key is >= the request key, i.e. second-greatest key < request key <= greatest key
      (or request key <= the only key of a one-item store). *)
  Theorem paginate_panic_iff items req :
    paginate items (Some req) = Panic <->
    pr_reverse req = true /\ pr_offset req = 0 /\
    exists k x, pr_key req = Some k /\ k <> [] /\ range items k None = [x].
  Proof.
    destruct req as [key offset limit ct reverse]. unfold paginate.
    cbn [pr_key pr_offset pr_limit pr_count_total pr_reverse].
    set (lim := if limit =? 0 then default_limit else limit).
    set (ct' := if limit =? 0 then true else ct).
    destruct (N.ltb_spec 0 offset) as [Hpos|Hz].
    - destruct key as [k|]; cbn [key_not_nil andb].
      + split; [intros H; discriminate H | intros [_ [Ho _]]; lia].
      + cbn [key_is_nil negb]. split.
        * intros H. exfalso. exact (page_by_offset_not_panic _ _ _ _ _ H).
        * intros [_ [Ho _]]. lia.
    - assert (Ho : offset = 0) by lia. subst offset. cbn [andb].
      destruct key as [[|b0 k]|]; cbn [key_is_nil negb].
      + split.
        * intros H. exfalso. exact (page_by_offset_not_panic _ _ _ _ _ H).
        * intros [_ [_ [k [x [Hk [Hne _]]]]]]. inversion Hk as [Hk']. subst k. congruence.
      + rewrite page_by_key_panic_iff. split.
        * intros [Hr [x Hx]]. split; [exact Hr|]. split; [reflexivity|].
          exists (b0 :: k), x. split; [reflexivity|]. split; [discriminate | exact Hx].
        * intros [Hr [_ [k' [x [Hk [_ Hx]]]]]]. inversion Hk as [Hk']. subst k'.
          split; [exact Hr | exists x; exact Hx].
      + split.
        * intros H. exfalso. exact (page_by_offset_not_panic _ _ _ _ _ H).
        * intros [_ [_ [k [x [Hk _]]]]]. discriminate Hk.
  Qed.
End Proofs.

(** ** Examples (all by computation) *)
Definition ex5 : list (bytes * N) :=
  [(b "a", 1); (b "c", 2); (b "e", 3); (b "g", 4); (b "i", 5)].
Definition rq (k : option bytes) (o l : N) (ct r : bool) : option page_req :=
  Some (mk_page_req k o l ct r).

(** The SDK panic ("prefixIterator invalid, cannot call Key()"): reverse from the greatest key. *)
Theorem paginate_reverse_greatest_key_panics :
  exists (items : list (bytes * N)) (req : page_req), paginate items (Some req) = Panic.
Proof. exists ex5, (mk_page_req (Some (b "i")) 0 2 false true). vm_compute. reflexivity. Qed.

(** ... and from any key between the two greatest keys *)
Example paginate_reverse_above_second_greatest_panics :
  paginate ex5 (rq (Some (b "h")) 0 2 false true) = Panic.
Proof. vm_compute. reflexivity. Qed.

(** Reverse from a key that is not stored starts at the next GREATER stored key: asking for the
    items "from d downwards" returns e (> d) first. *)
Example paginate_reverse_absent_key_starts_above :
  paginate ex5 (rq (Some (b "d")) 0 2 false true) =
  Ok ([(b "e", 3); (b "c", 2)], mk_page_res (Some (b "a")) 0).
Proof. vm_compute. reflexivity. Qed.

(** Reverse from a key above every stored key: the whole store from the top. *)
Example paginate_reverse_key_above_all :
  paginate ex5 (rq (Some (b "z")) 0 2 false true) =
  Ok ([(b "i", 5); (b "g", 4)], mk_page_res (Some (b "e")) 0).
Proof. vm_compute. reflexivity. Qed.

(** Forward from an absent key starts at the next greater stored key (as expected). *)
Example paginate_forward_absent_key :
  paginate ex5 (rq (Some (b "d")) 0 2 false false) =
  Ok ([(b "e", 3); (b "g", 4)], mk_page_res (Some (b "i")) 0).
Proof. vm_compute. reflexivity. Qed.

(** offset and key together: error, also for an empty non-nil key *)
Example paginate_offset_and_key :
  paginate ex5 (rq (Some (b "e")) 1 2 false false) = perr /\
  paginate ex5 (rq (Some []) 1 2 false false) = perr.
Proof. split; vm_compute; reflexivity. Qed.

(** [offset + limit] wraps around: empty page, no next key *)
Example paginate_offset_limit_wraps :
  paginate ex5 (rq None 3 18446744073709551614 true false) = Ok ([], mk_page_res None 5).
Proof. vm_compute. reflexivity. Qed.

(** an item with the empty sub-key: reverse paging stops one item short, because the last
    NextKey is non-nil but has length 0 *)
Example reverse_paging_misses_empty_key :
  let items := ([], 0) :: ex5 in
  paginate items (rq None 0 5 false true) =
    Ok ([(b "i", 5); (b "g", 4); (b "e", 3); (b "c", 2); (b "a", 1)], mk_page_res (Some []) 0)
  /\ pages_by_key 10 items 5 false true None = Ok (rev ex5)
  /\ pages_by_offset 10 items 5 false true 0 = Ok (rev ex5).
Proof. vm_compute. repeat split; reflexivity. Qed.

(** 5 items, limits 1, 2, 3, forward and reverse: single pages *)
Example page_fwd_l1 : paginate ex5 (rq None 0 1 false false) =
  Ok ([(b "a", 1)], mk_page_res (Some (b "c")) 0).
Proof. vm_compute. reflexivity. Qed.
Example page_fwd_l2 : paginate ex5 (rq None 0 2 true false) =
  Ok ([(b "a", 1); (b "c", 2)], mk_page_res (Some (b "e")) 5).
Proof. vm_compute. reflexivity. Qed.
Example page_fwd_l3_off3 : paginate ex5 (rq None 3 3 true false) =
  Ok ([(b "g", 4); (b "i", 5)], mk_page_res None 5).
Proof. vm_compute. reflexivity. Qed.
Example page_fwd_key_l2 : paginate ex5 (rq (Some (b "e")) 0 2 true false) =
  Ok ([(b "e", 3); (b "g", 4)], mk_page_res (Some (b "i")) 0).
Proof. vm_compute. reflexivity. Qed.
Example page_fwd_key_l3 : paginate ex5 (rq (Some (b "e")) 0 3 false false) =
  Ok ([(b "e", 3); (b "g", 4); (b "i", 5)], mk_page_res None 0).
Proof. vm_compute. reflexivity. Qed.
Example page_rev_l1 : paginate ex5 (rq None 0 1 false true) =
  Ok ([(b "i", 5)], mk_page_res (Some (b "g")) 0).
Proof. vm_compute. reflexivity. Qed.
Example page_rev_l2_off4 : paginate ex5 (rq None 4 2 true true) =
  Ok ([(b "a", 1)], mk_page_res None 5).
Proof. vm_compute. reflexivity. Qed.
Example page_rev_l3 : paginate ex5 (rq None 0 3 false true) =
  Ok ([(b "i", 5); (b "g", 4); (b "e", 3)], mk_page_res (Some (b "c")) 0).
Proof. vm_compute. reflexivity. Qed.
Example page_rev_key_l2 : paginate ex5 (rq (Some (b "e")) 0 2 false true) =
  Ok ([(b "e", 3); (b "c", 2)], mk_page_res (Some (b "a")) 0).
Proof. vm_compute. reflexivity. Qed.
Example page_rev_key_l3 : paginate ex5 (rq (Some (b "e")) 0 3 false true) =
  Ok ([(b "e", 3); (b "c", 2); (b "a", 1)], mk_page_res None 0).
Proof. vm_compute. reflexivity. Qed.
Example page_nil_request : paginate ex5 None = Ok (ex5, mk_page_res None 5).
Proof. vm_compute. reflexivity. Qed.

(** ... and whole walks *)
Example walks_l123 :
  pages_by_key 6 ex5 1 false false None = Ok ex5 /\
  pages_by_key 6 ex5 2 false false None = Ok ex5 /\
  pages_by_key 6 ex5 3 true false None = Ok ex5 /\
  pages_by_key 6 ex5 1 false true None = Ok (rev ex5) /\
  pages_by_key 6 ex5 2 true true None = Ok (rev ex5) /\
  pages_by_key 6 ex5 3 false true None = Ok (rev ex5) /\
  pages_by_offset 6 ex5 1 false false 0 = Ok ex5 /\
  pages_by_offset 6 ex5 2 true false 0 = Ok ex5 /\
  pages_by_offset 6 ex5 3 false false 0 = Ok ex5 /\
  pages_by_offset 6 ex5 1 true true 0 = Ok (rev ex5) /\
  pages_by_offset 6 ex5 2 false true 0 = Ok (rev ex5) /\
  pages_by_offset 6 ex5 3 false true 0 = Ok (rev ex5).
Proof. vm_compute. repeat split; reflexivity. Qed.

Print Assumptions pages_by_key_complete.
Print Assumptions pages_by_key_forward.
Print Assumptions pages_by_key_reverse.
Print Assumptions pages_by_offset_complete.
Print Assumptions pages_by_offset_forward.
Print Assumptions pages_by_offset_reverse.
Print Assumptions paginate_offset_total.
Print Assumptions paginate_offset_spec.
Print Assumptions pages_by_key_nodup_perm.
Print Assumptions pages_by_offset_nodup_perm.
Print Assumptions paginate_default_limit.
Print Assumptions paginate_panic_iff.
Print Assumptions paginate_reverse_greatest_key_panics.
