(** The bytes an account signs (property C14), for the 14 custom messages and the three sign modes the chain
    enables: SIGN_MODE_DIRECT, SIGN_MODE_DIRECT_AUX and SIGN_MODE_LEGACY_AMINO_JSON.
    Definitions only; everything is executable and extracted (Driver command ENDSIGN).

    direct : protobuf SignDoc{body_bytes=1, auth_info_bytes=2, chain_id=3, account_number=4}
    aux    : protobuf SignDocDirectAux{body_bytes=1, public_key=2, chain_id=3, account_number=4, sequence=5, tip=6 absent}
    amino  : sdk.MustSortJSON(StdSignDoc): a JSON object whose keys are sorted at every level; every message
             contributes the UNTYPED object of its non-empty fields (the custom modules never register an amino
             name, so there is no {"type":..,"value":..} wrapper). *)
From Coq Require Import Strings.String Strings.Byte.
From Coq Require Import List Arith NArith ZArith Bool.
From PV Require Export Base.Base64.
From PV Require Import Base.Bytes Base.Utf8 Proto.Model Bank.Model Did.Model Chain.Model.
From PV Require Generated.GenConst Generated.GenNft.
Import ListNotations.
Local Open Scope N_scope.

(** ** 1. protobuf: the Any of a message, the transaction body, the two protobuf sign documents *)

Definition custom (m : base_msg) : bool :=
  match m with BAol _ | BDid _ | BPnft _ => true | _ => false end.

(** field numbers of proto/panacea/aol/v2/tx.proto *)
Definition pf_aol (m : aol_msg) : list pfield :=
  match m with
  | ACreateTopic t d o => [PBytes 1 t; PBytes 2 d; PBytes 3 o]
  | AAddWriter t mo d w o => [PBytes 1 t; PBytes 2 mo; PBytes 3 d; PBytes 4 w; PBytes 5 o]
  | ADeleteWriter t w o => [PBytes 1 t; PBytes 2 w; PBytes 3 o]
  | AAddRecord t k v w o f => [PBytes 1 t; PBytes 2 k; PBytes 3 v; PBytes 4 w; PBytes 5 o; PBytes 6 f]
  end.

(** [Document *DIDDocument]: a nil pointer is not emitted, a present document is (even when it marshals to nothing) *)
Definition opt_doc (num : N) (o : option did_doc) : pfield :=
  match o with Some d => PMsg num true (marshal_doc d) | None => PMsg num false [] end.

(** proto/panacea/did/v2/tx.proto *)
Definition pf_did (m : did_msg) : list pfield :=
  match m with
  | DCreate did doc vmid sig from => [PBytes 1 did; opt_doc 2 doc; PBytes 3 vmid; PBytes 4 sig; PBytes 5 from]
  | DUpdate did doc vmid sig from => [PBytes 1 did; opt_doc 2 doc; PBytes 3 vmid; PBytes 4 sig; PBytes 5 from]
  | DDeactivate did vmid sig from => [PBytes 1 did; PBytes 2 vmid; PBytes 3 sig; PBytes 4 from]
  end.

(** proto/panacea/pnft/v2/tx.proto: in the three 8-field messages [data] is field 7 and the account field 8 *)
Definition pf_pnft (m : pnft_msg) : list pfield :=
  match m with
  | PCreateDenom id name symbol description uri uri_hash creator data =>
      [PBytes 1 id; PBytes 2 name; PBytes 3 symbol; PBytes 4 description; PBytes 5 uri; PBytes 6 uri_hash;
       PBytes 7 data; PBytes 8 creator]
  | PUpdateDenom id name symbol description uri uri_hash updater data =>
      [PBytes 1 id; PBytes 2 name; PBytes 3 symbol; PBytes 4 description; PBytes 5 uri; PBytes 6 uri_hash;
       PBytes 7 data; PBytes 8 updater]
  | PDeleteDenom id remover => [PBytes 1 id; PBytes 2 remover]
  | PTransferDenom id sender receiver => [PBytes 1 id; PBytes 2 sender; PBytes 3 receiver]
  | PMint denom_id id name description uri uri_hash data creator =>
      [PBytes 1 denom_id; PBytes 2 id; PBytes 3 name; PBytes 4 description; PBytes 5 uri; PBytes 6 uri_hash;
       PBytes 7 data; PBytes 8 creator]
  | PTransfer denom_id id sender receiver => [PBytes 1 denom_id; PBytes 2 id; PBytes 3 sender; PBytes 4 receiver]
  | PBurn denom_id id burner => [PBytes 1 denom_id; PBytes 2 id; PBytes 3 burner]
  end.

(** messages outside the 14 custom ones are out of scope: no fields *)
Definition msg_fields (m : base_msg) : list pfield :=
  match m with
  | BAol a => pf_aol a
  | BDid d => pf_did d
  | BPnft p => pf_pnft p
  | _ => []
  end.

(** (type URL, protobuf value) *)
Definition msg_any (m : base_msg) : bytes * bytes := (type_url m, marshal (msg_fields m)).

Definition any_bytes (m : base_msg) : bytes := any (fst (msg_any m)) (snd (msg_any m)).

(** TxBody{messages=1, memo=2, timeout_height=3 (always 0 here: omitted)} *)
Definition tx_body (msgs : list base_msg) (memo : bytes) : bytes :=
  marshal [PRepeated 1 (map any_bytes msgs); PBytes 2 memo].

Definition sign_doc_direct (chain_id : bytes) (accnum : N) (memo authinfo : bytes) (msgs : list base_msg) : bytes :=
  marshal [PBytes 1 (tx_body msgs memo); PBytes 2 authinfo; PBytes 3 chain_id; PUint 4 accnum].

(** the public key is a non-nil *Any: always emitted *)
Definition sign_doc_aux (chain_id : bytes) (accnum seq : N) (memo pkany : bytes) (msgs : list base_msg) : bytes :=
  marshal [PBytes 1 (tx_body msgs memo); PMsg 2 true pkany; PBytes 3 chain_id; PUint 4 accnum; PUint 5 seq].

(** ** 2. JSON *)

(** what encoding/json (go >= 1.22, HTML escaping on) writes for one ASCII byte *)
Definition chunk (c : byte) : bytes :=
  let n := Byte.to_N c in
  if (n =? 34) || (n =? 92) then [x5c; c]            (* backslash + the byte itself, for the double quote and the backslash *)
  else if n =? 8 then [x5c; x62]                       (* \b *)
  else if n =? 12 then [x5c; x66]                      (* \f *)
  else if n =? 10 then [x5c; x6e]                      (* \n *)
  else if n =? 13 then [x5c; x72]                      (* \r *)
  else if n =? 9 then [x5c; x74]                       (* \t *)
  else if (n <? 32) || (n =? 60) || (n =? 62) || (n =? 38) then   (* other controls, < > & *)
    [x5c; x75; x30; x30; hex_digit (n / 16); hex_digit (n mod 16)]
  else [c].

(** the body of a JSON string for a valid UTF-8 text: byte-wise, except that U+2028 / U+2029
    (E2 80 A8 / E2 80 A9) are written as   /   *)
Fixpoint esc (s : bytes) : bytes :=
  match s with
  | [] => []
  | c :: r =>
      if byte_eqb c xe2 then
        match r with
        | c1 :: c2 :: r' =>
            if byte_eqb c1 x80 && byte_eqb c2 xa8 then [x5c; x75; x32; x30; x32; x38] ++ esc r'
            else if byte_eqb c1 x80 && byte_eqb c2 xa9 then [x5c; x75; x32; x30; x32; x39] ++ esc r'
            else chunk c ++ esc r
        | _ => chunk c ++ esc r
        end
      else chunk c ++ esc r
  end.

Definition quote (s : bytes) : bytes := x22 :: s ++ [x22].

(** json.Marshal of a Go string: bytes that are not well-formed UTF-8 become U+FFFD first *)
Definition json_string (s : bytes) : bytes := quote (esc (coerce_utf8 s)).

(** base64.StdEncoding (with padding), how encoding/json writes a []byte: [base64] of Base/Base64.v *)

(** JSON values as far as the messages need them.  In an object, a field whose value is [JNull] is one that
    `omitempty` drops; [JNull] never occurs anywhere else. *)
Inductive jvalue :=
| JNull
| JStr (s : bytes)
| JArr (l : list jvalue)
| JObj (fs : list (bytes * jvalue)).

Definition is_null (v : jvalue) : bool := match v with JNull => true | _ => false end.

(** string / bytes field with `omitempty` *)
Definition js (s : bytes) : jvalue := match s with [] => JNull | _ => JStr s end.
(** slice field with `omitempty` *)
Definition jl (l : list jvalue) : jvalue := match l with [] => JNull | _ => JArr l end.

Definition jfield := (bytes * jvalue)%type.

Fixpoint insert_field (kv : jfield) (l : list jfield) : list jfield :=
  match l with
  | [] => [kv]
  | h :: t => if bytes_leb (fst kv) (fst h) then kv :: l else h :: insert_field kv t
  end.
Definition sort_fields (l : list jfield) : list jfield := fold_right insert_field [] l.

(** what survives the passes through encoding/json: invalid UTF-8 replaced, omitted fields gone, keys sorted *)
Fixpoint norm (v : jvalue) : jvalue :=
  match v with
  | JNull => JNull
  | JStr s => JStr (coerce_utf8 s)
  | JArr l => JArr (map norm l)
  | JObj fs =>
      JObj (sort_fields (filter (fun kv => negb (is_null (snd kv))) (map (fun kv => (fst kv, norm (snd kv))) fs)))
  end.

Fixpoint comma_tail (xs : list bytes) : bytes :=
  match xs with
  | [] => []
  | x :: r => x2c :: x ++ comma_tail r
  end.
Definition join_comma (xs : list bytes) : bytes :=
  match xs with [] => [] | x :: r => x ++ comma_tail r end.

(** compact rendering of a normalised value *)
Fixpoint render_raw (v : jvalue) : bytes :=
  match v with
  | JNull => [x6e; x75; x6c; x6c]
  | JStr s => quote (esc s)
  | JArr l => x5b :: join_comma (map render_raw l) ++ [x5d]
  | JObj fs => x7b :: join_comma (map (fun kv => quote (esc (fst kv)) ++ x3a :: render_raw (snd kv)) fs) ++ [x7d]
  end.

Definition render (v : jvalue) : bytes := render_raw (norm v).

(** *** the DID document (x/did/types/did.go): `contexts` and `controller` are a single string when there is
    exactly one entry and an array otherwise; a relationship is a string (reference) or an object (dedicated
    method).  Field lists are written in key order (the renderer sorts anyway). *)
Definition jvm (vm : vmethod) : jvalue :=
  JObj [(b "controller", js (vm_controller vm)); (b "id", js (vm_id vm));
        (b "public_key_base58", js (vm_pubkey58 vm)); (b "type", js (vm_type vm))].
Definition jrel (r : vrel) : jvalue :=
  match r with VRef id => JStr id | VDed vm => jvm vm end.
Definition jsvc (s : service) : jvalue :=
  JObj [(b "id", js (sv_id s)); (b "service_endpoint", js (sv_endpoint s)); (b "type", js (sv_type s))].
(** *JSONStringOrStrings: nil pointer and empty list are both dropped by `omitempty` *)
Definition jstrs (o : option (list bytes)) : jvalue :=
  match o with
  | None => JNull
  | Some [] => JNull
  | Some [x] => JStr x
  | Some l => JArr (map JStr l)
  end.

Definition doc_fields (d : did_doc) : list jfield :=
  [(b "assertion_methods", jl (map jrel (doc_assert d)));
   (b "authentications", jl (map jrel (doc_auth d)));
   (b "capability_delegations", jl (map jrel (doc_capdel d)));
   (b "capability_invocations", jl (map jrel (doc_capinv d)));
   (b "contexts", jstrs (doc_contexts d));
   (b "controller", jstrs (doc_controller d));
   (b "id", js (doc_id d));
   (b "key_agreements", jl (map jrel (doc_keyagree d)));
   (b "services", jl (map jsvc (doc_services d)));
   (b "verification_methods", jl (map jvm (doc_vms d)))].

(** a nil document pointer is dropped by `omitempty`; a present document never is, not even the zero document
    (amino compares the dereferenced struct with the zero value of the POINTER type) *)
Definition jdoc (o : option did_doc) : jvalue :=
  match o with
  | None => JNull
  | Some d => JObj (doc_fields d)
  end.

(** *** the key/value view of a message before omitting and sorting ([JNull] = will be omitted) *)
Definition amino_fields (m : base_msg) : list jfield :=
  match m with
  | BAol (ACreateTopic t d o) =>
      [(b "description", js d); (b "owner_address", js o); (b "topic_name", js t)]
  | BAol (AAddWriter t mo d w o) =>
      [(b "description", js d); (b "moniker", js mo); (b "owner_address", js o); (b "topic_name", js t);
       (b "writer_address", js w)]
  | BAol (ADeleteWriter t w o) =>
      [(b "owner_address", js o); (b "topic_name", js t); (b "writer_address", js w)]
  | BAol (AAddRecord t k v w o f) =>
      [(b "fee_payer_address", js f); (b "key", js (base64 k)); (b "owner_address", js o); (b "topic_name", js t);
       (b "value", js (base64 v)); (b "writer_address", js w)]
  | BDid (DCreate did doc vmid sig from) | BDid (DUpdate did doc vmid sig from) =>
      [(b "did", js did); (b "document", jdoc doc); (b "from_address", js from); (b "signature", js (base64 sig));
       (b "verification_method_id", js vmid)]
  | BDid (DDeactivate did vmid sig from) =>
      [(b "did", js did); (b "from_address", js from); (b "signature", js (base64 sig));
       (b "verification_method_id", js vmid)]
  | BPnft (PCreateDenom id name symbol description uri uri_hash creator data) =>
      [(b "creator", js creator); (b "data", js data); (b "description", js description); (b "id", js id);
       (b "name", js name); (b "symbol", js symbol); (b "uri", js uri); (b "uri_hash", js uri_hash)]
  | BPnft (PUpdateDenom id name symbol description uri uri_hash updater data) =>
      [(b "data", js data); (b "description", js description); (b "id", js id); (b "name", js name);
       (b "symbol", js symbol); (b "updater", js updater); (b "uri", js uri); (b "uri_hash", js uri_hash)]
  | BPnft (PDeleteDenom id remover) => [(b "id", js id); (b "remover", js remover)]
  | BPnft (PTransferDenom id sender receiver) =>
      [(b "id", js id); (b "receiver", js receiver); (b "sender", js sender)]
  | BPnft (PMint denom_id id name description uri uri_hash data creator) =>
      [(b "creator", js creator); (b "data", js data); (b "denom_id", js denom_id); (b "description", js description);
       (b "id", js id); (b "name", js name); (b "uri", js uri); (b "uri_hash", js uri_hash)]
  | BPnft (PTransfer denom_id id sender receiver) =>
      [(b "denom_id", js denom_id); (b "id", js id); (b "receiver", js receiver); (b "sender", js sender)]
  | BPnft (PBurn denom_id id burner) =>
      [(b "burner", js burner); (b "denom_id", js denom_id); (b "id", js id)]
  | _ => []
  end.

(** LegacyMsg.GetSignBytes: sdk.MustSortJSON(ModuleCdc.MustMarshalJSON(msg)) *)
Definition amino_msg_json (m : base_msg) : bytes := render (JObj (amino_fields m)).

Definition coin_json (c : coin) : bytes :=
  b "{""amount"":" ++ json_string (print_dec (snd c)) ++ b ",""denom"":" ++ json_string (fst c) ++ b "}".

(** legacytx.StdSignBytes with timeout height 0, no tip, no fee payer / granter; none of the top-level fields
    is `omitempty` *)
Definition std_sign_doc_json (chain_id : bytes) (accnum seq : N) (memo : bytes) (gas : N) (fee : coins)
           (msgs : list base_msg) : bytes :=
  b "{""account_number"":" ++ json_string (print_dec accnum) ++
  b ",""chain_id"":" ++ json_string chain_id ++
  b ",""fee"":{""amount"":[" ++ join_comma (map coin_json fee) ++ b "],""gas"":" ++ json_string (print_dec gas) ++
  b "},""memo"":" ++ json_string memo ++
  b ",""msgs"":[" ++ join_comma (map amino_msg_json msgs) ++
  b "],""sequence"":" ++ json_string (print_dec seq) ++ b "}".

(** ** 3. entry point *)
Definition mode_direct : bytes := b "direct".
Definition mode_aux : bytes := b "aux".
Definition mode_amino : bytes := b "amino".

Definition sign_bytes (mode : bytes) (chain_id : bytes) (accnum seq : N) (memo : bytes) (gas : N) (fee : coins)
           (authinfo pkany : bytes) (msgs : list base_msg) : option bytes :=
  if negb (forallb custom msgs) then None
  else if bytes_eqb mode mode_direct then Some (sign_doc_direct chain_id accnum memo authinfo msgs)
  else if bytes_eqb mode mode_aux then Some (sign_doc_aux chain_id accnum seq memo pkany msgs)
  else if bytes_eqb mode mode_amino then Some (std_sign_doc_json chain_id accnum seq memo gas fee msgs)
  else None.
