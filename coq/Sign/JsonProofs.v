(** JSON layer of the amino sign bytes (Sign/Model.v): strings, rendering and base64 are injective. *)
From Coq Require Import Strings.String Strings.Byte.
From Coq Require Import List Arith NArith ZArith Bool Lia.
From Coq Require Import ZifyN ZifyNat.
From PV Require Import Base.Bytes Base.Utf8 Base.Utf8Proofs Proto.Model Bank.Model Did.Model Chain.Model Sign.Model.
Import ListNotations.
Local Open Scope N_scope.

(** ** B1. JSON strings: [quote (esc s)] is self-delimiting and determines [s] (any byte string [s]) *)

Definition unhex2 (h l : byte) : option byte :=
  match hex_val h, hex_val l with
  | Some a, Some c => Byte.of_N (a * 16 + c)
  | _, _ => None
  end.

(** reads one escaped unit at the head of the output: (source bytes, rest); [None] on the closing quote *)
Definition dechunk (o : bytes) : option (bytes * bytes) :=
  match o with
  | [] => None
  | c :: r =>
      if byte_eqb c x22 then None
      else if byte_eqb c x5c then
        match r with
        | e :: r1 =>
            if byte_eqb e x75 then
              match r1 with
              | a :: _ :: h :: l :: r2 =>
                  if byte_eqb a x32 then
                    (if byte_eqb l x38 then Some ([xe2; x80; xa8], r2) else Some ([xe2; x80; xa9], r2))
                  else match unhex2 h l with Some v => Some ([v], r2) | None => None end
              | _ => None
              end
            else if byte_eqb e x62 then Some ([x08], r1)
            else if byte_eqb e x66 then Some ([x0c], r1)
            else if byte_eqb e x6e then Some ([x0a], r1)
            else if byte_eqb e x72 then Some ([x0d], r1)
            else if byte_eqb e x74 then Some ([x09], r1)
            else Some ([e], r1)
        | [] => None
        end
      else Some ([c], r)
  end.

Fixpoint unesc (fuel : nat) (o : bytes) : option (bytes * bytes) :=
  match fuel with
  | O => None
  | S f =>
      match dechunk o with
      | Some (t, r') => match unesc f r' with Some (s, rest) => Some (t ++ s, rest) | None => None end
      | None => match o with c :: r => if byte_eqb c x22 then Some ([], r) else None | [] => None end
      end
  end.

Lemma dechunk_chunk c Y : dechunk (chunk c ++ Y) = Some ([c], Y).
Proof. destruct c; vm_compute; reflexivity. Qed.

Lemma dechunk_2028 Y : dechunk ([x5c; x75; x32; x30; x32; x38] ++ Y) = Some ([xe2; x80; xa8], Y).
Proof. reflexivity. Qed.
Lemma dechunk_2029 Y : dechunk ([x5c; x75; x32; x30; x32; x39] ++ Y) = Some ([xe2; x80; xa9], Y).
Proof. reflexivity. Qed.

Lemma esc_cons c r :
  esc (c :: r) =
  if byte_eqb c xe2 then
    match r with
    | c1 :: c2 :: r' =>
        if byte_eqb c1 x80 && byte_eqb c2 xa8 then [x5c; x75; x32; x30; x32; x38] ++ esc r'
        else if byte_eqb c1 x80 && byte_eqb c2 xa9 then [x5c; x75; x32; x30; x32; x39] ++ esc r'
        else chunk c ++ esc r
    | _ => chunk c ++ esc r
    end
  else chunk c ++ esc r.
Proof. reflexivity. Qed.

Lemma unesc_S f o :
  unesc (S f) o =
  match dechunk o with
  | Some (t, r') => match unesc f r' with Some (s, rest) => Some (t ++ s, rest) | None => None end
  | None => match o with c :: r => if byte_eqb c x22 then Some ([], r) else None | [] => None end
  end.
Proof. reflexivity. Qed.

Lemma unesc_esc : forall n s X, (length s < n)%nat -> unesc n (esc s ++ x22 :: X) = Some (s, X).
Proof.
  induction n as [|n IH]; intros s X Hn; [lia|].
  rewrite unesc_S. destruct s as [|c r].
  - reflexivity.
  - cbn [length] in Hn.
    assert (Plain : dechunk ((chunk c ++ esc r) ++ x22 :: X) = Some ([c], esc r ++ x22 :: X)).
    { rewrite <- app_assoc. apply dechunk_chunk. }
    assert (Hplain : match dechunk ((chunk c ++ esc r) ++ x22 :: X) with
                     | Some (t, r') => match unesc n r' with Some (s, rest) => Some (t ++ s, rest) | None => None end
                     | None => match (chunk c ++ esc r) ++ x22 :: X with
                               | c0 :: r0 => if byte_eqb c0 x22 then Some ([], r0) else None | [] => None end
                     end = Some (c :: r, X)).
    { rewrite Plain, IH by lia. reflexivity. }
    rewrite esc_cons. destruct (byte_eqb c xe2) eqn:E2; [|exact Hplain].
    destruct r as [|c1 [|c2 r']]; try exact Hplain.
    destruct (byte_eqb c1 x80 && byte_eqb c2 xa8) eqn:E8.
    + apply byte_eqb_eq in E2. apply andb_true_iff in E8 as [A1 A2]. apply byte_eqb_eq in A1, A2. subst.
      rewrite <- app_assoc, dechunk_2028. cbn [length] in Hn. rewrite IH by lia. reflexivity.
    + destruct (byte_eqb c1 x80 && byte_eqb c2 xa9) eqn:E9; [|exact Hplain].
      apply byte_eqb_eq in E2. apply andb_true_iff in E9 as [A1 A2]. apply byte_eqb_eq in A1, A2. subst.
      rewrite <- app_assoc, dechunk_2029. cbn [length] in Hn. rewrite IH by lia. reflexivity.
Qed.

Lemma unesc_quote n s X : (length s < n)%nat -> unesc n (esc s ++ x22 :: X) = Some (s, X).
Proof. apply unesc_esc. Qed.

Theorem quote_esc_prefix_inj : forall s s' X X',
  quote (esc s) ++ X = quote (esc s') ++ X' -> s = s' /\ X = X'.
Proof.
  intros s s' X X' H. unfold quote in H. cbn [app] in H. inversion H as [H1]. clear H.
  rewrite <- !app_assoc in H1. cbn [app] in H1.
  pose proof (unesc_esc (S (length s + length s')) s X ltac:(lia)) as U.
  rewrite H1 in U. rewrite (unesc_esc (S (length s + length s')) s' X' ltac:(lia)) in U.
  inversion U. split; reflexivity.
Qed.

Corollary esc_inj : forall s s', esc s = esc s' -> s = s'.
Proof.
  intros s s' H. destruct (quote_esc_prefix_inj s s' [] []) as [E _]; [|exact E].
  unfold quote. rewrite H. reflexivity.
Qed.

(** the requested lemma: on valid UTF-8, the JSON string determines the text *)
Theorem json_string_inj : forall s s',
  valid_utf8 s = true -> valid_utf8 s' = true -> json_string s = json_string s' -> s = s'.
Proof.
  intros s s' V V' H. unfold json_string in H. rewrite (coerce_valid s V), (coerce_valid s' V') in H.
  destruct (quote_esc_prefix_inj s s' [] []) as [E _]; [|exact E]. rewrite !app_nil_r. exact H.
Qed.

(** ... and not beyond: two different invalid texts with the same JSON string *)
Example json_string_collapses : json_string [xff] = json_string [xfe] /\ [xff] <> [xfe].
Proof. split; [vm_compute; reflexivity | discriminate]. Qed.

(** ** B2. rendering is injective: a rendered value is self-delimiting *)

Section JInd.
  Variable P : jvalue -> Prop.
  Hypothesis Hnull : P JNull.
  Hypothesis Hstr : forall s, P (JStr s).
  Hypothesis Harr : forall l, Forall P l -> P (JArr l).
  Hypothesis Hobj : forall fs, Forall (fun kv => P (snd kv)) fs -> P (JObj fs).
  Fixpoint jvalue_ind' (v : jvalue) : P v :=
    match v with
    | JNull => Hnull
    | JStr s => Hstr s
    | JArr l =>
        Harr l ((fix go (l : list jvalue) : Forall P l :=
                   match l with [] => Forall_nil _ | x :: r => Forall_cons _ (jvalue_ind' x) (go r) end) l)
    | JObj fs =>
        Hobj fs ((fix go (l : list jfield) : Forall (fun kv => P (snd kv)) l :=
                    match l with
                    | [] => Forall_nil _
                    | x :: r => Forall_cons x (match x return P (snd x) with (k, v) => jvalue_ind' v end) (go r)
                    end) fs)
    end.
End JInd.

Section CommaLists.
  Variable A : Type.
  Variable f : A -> bytes.
  Variable close : byte.
  Hypothesis close_not_comma : close <> x2c.
  Hypothesis head : forall a, exists c t, f a = c :: t /\ c <> close.

  Definition pinj (a : A) : Prop := forall a' X X', f a ++ X = f a' ++ X' -> a = a' /\ X = X'.

  Lemma comma_tail_inj : forall l, Forall pinj l -> forall l' X X',
    comma_tail (map f l) ++ close :: X = comma_tail (map f l') ++ close :: X' -> l = l' /\ X = X'.
  Proof.
    induction l as [|a l IH]; intros Hl [|a' l'] X X' H; cbn [map comma_tail app] in H.
    - inversion H. split; reflexivity.
    - exfalso. injection H as Hc _. exact (close_not_comma Hc).
    - exfalso. injection H as Hc _. exact (close_not_comma (eq_sym Hc)).
    - inversion Hl as [|? ? Ha Hl']; subst. inversion H as [H1]. rewrite <- !app_assoc in H1.
      apply Ha in H1 as [-> H2]. apply (IH Hl') in H2 as [-> ->]. split; reflexivity.
  Qed.

  Lemma join_comma_inj : forall l, Forall pinj l -> forall l' X X',
    join_comma (map f l) ++ close :: X = join_comma (map f l') ++ close :: X' -> l = l' /\ X = X'.
  Proof.
    intros [|a l] Hl [|a' l'] X X' H; cbn [map join_comma app] in H.
    - inversion H. split; reflexivity.
    - exfalso. destruct (head a') as (c & t & E & Hc). rewrite E in H. cbn [app] in H. injection H as Hx _.
      exact (Hc (eq_sym Hx)).
    - exfalso. destruct (head a) as (c & t & E & Hc). rewrite E in H. cbn [app] in H. injection H as Hx _.
      exact (Hc Hx).
    - inversion Hl as [|? ? Ha Hl']; subst. rewrite <- !app_assoc in H.
      apply Ha in H as [-> H2]. apply (comma_tail_inj l Hl') in H2 as [-> ->]. split; reflexivity.
  Qed.
End CommaLists.

Definition render_field (kv : jfield) : bytes := quote (esc (fst kv)) ++ x3a :: render_raw (snd kv).

Lemma render_raw_arr l : render_raw (JArr l) = x5b :: join_comma (map render_raw l) ++ [x5d].
Proof. reflexivity. Qed.
Lemma render_raw_obj fs : render_raw (JObj fs) = x7b :: join_comma (map render_field fs) ++ [x7d].
Proof. reflexivity. Qed.

Definition jhead (v : jvalue) : byte :=
  match v with JNull => x6e | JStr _ => x22 | JArr _ => x5b | JObj _ => x7b end.
Lemma render_raw_head v : exists t, render_raw v = jhead v :: t.
Proof.
  destruct v as [|s|l|fs]; [| |rewrite render_raw_arr|rewrite render_raw_obj]; cbn [render_raw quote jhead];
    eexists; reflexivity.
Qed.

Theorem render_raw_prefix_inj : forall v v' X X',
  render_raw v ++ X = render_raw v' ++ X' -> v = v' /\ X = X'.
Proof.
  induction v as [|s|l IHl|fs IHfs] using jvalue_ind'; intros v' X X' H.
  - destruct v' as [|s'|l'|fs']; [| |rewrite render_raw_arr in H|rewrite render_raw_obj in H];
      cbn [render_raw quote app] in H; try discriminate H.
    inversion H. split; reflexivity.
  - destruct v' as [|s'|l'|fs']; [| |rewrite render_raw_arr in H|rewrite render_raw_obj in H];
      try (cbn [render_raw quote app] in H; discriminate H).
    cbn [render_raw] in H. apply quote_esc_prefix_inj in H as [-> ->]. split; reflexivity.
  - rewrite render_raw_arr in H.
    destruct v' as [|s'|l'|fs']; [| |rewrite render_raw_arr in H|rewrite render_raw_obj in H];
      try (cbn [render_raw quote app] in H; discriminate H).
    cbn [app] in H. inversion H as [H1]. rewrite <- !app_assoc in H1. cbn [app] in H1.
    apply (join_comma_inj jvalue render_raw x5d) in H1.
    + destruct H1 as [-> ->]. split; reflexivity.
    + discriminate.
    + intros a. destruct (render_raw_head a) as [t E]. exists (jhead a), t. split; [exact E|].
      destruct a; discriminate.
    + exact IHl.
  - rewrite render_raw_obj in H.
    destruct v' as [|s'|l'|fs']; [| |rewrite render_raw_arr in H|rewrite render_raw_obj in H];
      try (cbn [render_raw quote app] in H; discriminate H).
    cbn [app] in H. inversion H as [H1]. rewrite <- !app_assoc in H1. cbn [app] in H1.
    apply (join_comma_inj jfield render_field x7d) in H1.
    + destruct H1 as [-> ->]. split; reflexivity.
    + discriminate.
    + intros a. unfold render_field, quote. cbn [app]. eexists _, _. split; [reflexivity|discriminate].
    + eapply Forall_impl; [|exact IHfs]. intros [k v] Hv [k' v'] Y Y' E. cbn [snd] in Hv.
      unfold render_field in E. cbn [fst snd] in E. rewrite <- !app_assoc in E.
      apply quote_esc_prefix_inj in E as [-> E]. cbn [app] in E. inversion E as [E1].
      apply Hv in E1 as [-> ->]. split; reflexivity.
Qed.

Theorem render_raw_inj : forall v v', render_raw v = render_raw v' -> v = v'.
Proof.
  intros v v' H. destruct (render_raw_prefix_inj v v' [] []) as [E _]; [|exact E]. rewrite !app_nil_r. exact H.
Qed.

(** the JSON of a message determines its normalised view: the non-empty (key, value) pairs, invalid UTF-8 replaced,
    sorted by key — and nothing more *)
Definition amino_view (m : base_msg) : jvalue := norm (JObj (amino_fields m)).

Theorem amino_json_view : forall m m', amino_msg_json m = amino_msg_json m' <-> amino_view m = amino_view m'.
Proof.
  intros m m'. unfold amino_msg_json, render, amino_view. split; [apply render_raw_inj | intros ->; reflexivity].
Qed.

(** ** B3. base64 is injective and plain ASCII *)

Fixpoint index_of (c : byte) (l : bytes) (i : N) : option N :=
  match l with
  | [] => None
  | x :: r => if byte_eqb c x then Some i else index_of c r (i + 1)
  end.
Definition b64_val (c : byte) : option N := index_of c b64_alphabet 0.

Lemma b64_val_char : forall n, n < 64 -> b64_val (b64_char n) = Some n.
Proof.
  intros n Hn. rewrite <- (N2Nat.id n). assert (Hi : (N.to_nat n < 64)%nat) by lia.
  generalize dependent (N.to_nat n). clear. intros i Hi.
  do 64 (destruct i as [|i]; [vm_compute; reflexivity|]). lia.
Qed.

Lemma b64_char_inj n n' : n < 64 -> n' < 64 -> b64_char n = b64_char n' -> n = n'.
Proof.
  intros Hn Hn' H. pose proof (b64_val_char n Hn) as E. rewrite H, (b64_val_char n' Hn') in E. congruence.
Qed.

Lemma b64_char_not_pad n : n < 64 -> b64_char n <> x3d.
Proof.
  intros Hn H. pose proof (b64_val_char n Hn) as E. rewrite H in E. vm_compute in E. discriminate E.
Qed.

Lemma b64_char_ascii n : Byte.to_N (b64_char n) < 128.
Proof.
  unfold b64_char.
  assert (A : Forall (fun c => Byte.to_N c < 128) b64_alphabet).
  { apply Forall_forall. intros c Hc.
    assert (B : forallb (fun c => Byte.to_N c <? 128) b64_alphabet = true) by (vm_compute; reflexivity).
    rewrite forallb_forall in B. apply N.ltb_lt. apply B. exact Hc. }
  destruct (Nat.lt_ge_cases (N.to_nat n) (length b64_alphabet)) as [L|L].
  - rewrite Forall_forall in A. apply A. apply nth_In. exact L.
  - rewrite nth_overflow by exact L. vm_compute. reflexivity.
Qed.

Lemma list_ind3 {A} (P : list A -> Prop) :
  P [] -> (forall a, P [a]) -> (forall a c, P [a; c]) -> (forall a c d r, P r -> P (a :: c :: d :: r)) ->
  forall l, P l.
Proof.
  intros H0 H1 H2 H3. fix go 1. intros [|a [|c [|d r]]]; [exact H0 | apply H1 | apply H2 | apply H3; apply go].
Qed.

Lemma base64_ascii : forall k, Forall (fun c => Byte.to_N c < 128) (base64 k).
Proof.
  induction k as [|a|a c|a c d r IH] using list_ind3; cbn [base64]; repeat constructor;
    try apply b64_char_ascii; try (vm_compute; reflexivity). exact IH.
Qed.

Lemma base64_valid k : valid_utf8 (base64 k) = true.
Proof. apply ascii_valid. apply base64_ascii. Qed.

Ltac byte_bounds :=
  repeat match goal with
         | c : byte |- _ => lazymatch goal with
                            | H : Byte.to_N c <= 255 |- _ => fail
                            | _ => pose proof (Byte.to_N_bounded c)
                            end
         end.

Local Ltac Zify.zify_post_hook ::= Z.div_mod_to_equations.

Ltac pad_contra :=
  exfalso;
  match goal with
  | Hx : x3d = b64_char _ |- _ => symmetry in Hx; revert Hx; apply b64_char_not_pad; lia
  | Hx : b64_char _ = x3d |- _ => revert Hx; apply b64_char_not_pad; lia
  end.
Ltac sextets :=
  repeat match goal with Hx : b64_char _ = b64_char _ |- _ => apply b64_char_inj in Hx; [|lia|lia] end.

Theorem base64_inj : forall k k', base64 k = base64 k' -> k = k'.
Proof.
  induction k as [|a|a c|a c d r IH] using list_ind3; intros k' H.
  - destruct k' as [|a' [|c' [|d' r']]]; [reflexivity|discriminate H..].
  - destruct k' as [|a' [|c' [|d' r']]]; cbn [base64] in H; try discriminate H; byte_bounds; inversion H.
    + sextets. f_equal. apply to_N_inj. lia.
    + pad_contra.
    + pad_contra.
  - destruct k' as [|a' [|c' [|d' r']]]; cbn [base64] in H; try discriminate H; byte_bounds; inversion H.
    + pad_contra.
    + sextets.
      assert (Byte.to_N a = Byte.to_N a' /\ Byte.to_N c = Byte.to_N c') as [E1 E2] by lia.
      apply to_N_inj in E1, E2. subst. reflexivity.
    + pad_contra.
  - destruct k' as [|a' [|c' [|d' r']]]; cbn [base64] in H; try discriminate H; byte_bounds; inversion H.
    + pad_contra.
    + pad_contra.
    + sextets.
      assert (Byte.to_N a = Byte.to_N a' /\ Byte.to_N c = Byte.to_N c' /\ Byte.to_N d = Byte.to_N d') as (E1 & E2 & E3) by lia.
      apply to_N_inj in E1, E2, E3. subst. f_equal. f_equal. f_equal. apply IH. assumption.
Qed.

Print Assumptions json_string_inj.
Print Assumptions render_raw_inj.
Print Assumptions amino_json_view.
Print Assumptions base64_inj.
