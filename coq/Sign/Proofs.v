(** C14 — sign bytes: injectivity for the protobuf modes, what holds and what fails for legacy amino JSON.
    See Sign/Model.v for the definitions (validated byte for byte against the real SignModeHandler). *)
From Coq Require Import Strings.String Strings.Byte.
From Coq Require Import List Arith NArith ZArith Bool Lia.
From Coq Require Import ZifyN ZifyNat.
From PV Require Import Base.Bytes Base.Utf8 Base.Utf8Proofs Base.Outcome Proto.Model Proto.Proofs Bank.Model Did.Model
     Chain.Model Sign.Model Sign.JsonProofs.
From PV Require Generated.GenConst Generated.GenNft Pnft.Model Valid.Aol.
Import ListNotations.
Local Open Scope N_scope.

(** * Part A — SIGN_MODE_DIRECT and SIGN_MODE_DIRECT_AUX *)

Lemma map_inj {A B} (f : A -> B) :
  (forall x y, f x = f y -> x = y) -> forall l l', map f l = map f l' -> l = l'.
Proof.
  intros Hf. induction l as [|x l IH]; intros [|y l'] H; cbn [map] in H; try discriminate; [reflexivity|].
  inversion H as [[H1 H2]]. f_equal; [apply Hf; exact H1 | apply IH; exact H2].
Qed.

Lemma map_transfer {A B C} (f : A -> B) (g : A -> C) :
  (forall x y, f x = f y -> g x = g y) -> forall l l', map f l = map f l' -> map g l = map g l'.
Proof.
  intros Hf. induction l as [|x l IH]; intros [|y l'] H; cbn [map] in *; try discriminate; [reflexivity|].
  inversion H as [[H1 H2]]. f_equal; [apply Hf; exact H1 | apply IH; exact H2].
Qed.

Ltac asc := cbn [ascending ascending_from pfield_num]; repeat split; lia.

(** an embedded-message field: same number, same presence, same payload when present *)
Lemma pmsg_equiv n p x n' p' x' :
  pfield_equiv (PMsg n p x) (PMsg n' p' x') -> n = n' /\ p = p' /\ (p = true -> x = x').
Proof.
  destruct p, p'; cbn [pfield_equiv]; intros H.
  - inversion H; subst. repeat split; reflexivity.
  - discriminate H.
  - discriminate H.
  - repeat split; [exact H | discriminate].
Qed.

Ltac inv_forall2 :=
  repeat match goal with
         | H : Forall2 _ (_ :: _) (_ :: _) |- _ => inversion H; clear H; subst
         | H : Forall2 _ [] [] |- _ => clear H
         end.

(** ** the DID document *)
Lemma marshal_strings_inj l l' : marshal_strings l = marshal_strings l' -> l = l'.
Proof.
  unfold marshal_strings. intros H. apply marshal_inj_eq in H;
    [inversion H; reflexivity | asc | repeat constructor | repeat constructor].
Qed.

Lemma marshal_vm_inj v v' : marshal_vm v = marshal_vm v' -> v = v'.
Proof.
  unfold marshal_vm. intros H. apply marshal_inj_eq in H; [| asc | repeat constructor | repeat constructor].
  destruct v as [a1 a2 a3 a4], v' as [b1 b2 b3 b4]. cbn [vm_id vm_type vm_controller vm_pubkey58] in H. inversion H; subst. reflexivity.
Qed.

Lemma marshal_service_inj s s' : marshal_service s = marshal_service s' -> s = s'.
Proof.
  unfold marshal_service. intros H. apply marshal_inj_eq in H; [| asc | repeat constructor | repeat constructor].
  destruct s as [a1 a2 a3], s' as [b1 b2 b3]. cbn [sv_id sv_type sv_endpoint] in H. inversion H; subst. reflexivity.
Qed.

(** a relationship is a oneof: write both members, one of them absent *)
Definition rel_two (r : vrel) : list pfield :=
  match r with
  | VRef id => [PMsg 1 true id; PMsg 2 false []]
  | VDed vm => [PMsg 1 false []; PMsg 2 true (marshal_vm vm)]
  end.
Lemma marshal_rel_two r : marshal_rel r = marshal (rel_two r).
Proof. destruct r; reflexivity. Qed.

Lemma marshal_rel_inj r r' : marshal_rel r = marshal_rel r' -> r = r'.
Proof.
  rewrite !marshal_rel_two. intros H.
  apply marshal_inj in H.
  - destruct r, r'; cbn [rel_two] in H; unfold msg_equiv in H; inv_forall2;
      repeat match goal with H : pfield_equiv (PMsg _ _ _) (PMsg _ _ _) |- _ => apply pmsg_equiv in H; destruct H as (? & ? & ?) end;
      try discriminate.
    + f_equal. auto.
    + f_equal. apply marshal_vm_inj. auto.
  - destruct r; asc.
  - destruct r, r'; repeat constructor.
Qed.

Definition osome {A} (o : option A) : bool := match o with Some _ => true | None => false end.

Lemma opt_strings_eq n o :
  opt_strings n o = PMsg n (osome o) (match o with Some l => marshal_strings l | None => [] end).
Proof. destruct o; reflexivity. Qed.

Lemma opt_strings_inj n b x n' b' x' o o' :
  PMsg n b x = opt_strings n o -> PMsg n' b' x' = opt_strings n' o' ->
  b = b' -> (b = true -> x = x') -> o = o'.
Proof.
  destruct o, o'; cbn [opt_strings]; intros H1 H2 Hb Hx; inversion H1; inversion H2; subst; try discriminate.
  - f_equal. apply marshal_strings_inj. apply Hx. reflexivity.
  - reflexivity.
Qed.

Theorem marshal_doc_inj d d' : marshal_doc d = marshal_doc d' -> d = d'.
Proof.
  unfold marshal_doc. rewrite !opt_strings_eq. intros H.
  apply marshal_inj in H; [| asc | repeat constructor].
  unfold msg_equiv in H. inv_forall2.
  repeat match goal with H : pfield_equiv (PMsg _ _ _) (PMsg _ _ _) |- _ => apply pmsg_equiv in H; destruct H as (? & ? & ?) end.
  repeat match goal with H : pfield_equiv _ _ |- _ => cbn [pfield_equiv] in H; inversion H; clear H end.
  destruct d as [c i ct vms au asr ka ci cd sv], d' as [c' i' ct' vms' au' asr' ka' ci' cd' sv'].
  cbn [doc_contexts doc_id doc_controller doc_vms doc_auth doc_assert doc_keyagree doc_capinv doc_capdel doc_services] in *.
  assert (c = c').
  { destruct c, c'; cbn [osome] in *; try discriminate; [f_equal; apply marshal_strings_inj; auto | reflexivity]. }
  assert (ct = ct').
  { destruct ct, ct'; cbn [osome] in *; try discriminate; [f_equal; apply marshal_strings_inj; auto | reflexivity]. }
  repeat match goal with
         | H : map marshal_vm _ = map marshal_vm _ |- _ => apply (map_inj _ marshal_vm_inj) in H
         | H : map marshal_rel _ = map marshal_rel _ |- _ => apply (map_inj _ marshal_rel_inj) in H
         | H : map marshal_service _ = map marshal_service _ |- _ => apply (map_inj _ marshal_service_inj) in H
         end.
  subst. reflexivity.
Qed.

(** ** the 14 messages *)

Lemma opt_doc_eq n o :
  opt_doc n o = PMsg n (osome o) (match o with Some d => marshal_doc d | None => [] end).
Proof. destruct o; reflexivity. Qed.

Ltac flat H :=
  apply marshal_inj_eq in H; [inversion H; subst; reflexivity | asc | repeat constructor | repeat constructor].

Lemma pf_aol_inj m m' : type_url (BAol m) = type_url (BAol m') -> marshal (pf_aol m) = marshal (pf_aol m') -> m = m'.
Proof.
  destruct m, m'; cbn [type_url pf_aol]; intros Hu Hv; try (vm_compute in Hu; discriminate Hu); flat Hv.
Qed.

Lemma pf_pnft_inj m m' : type_url (BPnft m) = type_url (BPnft m') -> marshal (pf_pnft m) = marshal (pf_pnft m') -> m = m'.
Proof.
  destruct m, m'; cbn [type_url pf_pnft]; intros Hu Hv; try (vm_compute in Hu; discriminate Hu); flat Hv.
Qed.

Lemma did_doc_fields_inj did doc vmid sg from did' doc' vmid' sg' from' :
  marshal [PBytes 1 did; opt_doc 2 doc; PBytes 3 vmid; PBytes 4 sg; PBytes 5 from]
  = marshal [PBytes 1 did'; opt_doc 2 doc'; PBytes 3 vmid'; PBytes 4 sg'; PBytes 5 from'] ->
  did = did' /\ doc = doc' /\ vmid = vmid' /\ sg = sg' /\ from = from'.
Proof.
  rewrite !opt_doc_eq. intros H.
  apply marshal_inj in H; [| asc | repeat constructor].
  unfold msg_equiv in H. inv_forall2.
  repeat match goal with H : pfield_equiv (PMsg _ _ _) (PMsg _ _ _) |- _ => apply pmsg_equiv in H; destruct H as (? & ? & ?) end.
  repeat match goal with H : pfield_equiv _ _ |- _ => cbn [pfield_equiv] in H; inversion H; clear H end.
  subst. repeat split.
  destruct doc, doc'; cbn [osome] in *; try discriminate; [f_equal; apply marshal_doc_inj; auto | reflexivity].
Qed.

Lemma pf_did_inj m m' : type_url (BDid m) = type_url (BDid m') -> marshal (pf_did m) = marshal (pf_did m') -> m = m'.
Proof.
  destruct m, m'; cbn [type_url pf_did]; intros Hu Hv; try (vm_compute in Hu; discriminate Hu).
  - apply did_doc_fields_inj in Hv. destruct Hv as (-> & -> & -> & -> & ->). reflexivity.
  - apply did_doc_fields_inj in Hv. destruct Hv as (-> & -> & -> & -> & ->). reflexivity.
  - flat Hv.
Qed.

(** the type URLs of different modules differ *)
Lemma url_module_distinct m m' :
  custom m = true -> custom m' = true -> type_url m = type_url m' ->
  match m, m' with
  | BAol _, BAol _ | BDid _, BDid _ | BPnft _, BPnft _ => True
  | _, _ => False
  end.
Proof.
  destruct m as [a|d|p| | | | |], m' as [a'|d'|p'| | | | |]; cbn [custom]; intros C C' H; try discriminate; try exact I;
    exfalso.
  - destruct a, d'; vm_compute in H; discriminate H.
  - destruct a, p'; vm_compute in H; discriminate H.
  - destruct d, a'; vm_compute in H; discriminate H.
  - destruct d, p'; vm_compute in H; discriminate H.
  - destruct p, a'; vm_compute in H; discriminate H.
  - destruct p, d'; vm_compute in H; discriminate H.
Qed.

(** A1: the (type URL, value) pair determines a custom message — every field, including nil vs present document,
    nil vs empty context / controller list, reference vs dedicated relationship *)
Theorem msg_any_inj : forall m m',
  custom m = true -> custom m' = true -> msg_any m = msg_any m' -> m = m'.
Proof.
  intros m m' C C' H. unfold msg_any in H. apply pair_equal_spec in H as [Hu Hv].
  pose proof (url_module_distinct m m' C C' Hu) as Hm.
  destruct m as [a|d|p| | | | |], m' as [a'|d'|p'| | | | |]; try contradiction; try discriminate; cbn [msg_fields] in Hv; f_equal.
  - exact (pf_aol_inj _ _ Hu Hv).
  - exact (pf_did_inj _ _ Hu Hv).
  - exact (pf_pnft_inj _ _ Hu Hv).
Qed.

Lemma msgs_any_inj : forall msgs msgs',
  forallb custom msgs = true -> forallb custom msgs' = true ->
  map msg_any msgs = map msg_any msgs' -> msgs = msgs'.
Proof.
  induction msgs as [|m msgs IH]; intros [|m' msgs'] C C' H; cbn [map forallb] in *; try discriminate; [reflexivity|].
  apply andb_true_iff in C as [C1 C2]. apply andb_true_iff in C' as [C1' C2'].
  assert (H1 : msg_any m = msg_any m') by congruence.
  assert (H2 : map msg_any msgs = map msg_any msgs') by congruence.
  f_equal; [apply msg_any_inj; assumption | apply IH; assumption].
Qed.

(** ** body and sign documents *)
Lemma any_bytes_inj m m' : any_bytes m = any_bytes m' -> msg_any m = msg_any m'.
Proof.
  unfold any_bytes. intros H. apply any_inj in H as [H1 H2].
  destruct (msg_any m), (msg_any m'). cbn [fst snd] in *. subst. reflexivity.
Qed.

Theorem tx_body_inj : forall msgs memo msgs' memo',
  tx_body msgs memo = tx_body msgs' memo' -> map msg_any msgs = map msg_any msgs' /\ memo = memo'.
Proof.
  intros msgs memo msgs' memo' H. unfold tx_body in H.
  apply marshal_inj_eq in H; [| asc | repeat constructor | repeat constructor].
  inversion H as [[H1 H2]]. split; [|reflexivity].
  apply (map_transfer any_bytes msg_any any_bytes_inj). exact H1.
Qed.

(** A2: SIGN_MODE_DIRECT — the sign document determines the chain id, the account number, the auth info, the memo
    and the (type URL, value) pair of every message, in order *)
Theorem sign_doc_direct_inj : forall c a memo ai msgs c' a' memo' ai' msgs',
  sign_doc_direct c a memo ai msgs = sign_doc_direct c' a' memo' ai' msgs' ->
  c = c' /\ a = a' /\ memo = memo' /\ ai = ai' /\ map msg_any msgs = map msg_any msgs'.
Proof.
  intros c a memo ai msgs c' a' memo' ai' msgs' H. unfold sign_doc_direct in H.
  apply marshal_inj_eq in H; [| asc | repeat constructor | repeat constructor].
  inversion H as [[Hb Hai Hc Ha]]. apply tx_body_inj in Hb as [Hm Hmemo]. repeat split; assumption.
Qed.

(** A3: SIGN_MODE_DIRECT_AUX *)
Theorem sign_doc_aux_inj : forall c a s memo pk msgs c' a' s' memo' pk' msgs',
  sign_doc_aux c a s memo pk msgs = sign_doc_aux c' a' s' memo' pk' msgs' ->
  c = c' /\ a = a' /\ s = s' /\ memo = memo' /\ pk = pk' /\ map msg_any msgs = map msg_any msgs'.
Proof.
  intros c a s memo pk msgs c' a' s' memo' pk' msgs' H. unfold sign_doc_aux in H.
  apply marshal_inj_eq in H; [| asc | repeat constructor | repeat constructor].
  inversion H as [[Hb Hpk Hc Ha Hs]]. apply tx_body_inj in Hb as [Hm Hmemo]. repeat split; assumption.
Qed.

(** A4: the statement of C14 for the two protobuf modes, on the entry point: equal sign bytes => equal transactions
    (same messages with the same fields, in the same order) *)
Theorem C14_direct : forall c a s memo gas fee ai pk msgs c' a' s' memo' gas' fee' ai' pk' msgs' bz,
  sign_bytes mode_direct c a s memo gas fee ai pk msgs = Some bz ->
  sign_bytes mode_direct c' a' s' memo' gas' fee' ai' pk' msgs' = Some bz ->
  msgs = msgs' /\ c = c' /\ a = a' /\ memo = memo' /\ ai = ai'.
Proof.
  intros c a s memo gas fee ai pk msgs c' a' s' memo' gas' fee' ai' pk' msgs' bz H H'.
  unfold sign_bytes in H, H'.
  destruct (forallb custom msgs) eqn:C; cbn [negb] in H; [|discriminate].
  destruct (forallb custom msgs') eqn:C'; cbn [negb] in H'; [|discriminate].
  change (bytes_eqb mode_direct mode_direct) with true in H, H'. cbv iota in H, H'.
  inversion H as [E]. inversion H' as [E']. rewrite <- E' in E.
  apply sign_doc_direct_inj in E as (? & ? & ? & ? & Hm).
  repeat split; try assumption. apply msgs_any_inj; assumption.
Qed.

Theorem C14_aux : forall c a s memo gas fee ai pk msgs c' a' s' memo' gas' fee' ai' pk' msgs' bz,
  sign_bytes mode_aux c a s memo gas fee ai pk msgs = Some bz ->
  sign_bytes mode_aux c' a' s' memo' gas' fee' ai' pk' msgs' = Some bz ->
  msgs = msgs' /\ c = c' /\ a = a' /\ s = s' /\ memo = memo' /\ pk = pk'.
Proof.
  intros c a s memo gas fee ai pk msgs c' a' s' memo' gas' fee' ai' pk' msgs' bz H H'.
  unfold sign_bytes in H, H'.
  destruct (forallb custom msgs) eqn:C; cbn [negb] in H; [|discriminate].
  destruct (forallb custom msgs') eqn:C'; cbn [negb] in H'; [|discriminate].
  change (bytes_eqb mode_aux mode_direct) with false in H, H'.
  change (bytes_eqb mode_aux mode_aux) with true in H, H'. cbv iota in H, H'.
  inversion H as [E]. inversion H' as [E']. rewrite <- E' in E.
  apply sign_doc_aux_inj in E as (? & ? & ? & ? & ? & Hm).
  repeat split; try assumption. apply msgs_any_inj; assumption.
Qed.

(** * Part B — SIGN_MODE_LEGACY_AMINO_JSON (the JSON layer is in Sign/JsonProofs.v) *)

(** ** B4. from the view back to the fields *)

Definition nf (kv : jfield) : jfield := (fst kv, norm (snd kv)).
Definition nn (kv : jfield) : bool := negb (is_null (snd kv)).

Lemma norm_obj fs : norm (JObj fs) = JObj (sort_fields (filter nn (map nf fs))).
Proof. reflexivity. Qed.
Lemma norm_arr l : norm (JArr l) = JArr (map norm l).
Proof. reflexivity. Qed.

(** keys strictly increasing (each key below all later ones) *)
Fixpoint ssortedb (ks : list bytes) : bool :=
  match ks with
  | [] => true
  | k :: r => forallb (bytes_ltb k) r && ssortedb r
  end.

Lemma insert_field_head kv l :
  forallb (bytes_ltb (fst kv)) (map fst l) = true -> insert_field kv l = kv :: l.
Proof.
  destruct l as [|h t]; [reflexivity|]. cbn [map forallb insert_field]. intros H.
  apply andb_true_iff in H as [H _]. unfold bytes_leb. rewrite (bytes_ltb_asym _ _ H). reflexivity.
Qed.

Lemma sort_fields_sorted : forall l, ssortedb (map fst l) = true -> sort_fields l = l.
Proof.
  induction l as [|kv l IH]; [reflexivity|]. cbn [map ssortedb]. intros H.
  apply andb_true_iff in H as [H1 H2]. unfold sort_fields. cbn [fold_right].
  change (fold_right insert_field [] l) with (sort_fields l). rewrite (IH H2). apply insert_field_head. exact H1.
Qed.

Lemma forallb_filter_keys k (l : list jfield) p :
  forallb (bytes_ltb k) (map fst l) = true -> forallb (bytes_ltb k) (map fst (filter p l)) = true.
Proof.
  induction l as [|h t IH]; [reflexivity|]. cbn [map forallb filter]. intros H.
  apply andb_true_iff in H as [H1 H2]. destruct (p h); cbn [map forallb]; [rewrite H1|]; auto.
Qed.

Lemma ssortedb_filter (l : list jfield) p : ssortedb (map fst l) = true -> ssortedb (map fst (filter p l)) = true.
Proof.
  induction l as [|h t IH]; [reflexivity|]. cbn [map ssortedb filter]. intros H.
  apply andb_true_iff in H as [H1 H2]. destruct (p h); [|auto].
  cbn [map ssortedb]. rewrite (forallb_filter_keys _ _ _ H1). auto.
Qed.

Lemma is_null_iff v : is_null v = true <-> v = JNull.
Proof. destruct v; cbn [is_null]; split; intros H; try reflexivity; discriminate H. Qed.

(** with the same strictly increasing keys, the non-null part determines the whole field list *)
Lemma filter_nn_inj : forall L L',
  map fst L = map fst L' -> ssortedb (map fst L) = true -> filter nn L = filter nn L' -> L = L'.
Proof.
  induction L as [|[k v] L IH]; intros [|[k' v'] L'] K S H; cbn [map] in K; try discriminate K; [reflexivity|].
  injection K as -> K. cbn [map ssortedb fst] in S. apply andb_true_iff in S as [S1 S2].
  assert (Absent : forall w L0, map fst L0 = map fst L -> ~ In (k', w) (filter nn L0)).
  { intros w L0 K0 Hin. apply filter_In in Hin as [Hin _]. apply (in_map fst) in Hin. cbn [fst] in Hin.
    rewrite K0 in Hin. rewrite forallb_forall in S1. apply S1 in Hin. rewrite bytes_ltb_irrefl in Hin. discriminate Hin. }
  cbn [filter] in H. change (nn (k', v)) with (negb (is_null v)) in H. change (nn (k', v')) with (negb (is_null v')) in H.
  destruct (is_null v) eqn:N, (is_null v') eqn:N'; cbn [negb] in H.
  - apply is_null_iff in N, N'. subst. f_equal. apply IH; assumption.
  - exfalso. apply (Absent v' L eq_refl). rewrite H. left. reflexivity.
  - exfalso. apply (Absent v L' (eq_sym K)). rewrite <- H. left. reflexivity.
  - injection H as -> H. f_equal. apply IH; assumption.
Qed.

Lemma map_fst_nf l : map fst (map nf l) = map fst l.
Proof. induction l as [|h t IH]; [reflexivity|]. cbn [map nf fst]. rewrite IH. reflexivity. Qed.

(** two objects with the same strictly increasing key list: equal views <-> equal normalised fields *)
Theorem obj_view_inj : forall fs fs',
  map fst fs = map fst fs' -> ssortedb (map fst fs) = true ->
  norm (JObj fs) = norm (JObj fs') -> map nf fs = map nf fs'.
Proof.
  intros fs fs' K S H. rewrite !norm_obj in H. injection H as H.
  assert (S' : ssortedb (map fst fs') = true) by (rewrite <- K; exact S).
  rewrite !sort_fields_sorted in H by (apply ssortedb_filter; rewrite map_fst_nf; assumption).
  apply filter_nn_inj; [rewrite !map_fst_nf; exact K | rewrite map_fst_nf; exact S | exact H].
Qed.

Lemma norm_js_inj s s' :
  valid_utf8 s = true -> valid_utf8 s' = true -> norm (js s) = norm (js s') -> s = s'.
Proof.
  intros V V'. destruct s as [|c r], s' as [|c' r']; cbn [js norm]; intros H; try discriminate H; [reflexivity|].
  rewrite (coerce_valid _ V), (coerce_valid _ V') in H. injection H as -> ->. reflexivity.
Qed.

Lemma norm_js64_inj k k' : norm (js (base64 k)) = norm (js (base64 k')) -> k = k'.
Proof.
  intros H. apply base64_inj. apply norm_js_inj; [apply base64_valid | apply base64_valid | exact H].
Qed.

(** the text fields of a message (those that travel as JSON strings); byte fields travel as base64 *)
Definition doc_texts_vm (v : vmethod) : list bytes := [vm_id v; vm_type v; vm_controller v; vm_pubkey58 v].
Definition doc_texts_rel (r : vrel) : list bytes := match r with VRef i => [i] | VDed v => doc_texts_vm v end.
Definition doc_texts (d : did_doc) : list bytes :=
  match doc_contexts d with Some l => l | None => [] end ++ [doc_id d] ++
  match doc_controller d with Some l => l | None => [] end ++
  flat_map doc_texts_vm (doc_vms d) ++ flat_map doc_texts_rel (doc_auth d) ++ flat_map doc_texts_rel (doc_assert d) ++
  flat_map doc_texts_rel (doc_keyagree d) ++ flat_map doc_texts_rel (doc_capinv d) ++
  flat_map doc_texts_rel (doc_capdel d) ++
  flat_map (fun s => [sv_id s; sv_type s; sv_endpoint s]) (doc_services d).

Definition text_fields (m : base_msg) : list bytes :=
  match m with
  | BAol (ACreateTopic t d o) => [t; d; o]
  | BAol (AAddWriter t mo d w o) => [t; mo; d; w; o]
  | BAol (ADeleteWriter t w o) => [t; w; o]
  | BAol (AAddRecord t k v w o f) => [t; w; o; f]
  | BDid (DCreate did doc vmid sig from) | BDid (DUpdate did doc vmid sig from) =>
      [did; vmid; from] ++ match doc with Some d => doc_texts d | None => [] end
  | BDid (DDeactivate did vmid sig from) => [did; vmid; from]
  | BPnft (PCreateDenom a1 a2 a3 a4 a5 a6 a7 a8) | BPnft (PUpdateDenom a1 a2 a3 a4 a5 a6 a7 a8)
  | BPnft (PMint a1 a2 a3 a4 a5 a6 a7 a8) => [a1; a2; a3; a4; a5; a6; a7; a8]
  | BPnft (PDeleteDenom a1 a2) => [a1; a2]
  | BPnft (PTransferDenom a1 a2 a3) | BPnft (PBurn a1 a2 a3) => [a1; a2; a3]
  | BPnft (PTransfer a1 a2 a3 a4) => [a1; a2; a3; a4]
  | _ => []
  end.
Definition utf8_ok (m : base_msg) : Prop := forallb valid_utf8 (text_fields m) = true.

Ltac split_valid V :=
  cbn [text_fields forallb] in V; repeat (let V1 := fresh "V" in apply andb_true_iff in V as [V1 V]).

Ltac fields_eq H :=
  apply obj_view_inj in H; [| reflexivity | vm_compute; reflexivity];
  cbn [map amino_fields nf fst snd] in H; inversion H; clear H;
  repeat match goal with
         | E : norm (js (base64 _)) = norm (js (base64 _)) |- _ => apply norm_js64_inj in E
         | E : norm (js _) = norm (js _) |- _ => apply norm_js_inj in E; [|assumption|assumption]
         end;
  subst; reflexivity.

Lemma amino_aol_inj m m' :
  type_url (BAol m) = type_url (BAol m') -> utf8_ok (BAol m) -> utf8_ok (BAol m') ->
  amino_view (BAol m) = amino_view (BAol m') -> m = m'.
Proof.
  unfold utf8_ok, amino_view.
  destruct m, m'; intros Hu V V' H; try (vm_compute in Hu; discriminate Hu); split_valid V; split_valid V'; fields_eq H.
Qed.

Lemma amino_pnft_inj m m' :
  type_url (BPnft m) = type_url (BPnft m') -> utf8_ok (BPnft m) -> utf8_ok (BPnft m') ->
  amino_view (BPnft m) = amino_view (BPnft m') -> m = m'.
Proof.
  unfold utf8_ok, amino_view.
  destruct m, m'; intros Hu V V' H; try (vm_compute in Hu; discriminate Hu); split_valid V; split_valid V'; fields_eq H.
Qed.

(** *** the DID document *)
Definition vtext (s : bytes) : Prop := valid_utf8 s = true.

Lemma forallb_vtext l : forallb valid_utf8 l = true <-> Forall vtext l.
Proof. rewrite forallb_forall, Forall_forall. reflexivity. Qed.

Lemma norm_jstr_inj s s' : vtext s -> vtext s' -> norm (JStr s) = norm (JStr s') -> s = s'.
Proof. intros V V' H. cbn [norm] in H. rewrite (coerce_valid _ V), (coerce_valid _ V') in H. congruence. Qed.

Lemma norm_map_inj {A} (g : A -> jvalue) (texts : A -> list bytes) :
  (forall a a', Forall vtext (texts a) -> Forall vtext (texts a') -> norm (g a) = norm (g a') -> a = a') ->
  forall l l', Forall vtext (flat_map texts l) -> Forall vtext (flat_map texts l') ->
  map norm (map g l) = map norm (map g l') -> l = l'.
Proof.
  intros Hg. induction l as [|a l IH]; intros [|a' l'] V V' H; cbn [map flat_map] in *; try discriminate H; [reflexivity|].
  apply Forall_app in V as [V1 V2]. apply Forall_app in V' as [V1' V2'].
  injection H as H1 H2. f_equal; [apply Hg; assumption | apply IH; assumption].
Qed.

Lemma norm_jl_inj X X' : norm (jl X) = norm (jl X') -> map norm X = map norm X'.
Proof.
  destruct X as [|x X], X' as [|x' X']; cbn [jl]; rewrite ?norm_arr; intros H; try discriminate H; [reflexivity|].
  congruence.
Qed.

Ltac inv_vtext :=
  repeat match goal with
         | V : Forall vtext (_ :: _) |- _ => let V1 := fresh "V" in apply Forall_cons_iff in V as [V1 V]
         | V : Forall vtext [] |- _ => clear V
         end.

Ltac js_eqs :=
  repeat match goal with
         | E : norm (js (base64 _)) = norm (js (base64 _)) |- _ => apply norm_js64_inj in E
         | E : norm (js _) = norm (js _) |- _ => apply norm_js_inj in E; [|assumption|assumption]
         end.

Lemma norm_jvm_inj v v' :
  Forall vtext (doc_texts_vm v) -> Forall vtext (doc_texts_vm v') -> norm (jvm v) = norm (jvm v') -> v = v'.
Proof.
  destruct v as [a1 a2 a3 a4], v' as [b1 b2 b3 b4]. unfold doc_texts_vm, jvm.
  cbn [vm_id vm_type vm_controller vm_pubkey58]. intros V V' H. inv_vtext.
  apply obj_view_inj in H; [| reflexivity | vm_compute; reflexivity].
  cbn [map nf fst snd] in H. inversion H; clear H. js_eqs. subst. reflexivity.
Qed.

Lemma norm_jsvc_inj s s' :
  Forall vtext [sv_id s; sv_type s; sv_endpoint s] -> Forall vtext [sv_id s'; sv_type s'; sv_endpoint s'] ->
  norm (jsvc s) = norm (jsvc s') -> s = s'.
Proof.
  destruct s as [a1 a2 a3], s' as [b1 b2 b3]. unfold jsvc. cbn [sv_id sv_type sv_endpoint]. intros V V' H. inv_vtext.
  apply obj_view_inj in H; [| reflexivity | vm_compute; reflexivity].
  cbn [map nf fst snd] in H. inversion H; clear H. js_eqs. subst. reflexivity.
Qed.

Lemma norm_jrel_inj r r' :
  Forall vtext (doc_texts_rel r) -> Forall vtext (doc_texts_rel r') -> norm (jrel r) = norm (jrel r') -> r = r'.
Proof.
  destruct r as [i|v], r' as [i'|v']; cbn [doc_texts_rel jrel]; intros V V' H.
  - inv_vtext. f_equal. apply norm_jstr_inj; assumption.
  - unfold jvm in H. rewrite norm_obj in H. discriminate H.
  - unfold jvm in H. rewrite norm_obj in H. discriminate H.
  - f_equal. apply norm_jvm_inj; assumption.
Qed.

(** `contexts` / `controller`: a nil pointer and a pointer to an empty list are both omitted — apart from that the
    rendering (single string / array) is injective *)
Lemma norm_jarr_strs_inj l l' :
  Forall vtext l -> Forall vtext l' -> norm (JArr (map JStr l)) = norm (JArr (map JStr l')) -> l = l'.
Proof.
  intros V V' H. rewrite !norm_arr in H. injection H as H.
  apply (norm_map_inj JStr (fun s => [s])) in H; [exact H | | |].
  - intros a a' Va Va' E. inv_vtext. apply norm_jstr_inj; assumption.
  - clear -V. induction V; cbn [flat_map app]; constructor; assumption.
  - clear -V'. induction V'; cbn [flat_map app]; constructor; assumption.
Qed.

Lemma norm_jstrs_inj o o' :
  Forall vtext (match o with Some l => l | None => [] end) -> Forall vtext (match o' with Some l => l | None => [] end) ->
  o <> Some [] -> o' <> Some [] -> norm (jstrs o) = norm (jstrs o') -> o = o'.
Proof.
  intros V V' N N' H.
  destruct o as [[|x [|y l]]|], o' as [[|x' [|y' l']]|]; try (exfalso; apply N; reflexivity); try (exfalso; apply N'; reflexivity);
    try reflexivity;
    try change (jstrs (Some (x :: y :: l))) with (JArr (map JStr (x :: y :: l))) in H;
    try change (jstrs (Some (x' :: y' :: l'))) with (JArr (map JStr (x' :: y' :: l'))) in H;
    cbn [jstrs] in H; try (rewrite ?norm_arr in H; discriminate H).
  - inv_vtext. f_equal. f_equal. apply norm_jstr_inj; assumption.
  - f_equal. apply norm_jarr_strs_inj; assumption.
Qed.

Definition doc_canon (d : did_doc) : Prop := doc_contexts d <> Some [] /\ doc_controller d <> Some [].

Theorem norm_doc_inj d d' :
  Forall vtext (doc_texts d) -> Forall vtext (doc_texts d') -> doc_canon d -> doc_canon d' ->
  norm (JObj (doc_fields d)) = norm (JObj (doc_fields d')) -> d = d'.
Proof.
  destruct d as [c i ct vms au asr ka ci cd sv], d' as [c' i' ct' vms' au' asr' ka' ci' cd' sv'].
  unfold doc_texts, doc_canon, doc_fields.
  cbn [doc_contexts doc_id doc_controller doc_vms doc_auth doc_assert doc_keyagree doc_capinv doc_capdel doc_services].
  intros V V' [N1 N2] [N1' N2'] H.
  repeat (let V1 := fresh "V" in apply Forall_app in V as [V1 V]).
  repeat (let V1 := fresh "V" in apply Forall_app in V' as [V1 V']).
  apply obj_view_inj in H; [| reflexivity | vm_compute; reflexivity].
  cbn [map nf fst snd] in H. inversion H; clear H. inv_vtext. js_eqs.
  repeat match goal with E : norm (jl _) = norm (jl _) |- _ => apply norm_jl_inj in E end.
  repeat match goal with
         | E : map norm (map jrel _) = map norm (map jrel _) |- _ =>
             apply (norm_map_inj jrel doc_texts_rel norm_jrel_inj) in E; [|assumption|assumption]
         | E : map norm (map jvm _) = map norm (map jvm _) |- _ =>
             apply (norm_map_inj jvm doc_texts_vm norm_jvm_inj) in E; [|assumption|assumption]
         | E : map norm (map jsvc _) = map norm (map jsvc _) |- _ =>
             apply (norm_map_inj jsvc _ norm_jsvc_inj) in E; [|assumption|assumption]
         | E : norm (jstrs _) = norm (jstrs _) |- _ => apply norm_jstrs_inj in E; [|assumption|assumption|assumption|assumption]
         end.
  subst. reflexivity.
Qed.

Definition did_canon (m : did_msg) : Prop :=
  match m with
  | DCreate _ (Some d) _ _ _ | DUpdate _ (Some d) _ _ _ => doc_canon d
  | _ => True
  end.

Lemma norm_jdoc_inj o o' :
  Forall vtext (match o with Some d => doc_texts d | None => [] end) ->
  Forall vtext (match o' with Some d => doc_texts d | None => [] end) ->
  match o with Some d => doc_canon d | None => True end -> match o' with Some d => doc_canon d | None => True end ->
  norm (jdoc o) = norm (jdoc o') -> o = o'.
Proof.
  destruct o as [d|], o' as [d'|]; cbn [jdoc]; intros V V' N N' H.
  - f_equal. apply norm_doc_inj; assumption.
  - rewrite norm_obj in H. discriminate H.
  - rewrite norm_obj in H. discriminate H.
  - reflexivity.
Qed.

Lemma amino_did_inj m m' :
  type_url (BDid m) = type_url (BDid m') -> utf8_ok (BDid m) -> utf8_ok (BDid m') -> did_canon m -> did_canon m' ->
  amino_view (BDid m) = amino_view (BDid m') -> m = m'.
Proof.
  unfold utf8_ok, amino_view.
  destruct m as [did doc vmid sg from|did doc vmid sg from|did vmid sg from],
           m' as [did' doc' vmid' sg' from'|did' doc' vmid' sg' from'|did' vmid' sg' from'];
    intros Hu V V' N N' H; try (vm_compute in Hu; discriminate Hu).
  - cbn [text_fields] in V, V'. apply forallb_vtext in V, V'. cbn [app] in V, V'. inv_vtext.
    apply obj_view_inj in H; [| reflexivity | vm_compute; reflexivity].
    cbn [map amino_fields nf fst snd] in H. inversion H; clear H. js_eqs.
    match goal with E : norm (jdoc _) = norm (jdoc _) |- _ => apply norm_jdoc_inj in E; try assumption end.
    subst. reflexivity.
  - cbn [text_fields] in V, V'. apply forallb_vtext in V, V'. cbn [app] in V, V'. inv_vtext.
    apply obj_view_inj in H; [| reflexivity | vm_compute; reflexivity].
    cbn [map amino_fields nf fst snd] in H. inversion H; clear H. js_eqs.
    match goal with E : norm (jdoc _) = norm (jdoc _) |- _ => apply norm_jdoc_inj in E; try assumption end.
    subst. reflexivity.
  - split_valid V; split_valid V'; fields_eq H.
Qed.

(** ** B5. the amino theorems *)

Definition canon (m : base_msg) : Prop := match m with BDid d => did_canon d | _ => True end.

(** B5a: same message type, text fields valid UTF-8 (and, for a DID document, no present-but-empty `contexts` /
    `controller` list): the JSON of the message determines the message *)
Theorem amino_msg_inj : forall m m',
  custom m = true -> custom m' = true -> type_url m = type_url m' ->
  utf8_ok m -> utf8_ok m' -> canon m -> canon m' ->
  amino_msg_json m = amino_msg_json m' -> m = m'.
Proof.
  intros m m' C C' Hu V V' N N' H. apply amino_json_view in H.
  pose proof (url_module_distinct m m' C C' Hu) as Hm.
  destruct m as [a|d|p| | | | |], m' as [a'|d'|p'| | | | |]; try contradiction; try discriminate; f_equal.
  - apply amino_aol_inj; assumption.
  - apply amino_did_inj; assumption.
  - apply amino_pnft_inj; assumption.
Qed.

(** the whole sign document, all other parameters equal: it determines the view of every message, in order *)
Lemma amino_msg_json_prefix m m' X X' :
  amino_msg_json m ++ X = amino_msg_json m' ++ X' -> amino_view m = amino_view m' /\ X = X'.
Proof. unfold amino_msg_json, render. apply render_raw_prefix_inj. Qed.

Theorem std_sign_doc_msgs : forall c a s memo gas fee msgs msgs',
  std_sign_doc_json c a s memo gas fee msgs = std_sign_doc_json c a s memo gas fee msgs' ->
  map amino_view msgs = map amino_view msgs'.
Proof.
  intros c a s memo gas fee msgs msgs' H. unfold std_sign_doc_json in H.
  repeat apply app_inv_head in H.
  change (b "],""sequence"":" ++ ?x) with (x5d :: (b ",""sequence"":" ++ x)) in H.
  assert (E : forall l, map amino_msg_json l = map render_raw (map amino_view l)).
  { intros l. rewrite map_map. reflexivity. }
  rewrite !E in H.
  apply (join_comma_inj jvalue render_raw x5d) in H.
  - destruct H as [H _]. exact H.
  - discriminate.
  - intros v. destruct (render_raw_head v) as [t Ev]. exists (jhead v), t. split; [exact Ev|]. destruct v; discriminate.
  - apply Forall_forall. intros v _ v' X X'. apply render_raw_prefix_inj.
Qed.

(** B5b: C14 for the amino mode, as far as it holds: position by position the same message types, valid texts,
    canonical documents => equal sign bytes only for equal transactions *)
Theorem C14_amino_same_types : forall c a s memo gas fee ai pk msgs msgs' bz,
  Forall2 (fun m m' => type_url m = type_url m') msgs msgs' ->
  Forall (fun m => utf8_ok m /\ canon m) msgs -> Forall (fun m => utf8_ok m /\ canon m) msgs' ->
  sign_bytes mode_amino c a s memo gas fee ai pk msgs = Some bz ->
  sign_bytes mode_amino c a s memo gas fee ai pk msgs' = Some bz ->
  msgs = msgs'.
Proof.
  intros c a s memo gas fee ai pk msgs msgs' bz T V V' H H'.
  unfold sign_bytes in H, H'.
  destruct (forallb custom msgs) eqn:C; cbn [negb] in H; [|discriminate].
  destruct (forallb custom msgs') eqn:C'; cbn [negb] in H'; [|discriminate].
  change (bytes_eqb mode_amino mode_direct) with false in H, H'.
  change (bytes_eqb mode_amino mode_aux) with false in H, H'.
  change (bytes_eqb mode_amino mode_amino) with true in H, H'. cbv iota in H, H'.
  inversion H as [E]. inversion H' as [E']. rewrite <- E' in E. apply std_sign_doc_msgs in E.
  clear H H' E'. revert C C' V V' E.
  induction T as [|m m' msgs msgs' Hu T IH]; intros C C' V V' E; [reflexivity|].
  cbn [forallb map] in *. apply andb_true_iff in C as [C1 C2]. apply andb_true_iff in C' as [C1' C2'].
  inversion V as [|? ? [Vm Nm] Vr]; subst. inversion V' as [|? ? [Vm' Nm'] Vr']; subst.
  assert (E1 : amino_view m = amino_view m') by congruence.
  assert (E2 : map amino_view msgs = map amino_view msgs') by congruence.
  f_equal.
  - apply amino_msg_inj; try assumption. apply amino_json_view. exact E1.
  - apply IH; assumption.
Qed.

(** ** B6. different message types: the key sets *)

Inductive mkind :=
| KCreateTopic | KAddWriter | KDeleteWriter | KAddRecord
| KCreateDID | KUpdateDID | KDeactivateDID
| KCreateDenom | KUpdateDenom | KDeleteDenom | KTransferDenom | KMint | KTransfer | KBurn.

Definition all_kinds : list mkind :=
  [KCreateTopic; KAddWriter; KDeleteWriter; KAddRecord; KCreateDID; KUpdateDID; KDeactivateDID;
   KCreateDenom; KUpdateDenom; KDeleteDenom; KTransferDenom; KMint; KTransfer; KBurn].

Definition kind_of (m : base_msg) : option mkind :=
  match m with
  | BAol (ACreateTopic _ _ _) => Some KCreateTopic
  | BAol (AAddWriter _ _ _ _ _) => Some KAddWriter
  | BAol (ADeleteWriter _ _ _) => Some KDeleteWriter
  | BAol (AAddRecord _ _ _ _ _ _) => Some KAddRecord
  | BDid (DCreate _ _ _ _ _) => Some KCreateDID
  | BDid (DUpdate _ _ _ _ _) => Some KUpdateDID
  | BDid (DDeactivate _ _ _ _) => Some KDeactivateDID
  | BPnft (PCreateDenom _ _ _ _ _ _ _ _) => Some KCreateDenom
  | BPnft (PUpdateDenom _ _ _ _ _ _ _ _) => Some KUpdateDenom
  | BPnft (PDeleteDenom _ _) => Some KDeleteDenom
  | BPnft (PTransferDenom _ _ _) => Some KTransferDenom
  | BPnft (PMint _ _ _ _ _ _ _ _) => Some KMint
  | BPnft (PTransfer _ _ _ _) => Some KTransfer
  | BPnft (PBurn _ _ _) => Some KBurn
  | _ => None
  end.

(** a message of each kind with every field empty: its key list is the key list of the kind *)
Definition sample (k : mkind) : base_msg :=
  match k with
  | KCreateTopic => BAol (ACreateTopic [] [] [])
  | KAddWriter => BAol (AAddWriter [] [] [] [] [])
  | KDeleteWriter => BAol (ADeleteWriter [] [] [])
  | KAddRecord => BAol (AAddRecord [] [] [] [] [] [])
  | KCreateDID => BDid (DCreate [] None [] [] [])
  | KUpdateDID => BDid (DUpdate [] None [] [] [])
  | KDeactivateDID => BDid (DDeactivate [] [] [] [])
  | KCreateDenom => BPnft (PCreateDenom [] [] [] [] [] [] [] [])
  | KUpdateDenom => BPnft (PUpdateDenom [] [] [] [] [] [] [] [])
  | KDeleteDenom => BPnft (PDeleteDenom [] [])
  | KTransferDenom => BPnft (PTransferDenom [] [] [])
  | KMint => BPnft (PMint [] [] [] [] [] [] [] [])
  | KTransfer => BPnft (PTransfer [] [] [] [])
  | KBurn => BPnft (PBurn [] [] [])
  end.

(** the keys a message of this kind MAY show *)
Definition possible_keys (k : mkind) : list bytes := map fst (amino_fields (sample k)).

(** the keys a message of this kind that passes ValidateBasic ALWAYS shows *)
Definition required_keys (k : mkind) : list bytes :=
  match k with
  | KCreateTopic => [b "owner_address"; b "topic_name"]
  | KAddWriter | KDeleteWriter | KAddRecord => [b "owner_address"; b "topic_name"; b "writer_address"]
  | KCreateDID | KUpdateDID => [b "did"; b "document"; b "from_address"; b "signature"]
  | KDeactivateDID => [b "did"; b "from_address"; b "signature"]
  | KCreateDenom => [b "creator"; b "id"; b "name"; b "symbol"]
  | KUpdateDenom => [b "id"; b "updater"]
  | KDeleteDenom => [b "id"; b "remover"]
  | KTransferDenom => [b "id"; b "receiver"; b "sender"]
  | KMint => [b "creator"; b "denom_id"; b "id"; b "name"]
  | KTransfer => [b "denom_id"; b "id"; b "receiver"; b "sender"]
  | KBurn => [b "burner"; b "denom_id"; b "id"]
  end.

(** the computed table: kind, always-present keys, possible keys *)
Definition amino_key_sets : list (mkind * list bytes * list bytes) :=
  map (fun k => (k, required_keys k, possible_keys k)) all_kinds.

Definition mem_key (k : bytes) (l : list bytes) : bool := existsb (bytes_eqb k) l.

(** one of the two kinds always shows a key the other never shows *)
Definition separated (k k' : mkind) : bool :=
  existsb (fun r => negb (mem_key r (possible_keys k'))) (required_keys k) ||
  existsb (fun r => negb (mem_key r (possible_keys k))) (required_keys k').

Definition mkind_eqb (k k' : mkind) : bool :=
  match k, k' with
  | KCreateTopic, KCreateTopic | KAddWriter, KAddWriter | KDeleteWriter, KDeleteWriter | KAddRecord, KAddRecord
  | KCreateDID, KCreateDID | KUpdateDID, KUpdateDID | KDeactivateDID, KDeactivateDID
  | KCreateDenom, KCreateDenom | KUpdateDenom, KUpdateDenom | KDeleteDenom, KDeleteDenom
  | KTransferDenom, KTransferDenom | KMint, KMint | KTransfer, KTransfer | KBurn, KBurn => true
  | _, _ => false
  end.
Lemma mkind_eqb_eq k k' : mkind_eqb k k' = true <-> k = k'.
Proof. destruct k, k'; cbn [mkind_eqb]; split; intros H; try reflexivity; discriminate H. Qed.

(** the unordered pairs of distinct kinds that the key sets do NOT separate: exactly four, and each of them is a
    real collision (Part C) *)
Definition unseparated_pairs : list (mkind * mkind) :=
  flat_map (fun k => flat_map (fun k' => if negb (mkind_eqb k k') && negb (separated k k') then [(k, k')] else [])
                              all_kinds) all_kinds.

Example unseparated_pairs_are :
  unseparated_pairs =
  [(KAddWriter, KDeleteWriter); (KAddWriter, KAddRecord);
   (KDeleteWriter, KAddWriter); (KDeleteWriter, KAddRecord);
   (KAddRecord, KAddWriter); (KAddRecord, KDeleteWriter);
   (KCreateDID, KUpdateDID); (KUpdateDID, KCreateDID)].
Proof. vm_compute. reflexivity. Qed.

Lemma unseparated_complete k k' : k <> k' -> separated k k' = false -> In (k, k') unseparated_pairs.
Proof.
  intros Hne Hs. rewrite unseparated_pairs_are.
  destruct k, k'; try (exfalso; apply Hne; reflexivity); try (vm_compute in Hs; discriminate Hs); cbn [In]; tauto.
Qed.

(** the keys that show in the JSON of [m] *)
Definition present_keys (m : base_msg) : list bytes := map fst (filter nn (amino_fields m)).

Lemma is_null_norm v : is_null (norm v) = is_null v.
Proof. destruct v; reflexivity. Qed.

Lemma filter_nn_nf l : map fst (filter nn (map nf l)) = map fst (filter nn l).
Proof.
  induction l as [|[k v] l IH]; [reflexivity|]. cbn [map filter].
  change (nn (nf (k, v))) with (negb (is_null (norm v))). change (nn (k, v)) with (negb (is_null v)).
  rewrite is_null_norm. destruct (is_null v); cbn [negb map fst nf]; rewrite IH; reflexivity.
Qed.

Lemma amino_fields_sorted m : ssortedb (map fst (amino_fields m)) = true.
Proof. destruct m as [[]|[]|[]| | | | |]; vm_compute; reflexivity. Qed.

Lemma amino_view_keys m : amino_view m = JObj (filter nn (map nf (amino_fields m))).
Proof.
  unfold amino_view. rewrite norm_obj, sort_fields_sorted; [reflexivity|].
  apply ssortedb_filter. rewrite map_fst_nf. apply amino_fields_sorted.
Qed.

Lemma json_present_keys m m' : amino_msg_json m = amino_msg_json m' -> present_keys m = present_keys m'.
Proof.
  intros H. apply amino_json_view in H. rewrite !amino_view_keys in H. injection H as H.
  unfold present_keys. rewrite <- (filter_nn_nf (amino_fields m)), <- (filter_nn_nf (amino_fields m')), H. reflexivity.
Qed.

Lemma present_possible m k : kind_of m = Some k -> incl (present_keys m) (possible_keys k).
Proof.
  intros K key Hin. unfold present_keys in Hin. apply in_map_iff in Hin as (kv & <- & Hin).
  apply filter_In in Hin as [Hin _]. apply (in_map fst) in Hin.
  assert (E : map fst (amino_fields m) = possible_keys k).
  { destruct m as [[]|[]|[]| | | | |]; try discriminate K; injection K as <-; reflexivity. }
  rewrite <- E. exact Hin.
Qed.

Lemma in_present key s (fs : list jfield) : In (key, js s) fs -> s <> [] -> In key (map fst (filter nn fs)).
Proof.
  intros Hin Hs. apply in_map_iff. exists (key, js s). split; [reflexivity|].
  apply filter_In. split; [exact Hin|]. destruct s; [contradiction|reflexivity].
Qed.

(** *** what ValidateBasic forces to be non-empty *)
Lemma bind_ok {A B} (x : outcome A) (f : A -> outcome B) y :
  bind x f = Ok y -> exists a, x = Ok a /\ f a = Ok y.
Proof. destruct x; cbn [bind]; intros H; try discriminate H. eexists; split; [reflexivity|exact H]. Qed.

Ltac binds H := repeat (let a := fresh "u" in let E := fresh "E" in apply bind_ok in H as (a & E & H); destruct a).

Lemma topic_nonempty t : Valid.Aol.validate_topic_name t = Ok tt -> t <> [].
Proof. intros H ->. vm_compute in H. discriminate H. Qed.

Lemma addr_nonempty unbech s : unbech [] = None -> Valid.Aol.validate_addr unbech s = Ok tt -> s <> [].
Proof. intros Hn H ->. unfold Valid.Aol.validate_addr in H. rewrite Hn in H. discriminate H. Qed.

Lemma need_nonempty s : Pnft.Model.need (Pnft.Model.nonempty s) = Ok tt -> s <> [].
Proof. intros H ->. vm_compute in H. discriminate H. Qed.

Lemma need_addr_nonempty unbech s : Pnft.Model.need_addr unbech s = Ok tt -> s <> [].
Proof. intros H ->. vm_compute in H. discriminate H. Qed.

Lemma base64_nonempty k : k <> [] -> base64 k <> [].
Proof. destruct k as [|a [|c [|d r]]]; [contradiction|discriminate..]. Qed.

Lemma in_present64 key s (fs : list jfield) : In (key, js (base64 s)) fs -> s <> [] -> In key (map fst (filter nn fs)).
Proof. intros Hin Hs. apply (in_present key (base64 s)); [exact Hin | apply base64_nonempty; exact Hs]. Qed.

Lemma did_vb_facts unbech did doc sg from :
  unbech [] = None -> vb_create_update unbech true did doc sg from = Ok tt ->
  did <> [] /\ doc <> None /\ sg <> [] /\ from <> [].
Proof.
  intros Hn H. unfold vb_create_update in H.
  destruct (validate_did did) eqn:Vd; cbn [negb] in H; [|discriminate H].
  binds H. repeat split.
  - intros ->. vm_compute in Vd. discriminate Vd.
  - intros ->. cbn in E. discriminate E.
  - intros ->. discriminate H.
  - intros ->. destruct sg; [discriminate H|]. unfold vb_from in H. rewrite Hn in H. discriminate H.
Qed.

Lemma deact_vb_facts unbech did sg from :
  unbech [] = None -> vb_deactivate unbech did sg from = Ok tt -> did <> [] /\ sg <> [] /\ from <> [].
Proof.
  intros Hn H. unfold vb_deactivate in H.
  destruct (validate_did did) eqn:Vd; cbn [negb] in H; [|discriminate H]. repeat split.
  - intros ->. vm_compute in Vd. discriminate Vd.
  - intros ->. discriminate H.
  - intros ->. destruct sg; [discriminate H|]. unfold vb_from in H. rewrite Hn in H. discriminate H.
Qed.

Ltac key_in := cbn [amino_fields In]; tauto.

Theorem required_present : forall e m k,
  e_unbech e [] = None -> vb_base e m = Ok tt -> kind_of m = Some k -> incl (required_keys k) (present_keys m).
Proof.
  intros e m k Hn H K key Hin. unfold present_keys.
  destruct m as [[t d o|t mo d w o|t w o|t ky v w o f]
                |[did doc vmid sg from|did doc vmid sg from|did vmid sg from]
                |[a1 a2 a3 a4 a5 a6 a7 a8|a1 a2 a3 a4 a5 a6 a7 a8|a1 a2|a1 a2 a3|a1 a2 a3 a4 a5 a6 a7 a8|a1 a2 a3 a4|a1 a2 a3]
                | | | | |];
    try discriminate K; injection K as <-; cbn [vb_base vb_aol vb_did vb_pnft] in H; cbn [required_keys In] in Hin.
  - unfold Valid.Aol.vb_create_topic in H. binds H. apply topic_nonempty in E. apply (addr_nonempty _ _ Hn) in H.
    destruct Hin as [<-|[<-|[]]]; [apply (in_present _ o) | apply (in_present _ t)]; try assumption; key_in.
  - unfold Valid.Aol.vb_add_writer in H. binds H. apply topic_nonempty in E. apply (addr_nonempty _ _ Hn) in H, E2.
    destruct Hin as [<-|[<-|[<-|[]]]]; [apply (in_present _ o) | apply (in_present _ t) | apply (in_present _ w)];
      try assumption; key_in.
  - unfold Valid.Aol.vb_delete_writer in H. binds H. apply topic_nonempty in E. apply (addr_nonempty _ _ Hn) in H, E0.
    destruct Hin as [<-|[<-|[<-|[]]]]; [apply (in_present _ o) | apply (in_present _ t) | apply (in_present _ w)];
      try assumption; key_in.
  - unfold Valid.Aol.vb_add_record in H. binds H. apply topic_nonempty in E. apply (addr_nonempty _ _ Hn) in E2, E3.
    destruct Hin as [<-|[<-|[<-|[]]]]; [apply (in_present _ o) | apply (in_present _ t) | apply (in_present _ w)];
      try assumption; key_in.
  - apply (did_vb_facts _ _ _ _ _ Hn) in H as (F1 & F2 & F3 & F4).
    destruct Hin as [<-|[<-|[<-|[<-|[]]]]];
      [apply (in_present _ did); [key_in|assumption] | | apply (in_present _ from); [key_in|assumption]
       | apply (in_present64 _ sg); [key_in|assumption]].
    destruct doc as [dd|]; [|contradiction]. apply in_map_iff. exists (b "document", JObj (doc_fields dd)).
    split; [reflexivity|]. apply filter_In. split; [key_in|reflexivity].
  - apply (did_vb_facts _ _ _ _ _ Hn) in H as (F1 & F2 & F3 & F4).
    destruct Hin as [<-|[<-|[<-|[<-|[]]]]];
      [apply (in_present _ did); [key_in|assumption] | | apply (in_present _ from); [key_in|assumption]
       | apply (in_present64 _ sg); [key_in|assumption]].
    destruct doc as [dd|]; [|contradiction]. apply in_map_iff. exists (b "document", JObj (doc_fields dd)).
    split; [reflexivity|]. apply filter_In. split; [key_in|reflexivity].
  - apply (deact_vb_facts _ _ _ _ Hn) in H as (F1 & F2 & F3).
    destruct Hin as [<-|[<-|[<-|[]]]];
      [apply (in_present _ did) | apply (in_present _ from) | apply (in_present64 _ sg)]; try assumption; key_in.
  - unfold Pnft.Model.vb_create_denom in H. binds H. apply need_nonempty in E, E1, E2. apply need_addr_nonempty in H.
    destruct Hin as [<-|[<-|[<-|[<-|[]]]]];
      [apply (in_present _ a7) | apply (in_present _ a1) | apply (in_present _ a2) | apply (in_present _ a3)];
      try assumption; key_in.
  - unfold Pnft.Model.vb_update_denom in H. binds H. apply need_nonempty in E. apply need_addr_nonempty in H.
    destruct Hin as [<-|[<-|[]]]; [apply (in_present _ a1) | apply (in_present _ a7)]; try assumption; key_in.
  - unfold Pnft.Model.vb_delete_denom in H. binds H. apply need_nonempty in E. apply need_addr_nonempty in H.
    destruct Hin as [<-|[<-|[]]]; [apply (in_present _ a1) | apply (in_present _ a2)]; try assumption; key_in.
  - unfold Pnft.Model.vb_transfer_denom in H. binds H. apply need_nonempty in E. apply need_addr_nonempty in H, E0.
    destruct Hin as [<-|[<-|[<-|[]]]]; [apply (in_present _ a1) | apply (in_present _ a3) | apply (in_present _ a2)];
      try assumption; key_in.
  - unfold Pnft.Model.vb_mint_pnft in H. binds H. apply need_nonempty in E, E0, E2. apply need_addr_nonempty in H.
    destruct Hin as [<-|[<-|[<-|[<-|[]]]]];
      [apply (in_present _ a8) | apply (in_present _ a1) | apply (in_present _ a2) | apply (in_present _ a3)];
      try assumption; key_in.
  - unfold Pnft.Model.vb_transfer_pnft in H. binds H. apply need_nonempty in E, E0. apply need_addr_nonempty in H, E1.
    destruct Hin as [<-|[<-|[<-|[<-|[]]]]];
      [apply (in_present _ a1) | apply (in_present _ a2) | apply (in_present _ a4) | apply (in_present _ a3)];
      try assumption; key_in.
  - unfold Pnft.Model.vb_burn_pnft in H. binds H. apply need_nonempty in E, E0. apply need_addr_nonempty in H.
    destruct Hin as [<-|[<-|[<-|[]]]]; [apply (in_present _ a3) | apply (in_present _ a1) | apply (in_present _ a2)];
      try assumption; key_in.
Qed.

Lemma mem_key_in k l : mem_key k l = true <-> In k l.
Proof.
  unfold mem_key. rewrite existsb_exists. split.
  - intros (x & Hin & E). apply bytes_eqb_eq in E. subst. exact Hin.
  - intros Hin. exists k. split; [exact Hin | apply bytes_eqb_refl].
Qed.

(** B6a: messages of two separated kinds that pass ValidateBasic never share their JSON
    ([e_unbech e [] = None]: sdk.AccAddressFromBech32 refuses the empty string) *)
Theorem separated_never_collide : forall e m m' k k',
  e_unbech e [] = None -> kind_of m = Some k -> kind_of m' = Some k' -> separated k k' = true ->
  vb_base e m = Ok tt -> vb_base e m' = Ok tt ->
  amino_msg_json m <> amino_msg_json m'.
Proof.
  intros e m m' k k' Hn K K' S V V' H. apply json_present_keys in H.
  pose proof (required_present e m k Hn V K) as R. pose proof (required_present e m' k' Hn V' K') as R'.
  pose proof (present_possible m k K) as P. pose proof (present_possible m' k' K') as P'.
  unfold separated in S. apply orb_true_iff in S as [S|S]; apply existsb_exists in S as (key & Hin & Hno);
    apply negb_true_iff in Hno; assert (Hno' : ~ mem_key key _ = true) by (rewrite Hno; discriminate);
    apply Hno'; apply mem_key_in.
  - apply P'. rewrite <- H. apply R. exact Hin.
  - apply P. rewrite H. apply R'. exact Hin.
Qed.

Lemma kind_type_url m m' k : kind_of m = Some k -> kind_of m' = Some k -> type_url m = type_url m'.
Proof.
  destruct m as [[]|[]|[]| | | | |]; intros K; try discriminate K; injection K as <-;
    destruct m' as [[]|[]|[]| | | | |]; intros K'; try discriminate K'; reflexivity.
Qed.

Lemma kind_custom m k : kind_of m = Some k -> custom m = true.
Proof. destruct m as [[]|[]|[]| | | | |]; intros K; try discriminate K; reflexivity. Qed.

(** B6b: the classification.  Two validated custom messages with valid texts and canonical documents have the same
    amino JSON only if they are equal, or their kinds are one of the four unseparated pairs *)
Theorem amino_collision_classification : forall e m m' k k',
  e_unbech e [] = None -> kind_of m = Some k -> kind_of m' = Some k' ->
  vb_base e m = Ok tt -> vb_base e m' = Ok tt ->
  utf8_ok m -> utf8_ok m' -> canon m -> canon m' ->
  amino_msg_json m = amino_msg_json m' ->
  m = m' \/ In (k, k') unseparated_pairs.
Proof.
  intros e m m' k k' Hn K K' V V' U U' N N' H.
  destruct (mkind_eqb k k') eqn:E.
  - left. apply mkind_eqb_eq in E. subst k'.
    apply amino_msg_inj; try assumption; [eapply kind_custom; eassumption | eapply kind_custom; eassumption |].
    eapply kind_type_url; eassumption.
  - right. apply unseparated_complete.
    + intros ->. assert (T : mkind_eqb k' k' = true) by (apply mkind_eqb_eq; reflexivity). congruence.
    + destruct (separated k k') eqn:S; [|reflexivity]. exfalso.
      exact (separated_never_collide e m m' k k' Hn K K' S V V' H).
Qed.

(** * Part C — refutations (finding K1): different transactions, both accepted by ValidateBasic, equal amino sign bytes *)

Definition env0 : env :=
  {| e_unbech := fun s => match s with [] => None | _ => Some [x01] end; e_now := 0%Z; e_fee_collector := [];
     e_blocked := []; e_bech := fun a => a; e_b58key := fun _ => None; e_verify := fun _ _ _ => false |}.

Definition amino_of (m : base_msg) : option bytes :=
  sign_bytes mode_amino (b "chain-1") 7 3 [] 200000 [(b "umed", 10)] [] [] [m].
Definition direct_of (m : base_msg) : option bytes :=
  sign_bytes mode_direct (b "chain-1") 7 3 [] 200000 [(b "umed", 10)] [] [] [m].

Definition collide (m m' : base_msg) : Prop :=
  m <> m' /\ vb_base env0 m = Ok tt /\ vb_base env0 m' = Ok tt /\ amino_of m = amino_of m' /\
  direct_of m <> direct_of m'.

Ltac collision :=
  unfold collide; split; [vm_compute; discriminate|]; split; [vm_compute; reflexivity|]; split; [vm_compute; reflexivity|];
  split; [vm_compute; reflexivity | vm_compute; discriminate].

(** C1: AddWriter without moniker and description signs like DeleteWriter *)
Example K1_addwriter_deletewriter :
  collide (BAol (AAddWriter (b "t") [] [] (b "w") (b "o"))) (BAol (ADeleteWriter (b "t") (b "w") (b "o"))).
Proof. collision. Qed.

(** C2: AddRecord with empty key, value and fee payer signs like AddWriter / DeleteWriter *)
Example K1_addrecord_deletewriter :
  collide (BAol (AAddRecord (b "t") [] [] (b "w") (b "o") [])) (BAol (ADeleteWriter (b "t") (b "w") (b "o"))).
Proof. collision. Qed.
Example K1_addrecord_addwriter :
  collide (BAol (AAddRecord (b "t") [] [] (b "w") (b "o") [])) (BAol (AAddWriter (b "t") [] [] (b "w") (b "o"))).
Proof. collision. Qed.

(** C3: CreateDID and UpdateDID with the same fields *)
Definition did0 : bytes := b "did:panacea:11111111111111111111111111111111".
Definition vmid0 : bytes := did0 ++ b "#key1".
Definition doc0 : did_doc :=
  {| doc_contexts := Some [GenConst.context_did_v1]; doc_id := did0; doc_controller := None;
     doc_vms := [{| vm_id := vmid0; vm_type := GenConst.key_type_es256k_2019; vm_controller := did0; vm_pubkey58 := b "abc" |}];
     doc_auth := [VRef vmid0]; doc_assert := []; doc_keyagree := []; doc_capinv := []; doc_capdel := [];
     doc_services := [] |}.
Example K1_createdid_updatedid :
  collide (BDid (DCreate did0 (Some doc0) vmid0 (b "s") (b "f"))) (BDid (DUpdate did0 (Some doc0) vmid0 (b "s") (b "f"))).
Proof. collision. Qed.

(** C4: same type, a text field that is not UTF-8: [xff] and [xfe] both become U+FFFD *)
Example K1_invalid_utf8_collapses :
  collide (BAol (ACreateTopic (b "t") [xff] (b "o"))) (BAol (ACreateTopic (b "t") [xfe] (b "o"))).
Proof. collision. Qed.

(** C5 (new): same type, every text valid UTF-8: a DID document whose `controller` is present but empty signs like one
    without controller — both pass ValidateBasic ([EmptyDIDs] accepts the empty list); protobuf tells them apart *)
Definition doc0_empty_controller : did_doc :=
  {| doc_contexts := doc_contexts doc0; doc_id := doc_id doc0; doc_controller := Some []; doc_vms := doc_vms doc0;
     doc_auth := doc_auth doc0; doc_assert := []; doc_keyagree := []; doc_capinv := []; doc_capdel := [];
     doc_services := [] |}.
Example amino_controller_nil_vs_empty :
  collide (BDid (DCreate did0 (Some doc0) vmid0 (b "s") (b "f")))
          (BDid (DCreate did0 (Some doc0_empty_controller) vmid0 (b "s") (b "f"))).
Proof. collision. Qed.
(** the same for `contexts`, but there ValidateBasic refuses the empty list *)
Example amino_contexts_nil_vs_empty :
  let d1 := {| doc_contexts := None; doc_id := did0; doc_controller := None; doc_vms := []; doc_auth := [];
               doc_assert := []; doc_keyagree := []; doc_capinv := []; doc_capdel := []; doc_services := [] |} in
  let d2 := {| doc_contexts := Some []; doc_id := did0; doc_controller := None; doc_vms := []; doc_auth := [];
               doc_assert := []; doc_keyagree := []; doc_capinv := []; doc_capdel := []; doc_services := [] |} in
  amino_msg_json (BDid (DCreate did0 (Some d1) [] [] [])) = amino_msg_json (BDid (DCreate did0 (Some d2) [] [] []))
  /\ msg_any (BDid (DCreate did0 (Some d1) [] [] [])) <> msg_any (BDid (DCreate did0 (Some d2) [] [] [])).
Proof. split; vm_compute; [reflexivity|discriminate]. Qed.

(** a nil document and a zero document are told apart in every mode (amino: no "document" key vs "document":{}) *)
Example nil_vs_zero_document :
  amino_msg_json (BDid (DCreate did0 None [] [] [])) <> amino_msg_json (BDid (DCreate did0 (Some empty_doc) [] [] []))
  /\ msg_any (BDid (DCreate did0 None [] [] [])) <> msg_any (BDid (DCreate did0 (Some empty_doc) [] [] [])).
Proof. split; vm_compute; discriminate. Qed.

(** determinism: the sign bytes are a function of the transaction and the signer data (no map iteration, no clock,
    no randomness in the model; on the implementation the harness computes every case in all three modes and the
    answers agree with the model byte for byte) *)
Theorem sign_bytes_deterministic : forall mode c a s memo gas fee ai pk msgs x y,
  sign_bytes mode c a s memo gas fee ai pk msgs = x -> sign_bytes mode c a s memo gas fee ai pk msgs = y -> x = y.
Proof. intros. congruence. Qed.

Print Assumptions msg_any_inj.
Print Assumptions marshal_doc_inj.
Print Assumptions C14_direct.
Print Assumptions C14_aux.
Print Assumptions amino_msg_inj.
Print Assumptions C14_amino_same_types.
Print Assumptions separated_never_collide.
Print Assumptions amino_collision_classification.
Print Assumptions K1_addwriter_deletewriter.
Print Assumptions K1_addrecord_deletewriter.
Print Assumptions K1_addrecord_addwriter.
Print Assumptions K1_createdid_updatedid.
Print Assumptions K1_invalid_utf8_collapses.
Print Assumptions amino_controller_nil_vs_empty.
