package main

// `hx upgradeprobe -i <k>` (child process): a node that has walked through the first k upgrade descriptors has on disk the
// stores upgrade_path(baseline, descriptors[:k]); the old binary stopped at the height of descriptor k and left
// upgrade-info.json naming it; THIS binary is started on that database.  app.New installs the upgrade store loader from
// upgrade-info.json and loads the latest version; it exits the process when that fails (hence the child process).
// The parent (`UPROBE k` in a history) reports "U probe <name> ok|fail"; the model answers load_ok from Upgrade/Model.v.

import (
	"fmt"
	"os"
	"os/exec"
	"path/filepath"
	"sort"
	"time"

	dbm "github.com/cometbft/cometbft-db"
	"github.com/cometbft/cometbft/libs/log"
	"github.com/cosmos/cosmos-sdk/store/rootmulti"
	storetypes "github.com/cosmos/cosmos-sdk/store/types"
	upgradetypes "github.com/cosmos/cosmos-sdk/x/upgrade/types"
	"github.com/medibloc/panacea-core/v2/app"
)

// diskAfter: the store names on disk after applying the first k descriptors to the baseline
func diskAfter(k int) []string {
	on := map[string]bool{}
	for _, s := range upgradeBaseline {
		on[s] = true
	}
	for _, u := range app.Upgrades[:k] {
		for _, s := range u.StoreUpgrades.Deleted {
			delete(on, s)
		}
		for _, r := range u.StoreUpgrades.Renamed {
			if on[r.OldKey] {
				delete(on, r.OldKey)
				on[r.NewKey] = true
			}
		}
		for _, s := range u.StoreUpgrades.Added {
			on[s] = true
		}
	}
	var out []string
	for s := range on {
		out = append(out, s)
	}
	sort.Strings(out)
	return out
}

func runUpgradeProbeChild(k int) {
	if k < 0 || k >= len(app.Upgrades) {
		os.Exit(3)
	}
	db := dbm.NewMemDB()
	ms := rootmulti.NewStore(db, log.NewNopLogger())
	for _, name := range diskAfter(k) {
		ms.MountStoreWithDB(storetypes.NewKVStoreKey(name), storetypes.StoreTypeIAVL, nil)
	}
	must(ms.LoadLatestVersion())
	for i := 0; i < 5; i++ {
		ms.Commit()
	}
	home, err := os.MkdirTemp("", "hx-probe-")
	must(err)
	defer os.RemoveAll(home)
	must(os.MkdirAll(filepath.Join(home, "data"), 0o755))
	plan := upgradetypes.Plan{Name: app.Upgrades[k].UpgradeName, Height: 6}
	info := fmt.Sprintf(`{"name":%q,"height":%d}`, plan.Name, plan.Height)
	must(os.WriteFile(filepath.Join(home, "data", "upgrade-info.json"), []byte(info), 0o644))
	a := newApp(db, home) // exits the process if the stores cannot be loaded
	if a.LastBlockHeight() != 5 {
		os.Exit(4)
	}
	os.RemoveAll(home)
	os.Exit(0)
}

func (x *Exec) upgradeProbe(k int) string {
	if k < 0 || k >= len(app.Upgrades) {
		return "U probe ? bad-index"
	}
	name := app.Upgrades[k].UpgradeName
	cmd := exec.Command(os.Args[0], "upgradeprobe", "-n", fmt.Sprint(k), "-out", os.TempDir())
	cmd.Env = os.Environ()
	done := make(chan error, 1)
	go func() { done <- cmd.Run() }()
	var err error
	select {
	case err = <-done:
	case <-time.After(120 * time.Second):
		cmd.Process.Kill()
		err = fmt.Errorf("timeout")
	}
	x.Stats["upgrade-probe"]++
	if err != nil {
		return "U probe " + toks(name) + " fail"
	}
	return "U probe " + toks(name) + " ok"
}
