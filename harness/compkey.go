package main

import (
	"bytes"
	"encoding/json"
	"fmt"
	"os"
	"strconv"
	"strings"

	sdk "github.com/cosmos/cosmos-sdk/types"
	"github.com/medibloc/panacea-core/v2/types/compkey"
	aoltypes "github.com/medibloc/panacea-core/v2/x/aol/types"
)

// rawKey is a harness-local CompositeKey carrying an arbitrary tuple, so that the generic
// Encode/PartialEncode/Decode are exercised through the exported API.
type rawKey struct{ vals [][]byte }

func (k rawKey) ByteSlices() [][]byte { return k.vals }
func (k *rawKey) FromByteSlices(b [][]byte) error {
	k.vals = b
	return nil
}
func (k rawKey) Strings() []string             { return nil }
func (k *rawKey) FromStrings(s []string) error { return nil }

type finding struct {
	Clause string `json:"clause"`
	Detail string `json:"detail"`
	Cmd    string `json:"cmd"`
}

type ckStats struct {
	Ops        map[string]int `json:"ops"`
	Answers    map[string]int `json:"answers"`
	CompLens   map[string]int `json:"component_lengths"`
	Arity      map[string]int `json:"arity"`
	Distinct   int            `json:"distinct_cmds"`
	NonTrivial int            `json:"distinct_nontrivial"`
}

func newKey(kind string) compkey.CompositeKey {
	switch kind {
	case "owner":
		return &aoltypes.OwnerCompositeKey{}
	case "topic":
		return &aoltypes.TopicCompositeKey{}
	case "writer":
		return &aoltypes.WriterCompositeKey{}
	case "record":
		return &aoltypes.RecordCompositeKey{}
	}
	panic("kind " + kind)
}

func keyFromFields(kind string, f []string) compkey.CompositeKey {
	switch kind {
	case "owner":
		return &aoltypes.OwnerCompositeKey{OwnerAddress: untok(f[0])}
	case "topic":
		return &aoltypes.TopicCompositeKey{OwnerAddress: untok(f[0]), TopicName: string(untok(f[1]))}
	case "writer":
		return &aoltypes.WriterCompositeKey{OwnerAddress: untok(f[0]), TopicName: string(untok(f[1])), WriterAddress: untok(f[2])}
	case "record":
		n, err := strconv.ParseUint(f[2], 10, 64)
		must(err)
		return &aoltypes.RecordCompositeKey{OwnerAddress: untok(f[0]), TopicName: string(untok(f[1])), Offset: n}
	}
	panic("kind " + kind)
}

func keyToToks(k compkey.CompositeKey) string {
	switch v := k.(type) {
	case *aoltypes.OwnerCompositeKey:
		return joinSp("owner", tok(v.OwnerAddress))
	case *aoltypes.TopicCompositeKey:
		return joinSp("topic", tok(v.OwnerAddress), toks(v.TopicName))
	case *aoltypes.WriterCompositeKey:
		return joinSp("writer", tok(v.OwnerAddress), toks(v.TopicName), tok(v.WriterAddress))
	case *aoltypes.RecordCompositeKey:
		return joinSp("record", tok(v.OwnerAddress), toks(v.TopicName), strconv.FormatUint(v.Offset, 10))
	}
	panic("key type")
}

// execCK runs one "CK ..." command on the real code; a Go panic is reported as "panic".
func execCK(f []string) (ans string) {
	defer func() {
		if r := recover(); r != nil {
			ans = "panic"
		}
	}()
	switch f[1] {
	case "ENC":
		vals := [][]byte{}
		for _, t := range f[2:] {
			vals = append(vals, untok(t))
		}
		bz, err := compkey.Encode(&rawKey{vals})
		if err != nil {
			return "err"
		}
		return "ok " + tok(bz)
	case "PENC":
		k, _ := strconv.Atoi(f[2])
		vals := [][]byte{}
		for _, t := range f[3:] {
			vals = append(vals, untok(t))
		}
		bz, err := compkey.PartialEncode(&rawKey{vals}, k)
		if err != nil {
			return "err"
		}
		return "ok " + tok(bz)
	case "DEC":
		var k rawKey
		if err := compkey.Decode(untok(f[2]), &k); err != nil {
			return "err"
		}
		parts := []string{"ok"}
		for _, v := range k.vals {
			parts = append(parts, tok(v))
		}
		return strings.Join(parts, " ")
	case "DECK":
		k := newKey(f[2])
		if err := compkey.Decode(untok(f[3]), k); err != nil {
			return "err"
		}
		return "ok " + keyToToks(k)
	case "ENCK":
		bz, err := compkey.Encode(keyFromFields(f[2], f[3:]))
		if err != nil {
			return "err"
		}
		return "ok " + tok(bz)
	case "STR":
		return "ok " + toks(compkey.EncodeToString(keyFromFields(f[2], f[3:]), aoltypes.GenesisKeySeparator))
	case "DSTR":
		k := newKey(f[2])
		if err := compkey.DecodeFromString(string(untok(f[3])), aoltypes.GenesisKeySeparator, k); err != nil {
			return "err"
		}
		return "ok " + keyToToks(k)
	}
	return "BADLINE"
}

// ---------- generation ----------
var ckLens = []int{0, 0, 1, 1, 2, 3, 8, 20, 32, 70, 254, 255, 256, 300}
var ckBiased = []byte{0x00, 0x01, 0x02, 0x08, 0x14, 0x20, 0x2f, 0x61, 0xfe, 0xff}

func genComp(r *RNG) []byte {
	n := pick(r, ckLens)
	b := make([]byte, n)
	mode := r.Intn(3)
	for i := range b {
		switch mode {
		case 0:
			b[i] = pick(r, ckBiased)
		case 1:
			b[i] = byte(r.U64())
		default:
			b[i] = 'a' + byte(r.Intn(3))
		}
	}
	return b
}

func genTuple(r *RNG) [][]byte {
	n := r.Intn(5)
	t := make([][]byte, n)
	for i := range t {
		t[i] = genComp(r)
	}
	return t
}

func tupleToks(t [][]byte) string { // with a leading space per component, so the empty tuple adds nothing
	var sb strings.Builder
	for _, v := range t {
		sb.WriteByte(' ')
		sb.WriteString(tok(v))
	}
	return sb.String()
}

func rawEncode(t [][]byte) []byte { // unchecked reference layout, only used to build decoder inputs
	var b []byte
	for _, v := range t {
		b = append(b, byte(len(v)))
		b = append(b, v...)
	}
	return b
}

var ckAddrLens = []int{0, 1, 20, 20, 20, 32, 255, 256}
var ckTopics = []string{"", "a", "ab", "a.b", "A", "a-", "a/b", "/", strings.Repeat("t", 70), strings.Repeat("x", 255), strings.Repeat("y", 256), "\x00", "\x01\x14"}
var ckOffsets = []uint64{0, 1, 5, 255, 256, 1 << 32, 1 << 63, ^uint64(0), 72057594037927936}

func genAddr(r *RNG) []byte {
	n := pick(r, ckAddrLens)
	b := make([]byte, n)
	for i := range b {
		if r.Chance(50) {
			b[i] = pick(r, ckBiased)
		} else {
			b[i] = byte(r.U64())
		}
	}
	return b
}

func genKeyFields(r *RNG, kind string) string {
	switch kind {
	case "owner":
		return tok(genAddr(r))
	case "topic":
		return joinSp(tok(genAddr(r)), toks(pick(r, ckTopics)))
	case "writer":
		return joinSp(tok(genAddr(r)), toks(pick(r, ckTopics)), tok(genAddr(r)))
	default:
		return joinSp(tok(genAddr(r)), toks(pick(r, ckTopics)), strconv.FormatUint(pick(r, ckOffsets), 10))
	}
}

var ckKinds = []string{"owner", "topic", "writer", "record"}

func genCompkeyCmds(seed uint64, n int) []string {
	r := NewRNG(seed)
	var cmds []string
	add := func(s string) { cmds = append(cmds, s) }
	// exhaustive small scope for the decoder: all strings up to length 3 over {00,01,02,61}
	alpha := []byte{0x00, 0x01, 0x02, 0x61}
	var rec func(p []byte, d int)
	rec = func(p []byte, d int) {
		add("CK DEC " + tok(p))
		for _, k := range ckKinds {
			add("CK DECK " + k + " " + tok(p))
		}
		if d == 0 {
			return
		}
		for _, c := range alpha {
			rec(append(append([]byte{}, p...), c), d-1)
		}
	}
	rec(nil, 3)
	// record keys with every offset-component length 0..10 (the F12 shapes)
	for l := 0; l <= 10; l++ {
		off := make([]byte, l)
		for i := range off {
			off[i] = byte(i + 1)
		}
		add("CK DECK record " + tok(rawEncode([][]byte{{1, 2, 3}, []byte("t"), off})))
	}
	for len(cmds) < n {
		switch r.Intn(10) {
		case 0, 1: // a family of tuples sharing prefixes (for the prefix monitor)
			a := genTuple(r)
			add("CK ENC" + tupleToks(a))
			for k := 0; k <= len(a)+1; k++ {
				add(fmt.Sprintf("CK PENC %d%s", k, tupleToks(a)))
			}
			for j := 0; j < 3; j++ {
				c := make([][]byte, 0, 5)
				keep := r.Intn(len(a) + 1)
				c = append(c, a[:keep]...)
				if keep < len(a) && r.Bool() { // a component that is a strict prefix / extension of a's
					v := a[keep]
					if len(v) > 0 && r.Bool() {
						c = append(c, v[:len(v)-1])
					} else if len(v) < 255 {
						c = append(c, append(append([]byte{}, v...), pick(r, ckBiased)))
					}
				}
				for len(c) < 4 && r.Bool() {
					c = append(c, genComp(r))
				}
				add("CK ENC" + tupleToks(c))
			}
		case 2:
			add("CK ENC" + tupleToks(genTuple(r)))
		case 3: // decoder: mutated encodings
			t := genTuple(r)
			for i := range t {
				if len(t[i]) > 255 {
					t[i] = t[i][:255]
				}
			}
			bz := rawEncode(t)
			switch r.Intn(4) {
			case 0:
				if len(bz) > 0 {
					bz = bz[:r.Intn(len(bz))]
				}
			case 1:
				bz = append(bz, pick(r, ckBiased))
			case 2:
				if len(bz) > 0 {
					bz[r.Intn(len(bz))] = pick(r, ckBiased)
				}
			}
			add("CK DEC " + tok(bz))
			add("CK DECK " + pick(r, ckKinds) + " " + tok(bz))
		case 4: // decoder: random bytes
			l := r.Intn(12)
			bz := make([]byte, l)
			for i := range bz {
				bz[i] = pick(r, ckBiased)
			}
			add("CK DEC " + tok(bz))
			add("CK DECK " + pick(r, ckKinds) + " " + tok(bz))
		case 5, 6: // typed keys: encode, decode the encoding as every kind
			kind := pick(r, ckKinds)
			fl := genKeyFields(r, kind)
			add("CK ENCK " + kind + " " + fl)
			func() {
				defer func() { recover() }()
				bz, err := compkey.Encode(keyFromFields(kind, strings.Split(fl, " ")))
				if err == nil {
					for _, k2 := range ckKinds {
						add("CK DECK " + k2 + " " + tok(bz))
					}
				}
			}()
		case 7: // typed decode with odd offset components / address lengths
			o := genAddr(r)
			if len(o) > 255 {
				o = o[:255]
			}
			t := []byte(pick(r, ckTopics))
			if len(t) > 255 {
				t = t[:255]
			}
			third := make([]byte, r.Intn(11))
			for i := range third {
				third[i] = byte(r.U64())
			}
			bz := rawEncode([][]byte{o, t, third})
			add("CK DECK record " + tok(bz))
			add("CK DECK writer " + tok(bz))
		default: // string forms
			kind := pick(r, ckKinds)
			fl := genKeyFields(r, kind)
			add("CK STR " + kind + " " + fl)
			var s string
			func() {
				defer func() { recover() }()
				s = compkey.EncodeToString(keyFromFields(kind, strings.Split(fl, " ")), aoltypes.GenesisKeySeparator)
			}()
			switch r.Intn(6) {
			case 0:
				s += "/"
			case 1:
				s = strings.Replace(s, "/", "//", 1)
			case 2:
				s = strings.ToUpper(s)
			case 3:
				if i := strings.LastIndex(s, "/"); i >= 0 {
					s = s[:i+1] + pick(r, []string{"18446744073709551616", "18446744073709551615", "-1", "+1", "007", "", "1_0", "0x10", " 1", "9999999999999999999999"})
				}
			}
			add("CK DSTR " + kind + " " + toks(s))
			add("CK DSTR " + pick(r, ckKinds) + " " + toks(s))
		}
	}
	return cmds
}

// address tables needed by the model for the string forms (computed by the real bech32 code)
func ckAddrDecls(cmds []string) []string {
	seenA := map[string]bool{}
	seenS := map[string]bool{}
	var decls []string
	addBech := func(a []byte) {
		if seenA[string(a)] {
			return
		}
		seenA[string(a)] = true
		decls = append(decls, joinSp("BECH", tok(a), toks(sdk.AccAddress(a).String())))
	}
	addStr := func(s string) {
		if seenS[s] {
			return
		}
		seenS[s] = true
		if a, err := sdk.AccAddressFromBech32(s); err == nil {
			decls = append(decls, joinSp("ADDR", toks(s), tok(a)))
		}
	}
	for _, c := range cmds {
		f := strings.Split(c, " ")
		switch f[1] {
		case "STR":
			addBech(untok(f[3]))
			addStr(sdk.AccAddress(untok(f[3])).String())
			if f[2] == "writer" {
				addBech(untok(f[5]))
				addStr(sdk.AccAddress(untok(f[5])).String())
			}
		case "DSTR":
			for _, p := range strings.Split(string(untok(f[3])), aoltypes.GenesisKeySeparator) {
				addStr(p)
			}
		}
	}
	return decls
}

// ---------- monitors over the implementation's own answers ----------
func ckMonitor(cmds, answers []string) []finding {
	fs := []finding{}
	flag := func(clause, detail, cmd string) {
		if len(fs) < 50 {
			fs = append(fs, finding{clause, detail, cmd})
		}
	}
	encOf := map[string]string{} // encoding -> tuple tokens
	type enc struct {
		t  [][]byte
		bz []byte
	}
	var encs []enc
	parseTuple := func(ts []string) [][]byte {
		t := [][]byte{}
		for _, x := range ts {
			t = append(t, untok(x))
		}
		return t
	}
	for i, c := range cmds {
		f := strings.Split(c, " ")
		a := answers[i]
		af := strings.Split(a, " ")
		if a == "panic" {
			flag("no-panic", "entry point panicked instead of returning an error", c)
			continue
		}
		switch f[1] {
		case "ENC":
			t := parseTuple(f[2:])
			long := false
			for _, v := range t {
				if len(v) > 255 {
					long = true
				}
			}
			if long != (a == "err") {
				flag("reject-long", "Encode must fail exactly when a component exceeds 255 bytes: "+a, c)
			}
			if af[0] == "ok" {
				bz := untok(af[1])
				key := strings.Join(f[2:], " ")
				if prev, ok := encOf[af[1]]; ok && prev != key {
					flag("injective", "two tuples share an encoding: "+prev+" | "+key, c)
				}
				encOf[af[1]] = key
				var k rawKey
				if err := compkey.Decode(bz, &k); err != nil || len(k.vals) != len(t) {
					flag("roundtrip", "Decode(Encode(t)) failed or changed arity", c)
				} else {
					for j := range t {
						if !bytes.Equal(t[j], k.vals[j]) {
							flag("roundtrip", "Decode(Encode(t)) != t", c)
						}
					}
				}
				encs = append(encs, enc{t, bz})
			}
		case "PENC":
			// PartialEncode(t, k) must fail exactly when one of the first k components exceeds 255 bytes (or k is out of range),
			// and otherwise be the encoding of those k components
			k, _ := strconv.Atoi(f[2])
			t := parseTuple(f[3:])
			if k >= 0 && k <= len(t) {
				long := false
				for _, v := range t[:k] {
					if len(v) > 255 {
						long = true
					}
				}
				if long != (a == "err") {
					flag("reject-long", fmt.Sprintf("PartialEncode(_, %d) must fail exactly when one of the first %d components exceeds 255 bytes: %.20s", k, k, a), c)
				}
				if af[0] == "ok" && !long {
					want, err := compkey.Encode(&rawKey{t[:k]})
					if err != nil || !bytes.Equal(want, untok(af[1])) {
						flag("prefix-exact", "PartialEncode(t, k) is not Encode of the first k components", c)
					}
				}
			}
		case "DEC":
			if af[0] == "ok" {
				re, err := compkey.Encode(&rawKey{parseTuple(af[1:])})
				if err != nil || !bytes.Equal(re, untok(f[2])) {
					flag("decode-sound", "accepted byte string is not the encoding of the decoded tuple", c)
				}
			}
		case "DECK":
			if af[0] == "ok" {
				var re []byte
				var err error
				func() {
					defer func() {
						if r := recover(); r != nil {
							err = fmt.Errorf("panic")
						}
					}()
					re, err = compkey.Encode(keyFromFields(af[1], af[2:]))
				}()
				if err != nil || !bytes.Equal(re, untok(f[3])) {
					flag("typed-decode-sound", "accepted byte string is not the encoding of the decoded key (silent truncation/defaulting): "+a, c)
				}
			}
		case "STR":
			// round trip of the string form for keys whose fields the validators admit
			kind := f[2]
			flds := f[3:]
			ok := len(untok(flds[0])) >= 1 && len(untok(flds[0])) <= 255
			if kind != "owner" {
				ok = ok && !strings.Contains(string(untok(flds[1])), "/")
			}
			if kind == "writer" {
				ok = ok && len(untok(flds[2])) >= 1 && len(untok(flds[2])) <= 255
			}
			if ok {
				k := newKey(kind)
				err := compkey.DecodeFromString(string(untok(af[1])), aoltypes.GenesisKeySeparator, k)
				if err != nil || keyToToks(k) != joinSp(append([]string{kind}, flds...)...) {
					flag("string-roundtrip", "DecodeFromString(EncodeToString(k)) != k", c)
				}
			}
		}
	}
	// prefix exactness on consecutive families (pairs within a window)
	for i := range encs {
		for j := i + 1; j < len(encs) && j < i+6; j++ {
			for _, pr := range [][2]enc{{encs[i], encs[j]}, {encs[j], encs[i]}} {
				a, c := pr[0], pr[1]
				for k := 0; k <= len(a.t); k++ {
					p, err := compkey.PartialEncode(&rawKey{a.t}, k)
					if err != nil {
						continue
					}
					compEq := k <= len(c.t)
					if compEq {
						for x := 0; x < k; x++ {
							if !bytes.Equal(a.t[x], c.t[x]) {
								compEq = false
							}
						}
					}
					if bytes.HasPrefix(c.bz, p) != compEq {
						flag("prefix-exact", fmt.Sprintf("byte-prefix relation (%v) differs from component-prefix relation (%v) for k=%d: %s | %s", bytes.HasPrefix(c.bz, p), compEq, k, tupleToks(a.t), tupleToks(c.t)), "CK ENC"+tupleToks(a.t))
					}
				}
			}
		}
	}
	return fs
}

func runCompkey(seed uint64, n int, out string, replay string) {
	var cmds []string
	if replay != "" {
		data, err := os.ReadFile(replay)
		must(err)
		for _, l := range strings.Split(string(data), "\n") {
			if strings.HasPrefix(l, "CK ") {
				cmds = append(cmds, l)
			}
		}
	} else {
		cmds = genCompkeyCmds(seed, n)
	}
	o := NewOut(out)
	o.Decl("# profile compkey seed %d", seed)
	for _, d := range ckAddrDecls(cmds) {
		o.Decl("%s", d)
	}
	st := ckStats{Ops: map[string]int{}, Answers: map[string]int{}, CompLens: map[string]int{}, Arity: map[string]int{}}
	answers := make([]string, len(cmds))
	distinct := map[string]bool{}
	for i, c := range cmds {
		f := strings.Split(c, " ")
		a := execCK(f)
		answers[i] = a
		o.Cmd(c, a)
		st.Ops[f[1]]++
		st.Answers[f[1]+":"+strings.SplitN(a, " ", 2)[0]]++
		if f[1] == "ENC" {
			st.Arity[strconv.Itoa(len(f)-2)]++
			for _, t := range f[2:] {
				st.CompLens[strconv.Itoa(len(untok(t)))]++
			}
		}
		if !distinct[c] {
			distinct[c] = true
			// non-trivial: at least two components or a multi-byte input
			if len(f) > 3 || (len(f) == 3 && len(f[2]) > 2) {
				st.NonTrivial++
			}
		}
	}
	st.Distinct = len(distinct)
	o.Close()
	fs := ckMonitor(cmds, answers)
	res := map[string]any{"profile": "compkey", "seed": seed, "commands": len(cmds), "stats": st, "findings": fs,
		"samples": cmds[min(len(cmds)-1, 400):min(len(cmds), 406)]}
	data, _ := json.MarshalIndent(res, "", " ")
	must(os.WriteFile(out+"/monitor.json", data, 0o644))
}
