package main

// Translator, part 2 (C09): the "nondeterminism footprint" of the state-machine code, re-derived from /repo's source on
// every run: every use of wall-clock time, randomness, goroutines, select, the process environment, floating point and
// unsafe in the keeper / types / module / app code, and every range statement over a map.  Coq/Generated/GenFootprint.v.

import (
	"fmt"
	"go/ast"
	"go/parser"
	"go/token"
	"os"
	"path/filepath"
	"sort"
	"strings"
)

func footprintFiles(repo string) []string {
	var out []string
	for _, root := range []string{"x", "app", "types/compkey", "types/assets"} {
		filepath.Walk(filepath.Join(repo, root), func(p string, info os.FileInfo, err error) error {
			if err != nil || info.IsDir() {
				return nil
			}
			rel, _ := filepath.Rel(repo, p)
			if !strings.HasSuffix(rel, ".go") || strings.HasSuffix(rel, "_test.go") || strings.HasSuffix(rel, ".pb.gw.go") ||
				strings.Contains(rel, "/client/") || strings.Contains(rel, "/simulation/") {
				return nil
			}
			out = append(out, rel)
			return nil
		})
	}
	sort.Strings(out)
	return out
}

type fpUse struct{ file, fn, what string }

func genFootprint(out, repo string) {
	fset := token.NewFileSet()
	files := footprintFiles(repo)
	parsed := map[string]*ast.File{}
	mapFuncs := map[string]bool{}
	mapFields := map[string]bool{} // names of struct fields with a map type, anywhere in the scanned packages
	for _, rel := range files {
		f, err := parser.ParseFile(fset, filepath.Join(repo, rel), nil, 0)
		if err != nil {
			genFail("cannot parse %s: %v", rel, err)
		}
		parsed[rel] = f
		for _, d := range f.Decls { // functions returning a map
			if fd, ok := d.(*ast.FuncDecl); ok && fd.Type.Results != nil && len(fd.Type.Results.List) == 1 {
				if _, isMap := fd.Type.Results.List[0].Type.(*ast.MapType); isMap {
					mapFuncs[fd.Name.Name] = true
				}
			}
		}
		for _, d := range f.Decls { // package-level variables of map type
			if gd, ok := d.(*ast.GenDecl); ok && gd.Tok == token.VAR {
				for _, sp := range gd.Specs {
					vs := sp.(*ast.ValueSpec)
					_, typed := vs.Type.(*ast.MapType)
					for i, nm := range vs.Names {
						if typed || (i < len(vs.Values) && isMapExpr(vs.Values[i])) {
							mapFields[nm.Name] = true
						}
					}
				}
			}
		}
		ast.Inspect(f, func(n ast.Node) bool {
			if st, ok := n.(*ast.StructType); ok {
				for _, fl := range st.Fields.List {
					if _, isMap := fl.Type.(*ast.MapType); isMap {
						for _, nm := range fl.Names {
							mapFields[nm.Name] = true
						}
					}
				}
			}
			return true
		})
	}
	var forbidden, ranges []fpUse
	for _, rel := range files {
		if strings.HasSuffix(rel, ".pb.go") {
			continue // generated marshalling code: maps are written in sorted key order by gogoproto (stable marshalling is the codec's job)
		}
		f := parsed[rel]
		imports := map[string]string{} // local name -> path
		for _, im := range f.Imports {
			path := strings.Trim(im.Path.Value, `"`)
			name := path[strings.LastIndex(path, "/")+1:]
			if im.Name != nil {
				name = im.Name.Name
			}
			imports[name] = path
			switch path {
			case "math/rand", "crypto/rand", "unsafe", "math/rand/v2":
				forbidden = append(forbidden, fpUse{rel, "(import)", "import " + path})
			}
		}
		for _, d := range f.Decls {
			fd, ok := d.(*ast.FuncDecl)
			fn := "(package level)"
			var body ast.Node = d
			if ok {
				fn = fd.Name.Name
				if fd.Recv != nil && len(fd.Recv.List) > 0 {
					fn = exprString(fd.Recv.List[0].Type) + "." + fn
				}
				if fd.Body == nil {
					continue
				}
			}
			localMaps := map[string]bool{}
			ast.Inspect(body, func(n ast.Node) bool {
				switch v := n.(type) {
				case *ast.GoStmt:
					forbidden = append(forbidden, fpUse{rel, fn, "go statement"})
				case *ast.SelectStmt:
					forbidden = append(forbidden, fpUse{rel, fn, "select statement"})
				case *ast.Ident:
					if v.Name == "float64" || v.Name == "float32" {
						forbidden = append(forbidden, fpUse{rel, fn, v.Name})
					}
				case *ast.SelectorExpr:
					if id, ok := v.X.(*ast.Ident); ok {
						switch imports[id.Name] {
						case "time":
							switch v.Sel.Name {
							case "Now", "Since", "Until", "After", "Tick", "Sleep", "NewTimer", "NewTicker", "AfterFunc":
								forbidden = append(forbidden, fpUse{rel, fn, "time." + v.Sel.Name})
							}
						case "os":
							switch v.Sel.Name {
							case "Getenv", "Environ", "LookupEnv", "Hostname", "Getpid", "Getwd":
								forbidden = append(forbidden, fpUse{rel, fn, "os." + v.Sel.Name})
							}
						case "runtime":
							forbidden = append(forbidden, fpUse{rel, fn, "runtime." + v.Sel.Name})
						}
					}
				case *ast.AssignStmt:
					for i, rhs := range v.Rhs {
						if i < len(v.Lhs) && isMapExpr(rhs) {
							if id, ok := v.Lhs[i].(*ast.Ident); ok {
								localMaps[id.Name] = true
							}
						}
					}
				case *ast.ValueSpec:
					if _, isMap := v.Type.(*ast.MapType); isMap {
						for _, nm := range v.Names {
							localMaps[nm.Name] = true
						}
					}
				case *ast.RangeStmt:
					isMap := false
					switch x := v.X.(type) {
					case *ast.Ident:
						isMap = localMaps[x.Name] || mapFields[x.Name]
					case *ast.SelectorExpr:
						isMap = mapFields[x.Sel.Name]
					case *ast.CallExpr:
						switch fn := x.Fun.(type) {
						case *ast.Ident:
							isMap = mapFuncs[fn.Name]
						case *ast.SelectorExpr:
							isMap = mapFuncs[fn.Sel.Name]
						}
					}
					if isMapExpr(v.X) {
						isMap = true
					}
					if isMap {
						ranges = append(ranges, fpUse{rel, fn, exprString(v.X)})
					}
				}
				return true
			})
		}
	}
	c := newCoqFile("Nondeterminism footprint of the state-machine code (keeper, types, module, genesis, app; client and simulation code excluded): uses of wall-clock time, randomness, goroutines, select, process environment, floating point, unsafe; and every range over a map.")
	emit := func(name string, l []fpUse) {
		c.raw(fmt.Sprintf("Definition %s : list (bytes * bytes * bytes) :=\n  [", name))
		for i, u := range l {
			if i > 0 {
				c.raw(";\n   ")
			}
			c.raw(fmt.Sprintf("(%s, %s, %s) (* %s %s: %s *)", coqBytes([]byte(u.file)), coqBytes([]byte(u.fn)), coqBytes([]byte(u.what)), u.file, u.fn, u.what))
		}
		c.raw("].\n\n")
	}
	c.defNat("scanned_files", len(files), "number of Go files scanned")
	emit("forbidden_uses", forbidden)
	emit("map_ranges", ranges)
	must(os.WriteFile(filepath.Join(out, "GenFootprint.v"), []byte(c.sb.String()), 0o644))
}

func isMapExpr(e ast.Expr) bool {
	switch x := e.(type) {
	case *ast.CompositeLit:
		_, ok := x.Type.(*ast.MapType)
		return ok
	case *ast.CallExpr:
		if id, ok := x.Fun.(*ast.Ident); ok && id.Name == "make" && len(x.Args) > 0 {
			_, ok := x.Args[0].(*ast.MapType)
			return ok
		}
	}
	return false
}

func exprString(e ast.Expr) string {
	switch x := e.(type) {
	case *ast.Ident:
		return x.Name
	case *ast.SelectorExpr:
		return exprString(x.X) + "." + x.Sel.Name
	case *ast.StarExpr:
		return "*" + exprString(x.X)
	case *ast.CallExpr:
		return exprString(x.Fun) + "(...)"
	case *ast.IndexExpr:
		return exprString(x.X) + "[...]"
	}
	return fmt.Sprintf("%T", e)
}
