// hx: the correspondence harness. It generates inputs/histories from one PRNG seed, runs them on the real
// panacea-core code (compiled from /repo's working tree), writes the history file (read by the extracted
// Coq model) and the implementation's observables, and runs property monitors on the implementation alone.
package main

import (
	"flag"
	"fmt"
	"os"
	"strings"

	"github.com/medibloc/panacea-core/v2/app"
)

var genK3 bool

func main() {
	if len(os.Args) < 2 {
		fmt.Fprintln(os.Stderr, "usage: hx <profile> [-seed N] [-n N] [-out DIR]")
		os.Exit(2)
	}
	profile := os.Args[1]
	// every temporary directory of this run (application homes, key directories, probe homes of child processes) lives under
	// one directory that is removed when the run ends
	if !strings.Contains(os.Getenv("TMPDIR"), "hx-run-") {
		if base, err := os.MkdirTemp("", "hx-run-"); err == nil {
			os.Setenv("TMPDIR", base)
			defer os.RemoveAll(base)
		}
	}
	fs := flag.NewFlagSet(profile, flag.ExitOnError)
	seed := fs.Uint64("seed", 1, "PRNG seed")
	n := fs.Int("n", 1000, "number of cases / histories")
	out := fs.String("out", "", "output directory")
	replay := fs.String("replay", "", "replay a history file instead of generating")
	blocks := fs.Int("blocks", 12, "blocks per history")
	repo := fs.String("repo", "/repo", "path of the repository (translator)")
	k3 := fs.Bool("k3", false, "generators also use text that is not valid UTF-8 (known finding K3)")
	conc := fs.Int("conc", 0, "node profile: number of background query goroutines")
	kind := fs.String("kind", "", "node profile: fix the inner generator (aol, pnft, burn, did)")
	twin := fs.Bool("twin", false, "aollist profile: run a twin replica beside the chain and compare application hashes")
	must(fs.Parse(os.Args[2:]))
	if *out == "" {
		fmt.Fprintln(os.Stderr, "-out required")
		os.Exit(2)
	}
	genK3 = *k3
	nodeKind = *kind
	app.SetConfig()
	switch profile {
	case "gen":
		runGen(*out, *repo)
	case "aol":
		runChainProfile(profileSpec{name: "aol", gen: genAolHistory, monitors: func() []Monitor {
			return []Monitor{&aolRecordMonitor{}, &aolAuthMonitor{}, &aolCounterMonitor{}, &feeMonitor{}, &burnMonitor{}}
		}}, *seed, *n, *out, *replay, *blocks)
	case "aollist":
		runChainProfile(profileSpec{name: "aollist", gen: genAolListHistory, monitors: func() []Monitor { return []Monitor{&aolCounterMonitor{}} }, node: *twin}, *seed, *n, *out, *replay, *blocks)
	case "burn":
		runChainProfile(profileSpec{name: "burn", gen: genBurnHistory, monitors: func() []Monitor { return []Monitor{&burnMonitor{}, &feeMonitor{}} }}, *seed, *n, *out, *replay, *blocks)
	case "pnft":
		runChainProfile(profileSpec{name: "pnft", gen: genPnftHistory, monitors: func() []Monitor { return []Monitor{newPnftMonitor(), &feeMonitor{}} }}, *seed, *n, *out, *replay, *blocks)
	case "upgradeprobe":
		runUpgradeProbeChild(*n)
	case "upgrade":
		runChainProfile(profileSpec{name: "upgrade", gen: genUpgradeHistory, monitors: func() []Monitor { return nil }, node: true}, *seed, *n, *out, *replay, *blocks)
	case "sign":
		nn := *n
		runChainProfile(profileSpec{name: "sign", gen: func(r *RNG, _ int) []string { return genSignCases(r, nn > 1) }, monitors: func() []Monitor { return nil }}, *seed, 1, *out, *replay, 0)
	case "conc":
		runConc(*seed, *n, *out)
	case "node":
		runChainProfile(profileSpec{name: "node", gen: genNodeHistory, monitors: func() []Monitor { return nil }, node: true, conc: *conc}, *seed, *n, *out, *replay, *blocks)
	case "total":
		runChainProfile(profileSpec{name: "total", gen: genTotalHistory, monitors: func() []Monitor { return []Monitor{&feeMonitor{}} }}, *seed, *n, *out, *replay, *blocks)
	case "keystore":
		runKeystore(*seed, *n, *out)
	case "valid":
		runValid(*seed, *n, *out, *replay)
	case "did":
		runChainProfile(profileSpec{name: "did", gen: genDidHistory, monitors: func() []Monitor { return []Monitor{newDidMonitor(), &feeMonitor{}} }}, *seed, *n, *out, *replay, *blocks)
	case "compkey":
		runCompkey(*seed, *n, *out, *replay)
	default:
		fmt.Fprintln(os.Stderr, "unknown profile", profile)
		os.Exit(2)
	}
}
