package main

// Profile "valid" (C16, C17): boundary-exhaustive stateless validation. Every field of every custom message
// is driven through values at, just inside, just outside and far from each documented boundary, alone and in
// pairs, while the other fields hold valid values.  Each case is one "VB ..." line answered by the real
// ValidateBasic (and GetSigners when accepted) and by the model.

import (
	"fmt"
	"strings"

	sdk "github.com/cosmos/cosmos-sdk/types"
	didtypes "github.com/medibloc/panacea-core/v2/x/did/types"
)

var classBoundaryChars = []string{"-", ".", "/", "0", "9", ":", "@", "A", "Z", "[", "_", "`", "a", "z", "{", ",", "+", " ", "\t", "\n", "\v", "\f", "\r", "\x00", "\x7f", "\x80", "\xc3\xa9", "\xff", "\xe2\x80\xa8", "\xc2\x85", "\xc2\xa0"}

func nameValues(max int) []string {
	vals := []string{"", "a", "Z9._-", strings.Repeat("a", max-1), strings.Repeat("a", max), strings.Repeat("a", max+1), strings.Repeat("a", 255), strings.Repeat("a", 256), strings.Repeat("\xc3\xa9", max/2), strings.Repeat("\xc3\xa9", max/2+1)}
	for _, c := range classBoundaryChars {
		vals = append(vals, c, "a"+c, c+"a", "a"+c+"b")
	}
	return vals
}

func lenValues(max int) []string {
	return []string{"", "x", strings.Repeat("x", max-1), strings.Repeat("x", max), strings.Repeat("x", max+1), strings.Repeat("\xff", max), strings.Repeat("\xff", max+1), "\x00", strings.Repeat("\xc3\xa9", max/2), strings.Repeat("\xc3\xa9", max/2+1)}
}

func addrValues(valid string) []string {
	a := mkAcct(1).Addr
	return []string{valid, "", " ", strings.ToUpper(valid), valid + " ", " " + valid, valid[:len(valid)-1], valid + "q",
		sdk.MustBech32ifyAddressBytes("cosmos", a), "panacea1", "panacea1qqqq", "notanaddress",
		sdk.AccAddress(make([]byte, 32)).String(), sdk.AccAddress([]byte{1}).String(), sdk.AccAddress(make([]byte, 255)).String(),
		sdk.MustBech32ifyAddressBytes("panacea", make([]byte, 256)), "\x00", valid[:8] + strings.ToUpper(valid[8:])}
}

func genValidCases(r *RNG, thorough bool) []string {
	var lines []string
	add := func(format string, a ...any) { lines = append(lines, fmt.Sprintf(format, a...)) }
	A := mkAcct(0).Addr.String()
	B := mkAcct(1).Addr.String()
	// ---------------- AOL ----------------
	for _, t := range nameValues(70) {
		add("VB aol.CreateTopic %s %s %s", toks(t), toks("d"), toks(A))
		add("VB aol.DeleteWriter %s %s %s", toks(t), toks(B), toks(A))
		add("VB aol.AddRecord %s %s %s %s %s %s", toks(t), toks("k"), toks("v"), toks(B), toks(A), toks(""))
	}
	for _, m := range nameValues(70) {
		add("VB aol.AddWriter %s %s %s %s %s", toks("t"), toks(m), toks("d"), toks(B), toks(A))
	}
	for _, d := range lenValues(5000) {
		add("VB aol.CreateTopic %s %s %s", toks("t"), toks(d), toks(A))
		add("VB aol.AddWriter %s %s %s %s %s", toks("t"), toks("m"), toks(d), toks(B), toks(A))
		add("VB aol.AddRecord %s %s %s %s %s %s", toks("t"), toks("k"), toks(d), toks(B), toks(A), toks(""))
	}
	for _, k := range lenValues(70) {
		add("VB aol.AddRecord %s %s %s %s %s %s", toks("t"), toks(k), toks("v"), toks(B), toks(A), toks(""))
	}
	for _, a := range addrValues(A) {
		add("VB aol.CreateTopic %s %s %s", toks("t"), toks("d"), toks(a))
		add("VB aol.AddWriter %s %s %s %s %s", toks("t"), toks("m"), toks("d"), toks(a), toks(A))
		add("VB aol.AddWriter %s %s %s %s %s", toks("t"), toks("m"), toks("d"), toks(B), toks(a))
		add("VB aol.DeleteWriter %s %s %s", toks("t"), toks(a), toks(A))
		add("VB aol.DeleteWriter %s %s %s", toks("t"), toks(B), toks(a))
		add("VB aol.AddRecord %s %s %s %s %s %s", toks("t"), toks("k"), toks("v"), toks(a), toks(A), toks(""))
		add("VB aol.AddRecord %s %s %s %s %s %s", toks("t"), toks("k"), toks("v"), toks(B), toks(a), toks(""))
		add("VB aol.AddRecord %s %s %s %s %s %s", toks("t"), toks("k"), toks("v"), toks(B), toks(A), toks(a))
	}
	// pairs: two fields off at once (which error wins)
	for i := 0; i < 60; i++ {
		add("VB aol.AddWriter %s %s %s %s %s", toks(pick(r, nameValues(70))), toks(pick(r, nameValues(70))), toks(pick(r, lenValues(5000))), toks(pick(r, addrValues(B))), toks(pick(r, addrValues(A))))
		add("VB aol.AddRecord %s %s %s %s %s %s", toks(pick(r, nameValues(70))), toks(pick(r, lenValues(70))), toks(pick(r, lenValues(5000))), toks(pick(r, addrValues(B))), toks(pick(r, addrValues(A))), toks(pick(r, addrValues(A))))
	}
	// ---------------- PNFT ----------------
	ne := []string{"", "x", "\x00", "a\x00b", " ", "a/b", strings.Repeat("i", 300)}
	for _, v := range ne {
		add("VB pnft.CreateDenom %s %s %s %s %s %s %s %s", toks(v), toks("N"), toks("S"), toks(""), toks(""), toks(""), toks(A), toks(""))
		add("VB pnft.CreateDenom %s %s %s %s %s %s %s %s", toks("id"), toks(v), toks("S"), toks(""), toks(""), toks(""), toks(A), toks(""))
		add("VB pnft.CreateDenom %s %s %s %s %s %s %s %s", toks("id"), toks("N"), toks(v), toks(""), toks(""), toks(""), toks(A), toks(""))
		add("VB pnft.CreateDenom %s %s %s %s %s %s %s %s", toks("id"), toks("N"), toks("S"), toks(v), toks(v), toks(v), toks(A), toks(v))
		add("VB pnft.UpdateDenom %s %s %s %s %s %s %s %s", toks(v), toks(""), toks(""), toks(""), toks(""), toks(""), toks(A), toks(""))
		add("VB pnft.DeleteDenom %s %s", toks(v), toks(A))
		add("VB pnft.TransferDenom %s %s %s", toks(v), toks(A), toks(B))
		add("VB pnft.Mint %s %s %s %s %s %s %s %s", toks(v), toks("t"), toks("n"), toks(""), toks(""), toks(""), toks(""), toks(A))
		add("VB pnft.Mint %s %s %s %s %s %s %s %s", toks("d"), toks(v), toks("n"), toks(""), toks(""), toks(""), toks(""), toks(A))
		add("VB pnft.Mint %s %s %s %s %s %s %s %s", toks("d"), toks("t"), toks(v), toks(""), toks(""), toks(""), toks(""), toks(A))
		add("VB pnft.Transfer %s %s %s %s", toks(v), toks("t"), toks(A), toks(B))
		add("VB pnft.Transfer %s %s %s %s", toks("d"), toks(v), toks(A), toks(B))
		add("VB pnft.Burn %s %s %s", toks(v), toks("t"), toks(A))
		add("VB pnft.Burn %s %s %s", toks("d"), toks(v), toks(A))
	}
	for _, a := range addrValues(A) {
		add("VB pnft.CreateDenom %s %s %s %s %s %s %s %s", toks("id"), toks("N"), toks("S"), toks(""), toks(""), toks(""), toks(a), toks(""))
		add("VB pnft.UpdateDenom %s %s %s %s %s %s %s %s", toks("id"), toks(""), toks(""), toks(""), toks(""), toks(""), toks(a), toks(""))
		add("VB pnft.DeleteDenom %s %s", toks("id"), toks(a))
		add("VB pnft.TransferDenom %s %s %s", toks("id"), toks(a), toks(B))
		add("VB pnft.TransferDenom %s %s %s", toks("id"), toks(A), toks(a))
		add("VB pnft.Mint %s %s %s %s %s %s %s %s", toks("d"), toks("t"), toks("n"), toks(""), toks(""), toks(""), toks(""), toks(a))
		add("VB pnft.Transfer %s %s %s %s", toks("d"), toks("t"), toks(a), toks(B))
		add("VB pnft.Transfer %s %s %s %s", toks("d"), toks("t"), toks(A), toks(a))
		add("VB pnft.Burn %s %s %s", toks("d"), toks("t"), toks(a))
	}
	// ---------------- DID ----------------
	key := mkDidKey(0)
	did := didtypes.NewDID(key.pub)
	nDoc := 0
	type docOpt struct {
		id      string
		ctx     []string // nil = absent
		ctrl    []string
		vmID    string
		vmType  string
		vmKey   string
		authRef string // "" = dedicated with (vmID, vmType, vmKey)
		noVM    bool
		noAuth  bool
		svc     []string // id,type,endpoint
		extraRel string
	}
	std := func() docOpt {
		return docOpt{id: did, ctx: []string{didtypes.ContextDIDV1}, vmID: did + "#k1", vmType: didtypes.ES256K_2019, vmKey: key.b58, authRef: did + "#k1"}
	}
	mk := func(o docOpt) string {
		nDoc++
		ref := fmt.Sprintf("v%d", nDoc)
		add("DOC %s %s", ref, toks(o.id))
		if o.ctx != nil {
			l := "DCTX " + ref
			for _, c := range o.ctx {
				l += " " + toks(c)
			}
			add("%s", l)
		}
		if o.ctrl != nil {
			l := "DCTRL " + ref
			for _, c := range o.ctrl {
				l += " " + toks(c)
			}
			add("%s", l)
		}
		if !o.noVM {
			add("DVM %s %s %s %s %s", ref, toks(o.vmID), toks(o.vmType), toks(o.id), toks(o.vmKey))
		}
		if !o.noAuth {
			if o.authRef != "" {
				add("DREL %s auth ref %s", ref, toks(o.authRef))
			} else {
				add("DREL %s auth ded %s %s %s %s", ref, toks(o.vmID), toks(o.vmType), toks(o.id), toks(o.vmKey))
			}
		}
		if o.extraRel != "" {
			add("DREL %s %s ref %s", ref, o.extraRel, toks(o.vmID+"x"))
		}
		if o.svc != nil {
			add("DSVC %s %s %s %s", ref, toks(o.svc[0]), toks(o.svc[1]), toks(o.svc[2]))
		}
		return ref
	}
	vb := func(didField, ref, vmid, sig, from string) {
		add("VB did.Create %s %s %s %s %s", toks(didField), ref, toks(vmid), tok([]byte(sig)), toks(from))
		add("VB did.Update %s %s %s %s %s", toks(didField), ref, toks(vmid), tok([]byte(sig)), toks(from))
	}
	good := mk(std())
	b58 := didtypes.Base58Charset
	idBody := func(n int) string { return strings.Repeat("1", n) }
	dids := []string{did, "did:panacea:" + idBody(31), "did:panacea:" + idBody(32), "did:panacea:" + idBody(44), "did:panacea:" + idBody(45),
		"did:panacea:" + idBody(31) + "0", "did:panacea:" + idBody(31) + "O", "did:panacea:" + idBody(31) + "I", "did:panacea:" + idBody(31) + "l",
		"did:panacea:" + idBody(31) + "z", "did:Panacea:" + idBody(32), "DID:panacea:" + idBody(32), "did:panacea" + idBody(32), "did:panacea:" + idBody(32) + "\n",
		" did:panacea:" + idBody(32), "did:panacea:" + idBody(31) + "\xc3\xa9", "", "did:panacea:", "did:panacea:" + b58[:44], "did:other:" + idBody(32)}
	for _, d := range dids {
		o := std()
		o.id, o.vmID, o.authRef = d, d+"#k1", d+"#k1"
		vb(d, mk(o), d+"#k1", "s", A)
		vb(d, good, did+"#k1", "s", A) // did field != document id
		add("VB did.Deactivate %s %s %s %s", toks(d), toks(d+"#k1"), tok([]byte("s")), toks(A))
	}
	vb(did, "-", did+"#k1", "s", A) // no document
	vb(did, good, did+"#k1", "", A) // no proof
	add("VB did.Deactivate %s %s %s %s", toks(did), toks(did+"#k1"), tok(nil), toks(A))
	for _, a := range addrValues(A) {
		vb(did, good, did+"#k1", "s", a)
		add("VB did.Deactivate %s %s %s %s", toks(did), toks(did+"#k1"), tok([]byte("s")), toks(a))
	}
	// verification method ids
	sfx := []string{"", "k", strings.Repeat("k", 128), strings.Repeat("k", 129), "a b", "a\tb", "a\nb", "a\vb", "a\fb", "a\rb", "a\x00b", "a\xc2\x85b", "a\xc2\xa0b", "a\xe2\x80\xa8b", " ", "\xff", strings.Repeat("\xc3\xa9", 64), strings.Repeat("\xc3\xa9", 65), "#", "k#k"}
	for _, s := range sfx {
		o := std()
		o.vmID, o.authRef = did+"#"+s, did+"#"+s
		vb(did, mk(o), o.vmID, "s", A)
		o2 := std()
		o2.vmID, o2.authRef = did+"#"+s, ""
		vb(did, mk(o2), o2.vmID, "s", A)
	}
	for _, idv := range []string{"k1", "#k1", did, did + "k1", "did:panacea:" + idBody(32) + "#k1", did + "#k1#", strings.ToUpper(did) + "#k1"} {
		o := std()
		o.vmID, o.authRef = idv, idv
		vb(did, mk(o), idv, "s", A)
	}
	for _, ty := range []string{"", "X", didtypes.ED25519_2018, didtypes.ES256K_2018, " ", "\x00"} {
		o := std()
		o.vmType = ty
		vb(did, mk(o), o.vmID, "s", A)
	}
	for _, k := range []string{"", "0", "O", "I", "l", "1", b58, b58 + "0", "abc def", "abc\n", key.b58 + " ", "\xc3\xa9"} {
		o := std()
		o.vmKey = k
		vb(did, mk(o), o.vmID, "s", A)
		o.authRef = ""
		vb(did, mk(o), o.vmID, "s", A)
	}
	// relationships
	for _, rel := range []string{"assert", "keyagree", "capinv", "capdel"} {
		o := std()
		o.extraRel = rel // refers to a missing method
		vb(did, mk(o), o.vmID, "s", A)
	}
	o := std()
	o.authRef = did + "#missing"
	vb(did, mk(o), o.vmID, "s", A)
	o = std()
	o.noVM = true
	vb(did, mk(o), o.vmID, "s", A)
	o = std()
	o.noVM, o.authRef = true, ""
	vb(did, mk(o), o.vmID, "s", A)
	o = std()
	o.noAuth = true
	vb(did, mk(o), o.vmID, "s", A)
	// relationships that must RESOLVE: a bare reference counts only if verificationMethod lists that id; a method
	// embedded in some relationship does not make its id referable — before, after, in the same or in another list
	rels := []string{"auth", "assert", "keyagree", "capinv", "capdel"}
	emb := did + "#e1"
	raw := func(lines ...string) string {
		nDoc++
		ref := fmt.Sprintf("v%d", nDoc)
		add("DOC %s %s", ref, toks(did))
		add("DCTX %s %s", ref, toks(didtypes.ContextDIDV1))
		add("DVM %s %s %s %s %s", ref, toks(did+"#k1"), toks(didtypes.ES256K_2019), toks(did), toks(key.b58))
		add("DREL %s auth ref %s", ref, toks(did+"#k1"))
		for _, l := range lines {
			add("DREL %s %s", ref, l)
		}
		return ref
	}
	ded := func(which, id string) string { return fmt.Sprintf("%s ded %s %s %s %s", which, toks(id), toks(didtypes.ES256K_2019), toks(did), toks(key.b58)) }
	refTo := func(which, id string) string { return fmt.Sprintf("%s ref %s", which, toks(id)) }
	for i, w1 := range rels {
		for j, w2 := range rels {
			if j >= i {
				vb(did, raw(ded(w1, emb), refTo(w2, emb)), did+"#k1", "s", A) // embedded, then referenced (same or later list)
			}
			if j <= i {
				vb(did, raw(refTo(w2, emb), ded(w1, emb)), did+"#k1", "s", A) // referenced before the embedding
			}
		}
		vb(did, raw(refTo(w1, did+"#k1")), did+"#k1", "s", A)                    // control: a listed method referenced from every list
		vb(did, raw(ded(w1, did+"#k1"), refTo(w1, did+"#k1")), did+"#k1", "s", A) // embedded copy of a listed method + reference
		vb(did, raw(ded(w1, emb), ded(w1, emb)), did+"#k1", "s", A)               // the same method embedded twice
		vb(did, raw(refTo(w1, emb)), did+"#k1", "s", A)                           // dangling reference
		vb(did, raw(refTo(w1, "")), did+"#k1", "s", A)                            // an entry that carries neither an id nor a method
	}
	// contexts
	for _, c := range [][]string{nil, {}, {didtypes.ContextDIDV1}, {"x"}, {"x", didtypes.ContextDIDV1}, {didtypes.ContextDIDV1, "x"}, {didtypes.ContextDIDV1, didtypes.ContextDIDV1}, {didtypes.ContextDIDV1, "x", "x"}, {didtypes.ContextDIDV1, ""}, {""}} {
		o := std()
		o.ctx = c
		vb(did, mk(o), o.vmID, "s", A)
	}
	// controller
	other := "did:panacea:" + idBody(32)
	for _, c := range [][]string{nil, {}, {""}, {"", ""}, {did}, {other, did}, {"x"}, {did, ""}, {"", did}, {did, "x"}} {
		o := std()
		o.ctrl = c
		vb(did, mk(o), o.vmID, "s", A)
	}
	// services
	for _, sv := range [][]string{{"s", "t", "e"}, {"", "t", "e"}, {"s", "", "e"}, {"s", "t", ""}, {" ", "\x00", "\xff"},
		// whitespace-only, one-character and odd endpoints / ids / types (anything non-empty is admissible)
		{"s", "t", " "}, {"s", "t", "\t"}, {"s", "t", "\n"}, {"s", "t", "  \r\n"}, {"s", "t", ":"}, {"s", "t", "x"}, {"s", "t", "https://example.org/a b"},
		{"s", "t", strings.Repeat("e", 5000)}, {"\t", "t", "e"}, {"s", " ", "e"}, {"#", "t", "e"}, {"s", "t", "\u00a0"}} {
		o := std()
		o.svc = sv
		vb(did, mk(o), o.vmID, "s", A)
	}
	if thorough {
		// random combinations of the per-field values
		for i := 0; i < 4000; i++ {
			o := std()
			d := pick(r, dids)
			if r.Chance(60) {
				d = did
			}
			o.id = d
			if r.Chance(20) {
				o.id = pick(r, dids)
			}
			o.vmID = o.id + "#" + pick(r, sfx)
			o.authRef = pick(r, []string{o.vmID, "", o.id + "#missing"})
			o.vmType = pick(r, []string{didtypes.ES256K_2019, "", "X"})
			o.vmKey = pick(r, []string{key.b58, "", "0", b58})
			if r.Chance(30) {
				o.ctx = pick(r, [][]string{nil, {}, {"x"}, {didtypes.ContextDIDV1, "x"}, {didtypes.ContextDIDV1, didtypes.ContextDIDV1}})
			}
			if r.Chance(30) {
				o.ctrl = pick(r, [][]string{{}, {""}, {did}, {"x"}, {did, ""}})
			}
			vb(d, mk(o), o.vmID, pick(r, []string{"s", ""}), pick(r, addrValues(A)))
		}
	}
	return lines
}

func runValid(seed uint64, n int, out string, replay string) {
	p := profileSpec{name: "valid", gen: func(r *RNG, _ int) []string { return genValidCases(r, n > 1) }, monitors: func() []Monitor { return nil }}
	runChainProfile(p, seed, 1, out, replay, 0)
}
