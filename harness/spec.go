package main

// An independent statement of the published limits (written from .gitbook/specifications/aol.md, docs/did.md
// and the property text, not from the validators), used as an implementation-only oracle for C16.

import (
	"regexp"
	"strings"

	sdk "github.com/cosmos/cosmos-sdk/types"
)

var (
	specTopic   = regexp.MustCompile(`^[a-zA-Z0-9._\-]{1,70}$`)
	specMoniker = regexp.MustCompile(`^[a-zA-Z0-9._\-]{0,70}$`)
	specDID     = regexp.MustCompile(`^did:panacea:[1-9A-HJ-NP-Za-km-z]{32,44}$`)
)

func specAddr(s string) bool { _, err := sdk.AccAddressFromBech32(s); return err == nil }

// specAccepts returns (verdict, known): known=false when this oracle does not cover the message kind.
func specAccepts(kind string, a []string) (bool, bool) {
	ascii := func(s string) bool { // regexp works on runes; the limits are in bytes and the classes ASCII
		for i := 0; i < len(s); i++ {
			if s[i] >= 0x80 {
				return false
			}
		}
		return true
	}
	topic := func(s string) bool { return ascii(s) && specTopic.MatchString(s) }
	moniker := func(s string) bool { return ascii(s) && specMoniker.MatchString(s) }
	switch kind {
	case "aol.CreateTopic":
		return topic(a[0]) && len(a[1]) <= 5000 && specAddr(a[2]), true
	case "aol.AddWriter":
		return topic(a[0]) && moniker(a[1]) && len(a[2]) <= 5000 && specAddr(a[3]) && specAddr(a[4]), true
	case "aol.DeleteWriter":
		return topic(a[0]) && specAddr(a[1]) && specAddr(a[2]), true
	case "aol.AddRecord":
		return topic(a[0]) && len(a[1]) <= 70 && len(a[2]) <= 5000 && specAddr(a[3]) && specAddr(a[4]) && (a[5] == "" || specAddr(a[5])), true
	case "pnft.CreateDenom":
		return a[0] != "" && !strings.Contains(a[0], "\x00") && a[1] != "" && a[2] != "" && a[6] != "" && specAddr(a[6]), true
	case "pnft.UpdateDenom":
		return a[0] != "" && a[6] != "" && specAddr(a[6]), true
	case "pnft.DeleteDenom":
		return a[0] != "" && a[1] != "" && specAddr(a[1]), true
	case "pnft.TransferDenom":
		return a[0] != "" && a[1] != "" && specAddr(a[1]) && a[2] != "" && specAddr(a[2]), true
	case "pnft.Mint":
		return a[0] != "" && a[1] != "" && !strings.Contains(a[1], "\x00") && a[2] != "" && a[7] != "" && specAddr(a[7]), true
	case "pnft.Transfer":
		return a[0] != "" && a[1] != "" && a[2] != "" && specAddr(a[2]) && a[3] != "" && specAddr(a[3]), true
	case "pnft.Burn":
		return a[0] != "" && a[1] != "" && a[2] != "" && specAddr(a[2]), true
	case "did.Deactivate":
		return ascii(a[0]) && specDID.MatchString(a[0]) && a[2] != "" && specAddr(a[3]), true
	}
	return false, false
}
