package main

// An independent statement of the published limits (written from .gitbook/specifications/aol.md, docs/did.md
// and the property text, not from the validators), used as an implementation-only oracle for C16.

import (
	didtypes "github.com/medibloc/panacea-core/v2/x/did/types"
	"regexp"
	"strings"

	sdk "github.com/cosmos/cosmos-sdk/types"
)

var (
	specTopic   = regexp.MustCompile(`^[a-zA-Z0-9._\-]{1,70}$`)
	specMoniker = regexp.MustCompile(`^[a-zA-Z0-9._\-]{0,70}$`)
	specDID     = regexp.MustCompile(`^did:panacea:[1-9A-HJ-NP-Za-km-z]{32,44}$`)
)

func specAddr(s string) bool { _, err := sdk.AccAddressFromBech32(s); return err == nil }

// specAccepts returns (verdict, known): known=false when this oracle does not cover the message kind.
func specAccepts(kind string, a []string) (bool, bool) {
	ascii := func(s string) bool { // regexp works on runes; the limits are in bytes and the classes ASCII
		for i := 0; i < len(s); i++ {
			if s[i] >= 0x80 {
				return false
			}
		}
		return true
	}
	topic := func(s string) bool { return ascii(s) && specTopic.MatchString(s) }
	moniker := func(s string) bool { return ascii(s) && specMoniker.MatchString(s) }
	switch kind {
	case "aol.CreateTopic":
		return topic(a[0]) && len(a[1]) <= 5000 && specAddr(a[2]), true
	case "aol.AddWriter":
		return topic(a[0]) && moniker(a[1]) && len(a[2]) <= 5000 && specAddr(a[3]) && specAddr(a[4]), true
	case "aol.DeleteWriter":
		return topic(a[0]) && specAddr(a[1]) && specAddr(a[2]), true
	case "aol.AddRecord":
		return topic(a[0]) && len(a[1]) <= 70 && len(a[2]) <= 5000 && specAddr(a[3]) && specAddr(a[4]) && (a[5] == "" || specAddr(a[5])), true
	case "pnft.CreateDenom":
		return a[0] != "" && !strings.Contains(a[0], "\x00") && a[1] != "" && a[2] != "" && a[6] != "" && specAddr(a[6]), true
	case "pnft.UpdateDenom":
		return a[0] != "" && a[6] != "" && specAddr(a[6]), true
	case "pnft.DeleteDenom":
		return a[0] != "" && a[1] != "" && specAddr(a[1]), true
	case "pnft.TransferDenom":
		return a[0] != "" && a[1] != "" && specAddr(a[1]) && a[2] != "" && specAddr(a[2]), true
	case "pnft.Mint":
		return a[0] != "" && a[1] != "" && !strings.Contains(a[1], "\x00") && a[2] != "" && a[7] != "" && specAddr(a[7]), true
	case "pnft.Transfer":
		return a[0] != "" && a[1] != "" && a[2] != "" && specAddr(a[2]) && a[3] != "" && specAddr(a[3]), true
	case "pnft.Burn":
		return a[0] != "" && a[1] != "" && a[2] != "" && specAddr(a[2]), true
	case "did.Deactivate":
		return ascii(a[0]) && specDID.MatchString(a[0]) && a[2] != "" && specAddr(a[3]), true
	}
	return false, false
}

// specDocAccepts: the published rules for a DID document carried by MsgCreateDID / MsgUpdateDID (docs/did.md), written
// independently of x/did/types: the message is accepted iff the DID is well formed, a document is present with that id,
// at least one verification method and one authentication, every verification method id is "<did>#<1..128 non-space bytes>",
// has a type and a base58 key, every relationship is either such a method or a reference that RESOLVES to an entry of
// verificationMethod, contexts start with the W3C DID v1 context without duplicates or blanks, controllers are DIDs,
// services are complete, and a proof and a valid sender are given.
func specDocAccepts(didField string, doc *didtypes.DIDDocument, vmID string, sig []byte, from string) bool {
	isASCII := func(s string) bool {
		for i := 0; i < len(s); i++ {
			if s[i] >= 0x80 {
				return false
			}
		}
		return true
	}
	validDID := func(d string) bool { return isASCII(d) && specDID.MatchString(d) }
	if !validDID(didField) || doc == nil || doc.Id == "" || doc.Id != didField || len(sig) == 0 || !specAddr(from) {
		return false
	}
	vmIDok := func(id string) bool {
		if !strings.HasPrefix(id, doc.Id+"#") {
			return false
		}
		sfx := id[len(doc.Id)+1:]
		if len(sfx) < 1 || len(sfx) > 128 {
			return false
		}
		for i := 0; i < len(sfx); i++ {
			switch sfx[i] {
			case ' ', '\t', '\n', '\f', '\r':
				return false
			}
		}
		return true
	}
	b58 := func(k string) bool {
		if k == "" {
			return false
		}
		for i := 0; i < len(k); i++ {
			if !strings.ContainsRune("123456789ABCDEFGHJKLMNPQRSTUVWXYZabcdefghijkmnopqrstuvwxyz", rune(k[i])) || k[i] >= 0x80 {
				return false
			}
		}
		return true
	}
	vmOK := func(vm *didtypes.VerificationMethod) bool { return vm != nil && vmIDok(vm.Id) && vm.Type != "" && b58(vm.PublicKeyBase58) }
	if len(doc.VerificationMethods) == 0 || len(doc.Authentications) == 0 {
		return false
	}
	listed := map[string]bool{}
	for _, vm := range doc.VerificationMethods {
		if !vmOK(vm) {
			return false
		}
		listed[vm.Id] = true
	}
	for _, rels := range [][]didtypes.VerificationRelationship{doc.Authentications, doc.AssertionMethods, doc.KeyAgreements, doc.CapabilityInvocations, doc.CapabilityDelegations} {
		for _, r := range rels {
			if r.GetVerificationMethod() != nil {
				if !vmOK(r.GetVerificationMethod()) {
					return false
				}
			} else if id := r.GetVerificationMethodId(); !vmIDok(id) || !listed[id] {
				return false
			}
		}
	}
	if doc.Contexts != nil {
		cs := []string(*doc.Contexts)
		if len(cs) == 0 || cs[0] != "https://www.w3.org/ns/did/v1" {
			return false
		}
		seen := map[string]bool{}
		for _, c := range cs {
			if c == "" || seen[c] {
				return false
			}
			seen[c] = true
		}
	}
	if doc.Controller != nil {
		cs := []string(*doc.Controller)
		allEmpty := true
		for _, c := range cs {
			if c != "" {
				allEmpty = false
			}
		}
		if !allEmpty { // a controller list that is absent, empty or all blanks means "the subject itself"
			for _, c := range cs {
				if !validDID(c) {
					return false
				}
			}
		}
	}
	for _, sv := range doc.Services {
		if sv == nil || sv.Id == "" || sv.Type == "" || sv.ServiceEndpoint == "" {
			return false
		}
	}
	return true
}
