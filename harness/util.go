package main

import (
	"bufio"
	"encoding/hex"
	"fmt"
	"os"
	"sort"
	"strings"
)

// ---------- deterministic PRNG (splitmix64); every random choice derives from VERIF_SEED ----------
type RNG struct{ s uint64 }

func NewRNG(seed uint64) *RNG { return &RNG{s: seed*0x9E3779B97F4A7C15 + 0x1234567} }
func (r *RNG) U64() uint64 {
	r.s += 0x9E3779B97F4A7C15
	z := r.s
	z = (z ^ (z >> 30)) * 0xBF58476D1CE4E5B9
	z = (z ^ (z >> 27)) * 0x94D049BB133111EB
	return z ^ (z >> 31)
}
func (r *RNG) Intn(n int) int {
	if n <= 0 {
		return 0
	}
	return int(r.U64() % uint64(n))
}
func (r *RNG) Bool() bool        { return r.U64()&1 == 1 }
func (r *RNG) Chance(p int) bool { return r.Intn(100) < p } // p percent
func (r *RNG) Fork() *RNG        { return NewRNG(r.U64()) }

func pick[T any](r *RNG, xs []T) T { return xs[r.Intn(len(xs))] }

// ---------- token helpers (hex, "-" = empty) ----------
func tok(b []byte) string {
	if len(b) == 0 {
		return "-"
	}
	return hex.EncodeToString(b)
}
func toks(s string) string { return tok([]byte(s)) }
func untok(t string) []byte {
	if t == "-" {
		return []byte{}
	}
	b, err := hex.DecodeString(t)
	if err != nil {
		panic("bad token " + t)
	}
	return b
}

// ---------- output files ----------
type Out struct {
	hist *bufio.Writer
	impl *bufio.Writer
	fh   *os.File
	fi   *os.File
	nCmd int
}

func NewOut(dir string) *Out {
	must(os.MkdirAll(dir, 0o755))
	fh, err := os.Create(dir + "/history.txt")
	must(err)
	fi, err := os.Create(dir + "/impl.txt")
	must(err)
	return &Out{hist: bufio.NewWriterSize(fh, 1<<20), impl: bufio.NewWriterSize(fi, 1<<20), fh: fh, fi: fi}
}

// Cmd writes a history line that produces no output line
func (o *Out) Decl(format string, a ...any) { fmt.Fprintf(o.hist, format+"\n", a...) }

// Cmd writes a history line and the implementation's answer to it (exactly one line)
func (o *Out) Cmd(cmd string, answer string) {
	if cmd != "" { // an empty cmd: a second answer line of the previous command
		o.hist.WriteString(cmd)
		o.hist.WriteByte('\n')
	}
	o.impl.WriteString(answer)
	o.impl.WriteByte('\n')
	o.nCmd++
}
func (o *Out) Close() {
	o.hist.Flush()
	o.impl.Flush()
	o.fh.Close()
	o.fi.Close()
}

func must(err error) {
	if err != nil {
		panic(err)
	}
}

func sortedKeys[V any](m map[string]V) []string {
	ks := make([]string, 0, len(m))
	for k := range m {
		ks = append(ks, k)
	}
	sort.Strings(ks)
	return ks
}

func joinSp(xs ...string) string { return strings.Join(xs, " ") }

// Perm returns a pseudo-random permutation of 0..n-1
func (r *RNG) Perm(n int) []int {
	p := make([]int, n)
	for i := range p {
		p[i] = i
	}
	for i := n - 1; i > 0; i-- {
		j := r.Intn(i + 1)
		p[i], p[j] = p[j], p[i]
	}
	return p
}
