package main

// Profile "burn" (C07) and the fee monitor (C15).

import (
	aoltypes "github.com/medibloc/panacea-core/v2/x/aol/types"
	"fmt"
	"strings"

	sdk "github.com/cosmos/cosmos-sdk/types"
	authtypes "github.com/cosmos/cosmos-sdk/x/auth/types"
	burntypes "github.com/medibloc/panacea-core/v2/x/burn/types"
)

func genBurnHistory(r *RNG, nBlocks int) []string {
	var lines []string
	add := func(format string, a ...any) { lines = append(lines, fmt.Sprintf(format, a...)) }
	accts := []Acct{mkAcct(0), mkAcct(1), mkAcct(2), mkAcct(3)}
	addr := func(i int) string { return accts[i].Addr.String() }
	hexa := func(i int) string { return fmt.Sprintf("%x", []byte(accts[i].Addr)) }
	burn := burntypes.BurnAddress
	now := int64(1700000100_000000000)
	many := r.Chance(12) // a chain with two dozen denominations, of which most reach the burn address within one block
	few := !many && r.Chance(20) // a chain with an IBC voucher denomination and one more token
	if many {
		add("# GENESIS %d %s %d", 4, "1000000000000", 24)
	} else if few {
		add("# GENESIS %d %s %d", 4, "1000000000000", 2)
	} else {
		add("# GENESIS %d %s", 4, "1000000000000")
	}
	manyAt := 1 + r.Intn(max(1, nBlocks-1))
	vested := false
	coinsOf := func() string {
		amt := pick(r, []string{"1", "77", "1000", "999999", "0"})
		if few && r.Chance(35) {
			names := extraDenomNames(2)
			if r.Bool() {
				return toks(names[0]) + ":" + pick(r, []string{"1", "12", "1000"})
			}
			return toks(names[0]) + ":3," + toks(names[1]) + ":2," + toks(feeDenom) + ":" + amt
		}
		switch r.Intn(4) {
		case 0:
			return toks("ubtc") + ":" + pick(r, []string{"1", "5", "250"})
		case 1:
			return toks("ubtc") + ":" + pick(r, []string{"1", "3"}) + "," + toks(feeDenom) + ":" + amt
		default:
			return toks(feeDenom) + ":" + amt
		}
	}
	for b := 0; b < nBlocks; b++ {
		now += int64(1+r.Intn(4)) * 1_000_000_000
		add("BLOCK %d", now)
		if b == 0 && r.Chance(30) {
			// before anything has been burned (the burn module account is created at the first burn): a coin for the module
			// accounts themselves — refused, they are on the bank's blocklist; an ordinary account created at the burn module's
			// address would make the next burn panic
			for _, mod := range pick(r, [][]string{{burntypes.ModuleName}, {burntypes.ModuleName, authtypes.FeeCollectorName}, {"mint"}}) {
				i := r.Intn(4)
				add("TX %s %s", toks(feeDenom)+":10", hexa(i))
				add("M bank.Send %s %s %s", toks(addr(i)), toks(authtypes.NewModuleAddress(mod).String()), toks(feeDenom)+":1")
				add("ENDTX")
			}
		}
		if many && b == manyAt {
			// 17 to 24 denominations arrive at the burn address in this block (one send, or one send per denomination)
			k := 17 + r.Intn(8)
			var parts []string
			for _, dn := range extraDenomNames(k) {
				parts = append(parts, fmt.Sprintf("%s:%d", toks(dn), 1+r.Intn(9)))
			}
			i := r.Intn(4)
			if r.Bool() {
				add("TX %s %s", toks(feeDenom)+":1000", hexa(i))
				add("M bank.Send %s %s %s", toks(addr(i)), toks(burn), strings.Join(parts, ",")+","+toks(feeDenom)+":5")
				add("ENDTX")
			} else {
				for _, p := range parts {
					add("TX %s %s", toks(feeDenom)+":1000", hexa(i))
					add("M bank.Send %s %s %s", toks(addr(i)), toks(burn), p)
					add("ENDTX")
				}
			}
		}
		for t := 0; t < r.Intn(4); t++ {
			i := r.Intn(4)
			fee := pick(r, []string{"-", toks(feeDenom) + ":10", toks(feeDenom) + ":1000"})
			add("TX %s %s", fee, hexa(i))
			switch k := r.Intn(10); {
			case k < 5:
				add("M bank.Send %s %s %s", toks(addr(i)), toks(burn), coinsOf())
				if r.Chance(25) { // two sends in one transaction
					add("M bank.Send %s %s %s", toks(addr(i)), toks(burn), coinsOf())
				}
			case k < 6 && !vested && b < 3:
				// a delayed vesting account at the burn address: locked until a few blocks later (or far in the future)
				end := now/1_000_000_000 + int64(pick(r, []int{3, 8, 100000}))
				add("M vesting.Create %s %s %s %d", toks(addr(i)), toks(burn), toks(feeDenom)+":"+pick(r, []string{"500", "1"}), end)
				vested = true
			case k < 7:
				// a multi-send whose outputs add up to the input: part to the burn address, part to an ordinary account
				// (and sometimes not adding up, or without outputs); one denomination per leg so that the SDK's
				// Coins.IsEqual never compares different denomination names (it panics there: cosmos-sdk issue, not ours)
				d := pick(r, []string{feeDenom, "ubtc"})
				x, y := 1+r.Intn(500), r.Intn(40)
				total := x + y
				if r.Chance(12) {
					total++ // input != sum of outputs
				}
				switch {
				case r.Chance(8):
					add("M bank.MultiSend %s %s", toks(addr(i)), toks(d)+":"+fmt.Sprint(total))
				case y == 0:
					add("M bank.MultiSend %s %s %s %s", toks(addr(i)), toks(d)+":"+fmt.Sprint(total), toks(burn), toks(d)+":"+fmt.Sprint(x))
				default:
					add("M bank.MultiSend %s %s %s %s %s %s", toks(addr(i)), toks(d)+":"+fmt.Sprint(total), toks(burn), toks(d)+":"+fmt.Sprint(x), toks(addr(r.Intn(4))), toks(d)+":"+fmt.Sprint(y))
				}
			case k < 8:
				add("M bank.Send %s %s %s", toks(addr(i)), toks(addr(r.Intn(4))), coinsOf())
			default:
				add("M aol.CreateTopic %s %s %s", toks(pick(r, []string{"a", "b", "c"})), toks(""), toks(addr(i)))
			}
			add("ENDTX")
		}
		add("ENDBLOCK")
	}
	return lines
}

// burnMonitor (C07): after every block the burn address has no spendable coin; the block never halts
type burnMonitor struct{}

func (m *burnMonitor) BeforeTx(x *Exec, tx *TxInfo)               {}
func (m *burnMonitor) AfterTx(x *Exec, tx *TxInfo, result string) {}
func (m *burnMonitor) AfterBlock(x *Exec) {
	burnAddr, _ := sdk.AccAddressFromBech32(burntypes.BurnAddress)
	sp := x.C.App.BankKeeper.SpendableCoins(x.C.Ctx(), burnAddr)
	if !sp.IsZero() {
		x.Flag("C07-sink", fmt.Sprintf("after the block the burn address still has spendable coins %s (spendable before the end of the block: %s)", sp, x.BurnSpendableBefore))
	}
	func() {
		defer func() {
			if r := recover(); r != nil {
				x.Flag("C07-invariants", fmt.Sprintf("a registered chain invariant is broken after the block: %v", r))
			}
		}()
		x.C.App.CrisisKeeper.AssertInvariants(x.C.Ctx())
	}()
}

// feeMonitor (C15): a transaction made only of custom-module messages moves exactly the fee, from the fee payer
// (first signer; for AddRecord with a named fee payer: that address) to the fee collector; supply unchanged
type feeMonitor struct{ view string }

// keeperView: what the keepers themselves answer (in the deliver state) about every object the transaction's custom
// messages name — topics, writers, owners' counters, DID entries, denoms, tokens.  If a transaction is not accepted,
// this view must be what it was before (C15: none of its messages has any effect) — also when the raw store is unchanged,
// e.g. because a keeper remembers something outside the store.
func keeperView(x *Exec, tx *TxInfo) (view string) {
	defer func() {
		if e := recover(); e != nil {
			view = fmt.Sprintf("panic: %v", e)
		}
	}()
	ctx := x.C.Ctx()
	var sb strings.Builder
	addr := func(s string) string {
		a, err := sdk.AccAddressFromBech32(s)
		if err != nil || len(a) == 0 || len(a) > 255 {
			return ""
		}
		return string(a)
	}
	for _, pm := range tx.Msgs {
		a := pm.Args
		switch pm.Kind {
		case "aol.CreateTopic", "aol.AddWriter", "aol.DeleteWriter", "aol.AddRecord":
			ownerS := a[len(a)-1]
			writerS := ""
			switch pm.Kind {
			case "aol.AddWriter":
				writerS = a[3]
			case "aol.DeleteWriter":
				writerS = a[1]
			case "aol.AddRecord":
				ownerS, writerS = a[4], a[3]
			}
			o := addr(ownerS)
			if o == "" || len(a[0]) > 255 {
				continue
			}
			tk := aoltypes.TopicCompositeKey{OwnerAddress: sdk.AccAddress(o), TopicName: a[0]}
			fmt.Fprintf(&sb, "topic %x/%s: %v %v | owner: %v |", o, a[0], x.C.App.AolKeeper.HasTopic(ctx, tk), x.C.App.AolKeeper.GetTopic(ctx, tk), x.C.App.AolKeeper.GetOwner(ctx, aoltypes.OwnerCompositeKey{OwnerAddress: sdk.AccAddress(o)}))
			if w := addr(writerS); w != "" {
				wk := aoltypes.WriterCompositeKey{OwnerAddress: sdk.AccAddress(o), TopicName: a[0], WriterAddress: sdk.AccAddress(w)}
				fmt.Fprintf(&sb, " writer %x: %v %v |", w, x.C.App.AolKeeper.HasWriter(ctx, wk), x.C.App.AolKeeper.GetWriter(ctx, wk))
			}
		case "did.Create", "did.Update", "did.Deactivate":
			e := x.C.App.DidKeeper.GetDIDDocument(ctx, a[0])
			bz, _ := e.Marshal()
			fmt.Fprintf(&sb, "did %s: %x |", a[0], bz)
		case "pnft.CreateDenom", "pnft.UpdateDenom", "pnft.DeleteDenom", "pnft.TransferDenom":
			d, err := x.C.App.PnftKeeper.GetDenom(ctx, a[0])
			fmt.Fprintf(&sb, "denom %q: %v %v |", a[0], d, err != nil)
		case "pnft.Mint", "pnft.Transfer", "pnft.Burn":
			d, err := x.C.App.PnftKeeper.GetDenom(ctx, a[0])
			p, err2 := x.C.App.PnftKeeper.GetPNFT(ctx, a[0], a[1])
			fmt.Fprintf(&sb, "denom %q: %v %v token %q: %v %v |", a[0], d, err != nil, a[1], p, err2 != nil)
		}
	}
	return sb.String()
}

func (m *feeMonitor) BeforeTx(x *Exec, tx *TxInfo) { m.view = keeperView(x, tx) }
func (m *feeMonitor) AfterTx(x *Exec, tx *TxInfo, result string) {
	if !strings.HasPrefix(result, "R ok") && !strings.HasPrefix(result, "R builderr") {
		if after := keeperView(x, tx); after != m.view {
			x.Flag("C15-atomic", "a transaction that was not accepted ("+result+") changed what the keepers answer about the objects it names")
		}
	}
	for _, pm := range tx.Msgs {
		if !(strings.HasPrefix(pm.Kind, "aol.") || strings.HasPrefix(pm.Kind, "did.") || strings.HasPrefix(pm.Kind, "pnft.")) {
			return
		}
	}
	if len(tx.Msgs) == 0 || strings.HasPrefix(result, "R builderr") {
		return
	}
	d := strings.Split(x.LastDelta, " ")[1:]
	addrs := x.watchAddrs()
	charged := strings.HasPrefix(result, "R ok") || strings.HasPrefix(result, "R msg") || result == "R panic"
	fee := tx.Fee.AmountOf(feeDenom)
	var payer sdk.AccAddress
	if len(tx.Signers) > 0 {
		payer = tx.Signers[0]
	}
	first := tx.Msgs[0]
	if first.Kind == "aol.AddRecord" && first.Args[5] != "" && !first.InExec {
		if a, err := sdk.AccAddressFromBech32(first.Args[5]); err == nil && charged && !a.Equals(payer) {
			x.Flag("C15-payer", "an add-record transaction naming a fee payer was accepted with another first signer")
		}
	}
	collector := authtypes.NewModuleAddress(authtypes.FeeCollectorName)
	for i, a := range addrs {
		for j, dn := range watchDenoms {
			got := d[i*len(watchDenoms)+j]
			want := "0"
			if charged && dn == feeDenom && !fee.IsZero() {
				if a.Equals(payer) {
					want = fee.Neg().String()
				} else if a.Equals(collector) {
					want = fee.String()
				}
			}
			if got != want {
				x.Flag("C15-balances", fmt.Sprintf("custom-module transaction (%s) changed the %s balance of %s by %s, expected %s", result, dn, a, got, want))
				return
			}
		}
	}
	for j := range watchDenoms {
		if d[len(addrs)*len(watchDenoms)+j] != "0" {
			x.Flag("C15-supply", "a custom-module transaction changed the total supply")
		}
	}
}
func (m *feeMonitor) AfterBlock(x *Exec) {}
