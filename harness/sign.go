package main

// Profile "sign" (C14): the bytes an account signs, for every custom message kind and every enabled sign mode (direct,
// direct-aux, legacy amino JSON), computed by the real SignModeHandler and by the model.  A TX block is closed by
//   ENDSIGN <mode> <chain-id> <account-number> <sequence> <memo> <gas>
// which the executor completes, in the history file, with the AuthInfo bytes and the Any-encoded public key it used
// (inputs of the model).  Answer: "S <hex of the sign bytes>".
// On the implementation alone: two different transactions (type URL or protobuf bytes of a message differ, everything
// else equal) that yield the same sign bytes are a collision.

import (
	"bytes"
	"crypto/sha256"
	"crypto/sha512"
	"encoding/hex"
	"reflect"
	"unicode/utf8"
	"fmt"
	"sort"
	"strconv"
	"strings"

	codectypes "github.com/cosmos/cosmos-sdk/codec/types"
	sdk "github.com/cosmos/cosmos-sdk/types"
	txtypes "github.com/cosmos/cosmos-sdk/types/tx"
	"github.com/cosmos/cosmos-sdk/types/tx/signing"
	authsigning "github.com/cosmos/cosmos-sdk/x/auth/signing"
	"github.com/cosmos/cosmos-sdk/x/auth/migrations/legacytx"
	"github.com/medibloc/panacea-core/v2/app"
	didtypes "github.com/medibloc/panacea-core/v2/x/did/types"
)

var signEnc = app.MakeEncodingConfig()

type signSeen struct {
	ident string // type URLs + protobuf bytes of the messages
	descr string
	norm  string // the same after the two known normalisations (invalid UTF-8 -> U+FFFD, empty controller list -> absent)
}

// normIdent: identity of the messages after replacing bytes that are not UTF-8 in every string field by U+FFFD and an
// empty DID controller list by an absent one (the two field-level collisions recorded as known finding K1)
func normIdent(msgs []sdk.Msg) string {
	var id []string
	for _, msg := range msgs {
		bz, err := signEnc.Codec.MarshalInterface(msg)
		if err != nil {
			return ""
		}
		var cp sdk.Msg
		if err := signEnc.Codec.UnmarshalInterface(bz, &cp); err != nil {
			return ""
		}
		sanitize(reflect.ValueOf(cp))
		a, err := codectypes.NewAnyWithValue(cp)
		if err != nil {
			return ""
		}
		id = append(id, a.TypeUrl+"="+hex.EncodeToString(a.Value))
	}
	return strings.Join(id, ";")
}

func sanitize(v reflect.Value) {
	switch v.Kind() {
	case reflect.Ptr, reflect.Interface:
		if !v.IsNil() {
			if c, ok := v.Interface().(*didtypes.JSONStringOrStrings); ok && c != nil && len(*c) == 0 && v.CanSet() {
				v.Set(reflect.Zero(v.Type()))
				return
			}
			sanitize(v.Elem())
		}
	case reflect.Struct:
		for i := 0; i < v.NumField(); i++ {
			if v.Field(i).CanSet() || v.Field(i).Kind() == reflect.Ptr || v.Field(i).Kind() == reflect.Slice || v.Field(i).Kind() == reflect.Interface {
				sanitize(v.Field(i))
			}
		}
	case reflect.Slice:
		if v.Type().Elem().Kind() == reflect.Uint8 {
			return
		}
		for i := 0; i < v.Len(); i++ {
			sanitize(v.Index(i))
		}
	case reflect.String:
		if v.CanSet() {
			v.SetString(coerceUTF8(v.String()))
		}
	}
}


func signMode(s string) signing.SignMode {
	switch s {
	case "amino":
		return signing.SignMode_SIGN_MODE_LEGACY_AMINO_JSON
	case "aux":
		return signing.SignMode_SIGN_MODE_DIRECT_AUX
	}
	return signing.SignMode_SIGN_MODE_DIRECT
}

func (x *Exec) endSign(f []string) (string, string) {
	mode := f[1]
	chain := s(f[2])
	accnum, _ := strconv.ParseUint(f[3], 10, 64)
	seq, _ := strconv.ParseUint(f[4], 10, 64)
	memo := s(f[5])
	gas, _ := strconv.ParseUint(f[6], 10, 64)
	ac := mkAcct(0)
	var authHex, pkHex, answer string
	func() {
		defer func() {
			if e := recover(); e != nil {
				answer = "S panic"
				x.Flag("C17-signbytes-panic", fmt.Sprintf("computing %s sign bytes panicked: %v", mode, e))
			}
		}()
		txCfg := signEnc.TxConfig
		b := txCfg.NewTxBuilder()
		must(b.SetMsgs(x.cur.Top...))
		b.SetGasLimit(gas)
		b.SetFeeAmount(x.cur.Fee)
		b.SetMemo(memo)
		m := signMode(mode)
		if m == signing.SignMode_SIGN_MODE_DIRECT_AUX {
			b.SetFeePayer(mkAcct(3).Addr) // the fee payer may not sign in direct-aux mode
		}
		must(b.SetSignatures(signing.SignatureV2{PubKey: ac.Priv.PubKey(), Data: &signing.SingleSignatureData{SignMode: m}, Sequence: seq}))
		sd := authsigning.SignerData{Address: ac.Addr.String(), ChainID: chain, AccountNumber: accnum, Sequence: seq, PubKey: ac.Priv.PubKey()}
		bz, err := txCfg.SignModeHandler().GetSignBytes(m, sd, b.GetTx())
		if err != nil {
			answer = "S err"
			return
		}
		raw, err := txCfg.TxEncoder()(b.GetTx())
		must(err)
		var tr txtypes.TxRaw
		must(tr.Unmarshal(raw))
		authHex = tok(tr.AuthInfoBytes)
		any, err := codectypes.NewAnyWithValue(ac.Priv.PubKey())
		must(err)
		anyBz, err := any.Marshal()
		must(err)
		pkHex = tok(anyBz)
		answer = "S " + hex.EncodeToString(bz)
		// determinism clause: what a message returned as its sign bytes must not change when another message's are computed,
		// and computing them again must give the same bytes
		if m == signing.SignMode_SIGN_MODE_LEGACY_AMINO_JSON {
			var raws, copies [][]byte
			for _, msg := range x.cur.Top {
				if lm, ok := msg.(legacytx.LegacyMsg); ok {
					r := lm.GetSignBytes()
					raws = append(raws, r)
					copies = append(copies, append([]byte{}, r...))
				}
			}
			for i := range raws {
				if !bytes.Equal(raws[i], copies[i]) {
					x.FlagN("C14-signbytes-not-stable", fmt.Sprintf("the sign bytes returned for message %d of the transaction changed when those of a later message were computed", i), 400)
					break
				}
			}
			bz2, err2 := txCfg.SignModeHandler().GetSignBytes(m, sd, b.GetTx())
			if err2 != nil || !bytes.Equal(bz, bz2) {
				x.FlagN("C14-signbytes-not-stable", "computing the sign bytes of the same transaction twice gave different bytes", 400)
			}
		}
		// collision monitor
		var id []string
		var kinds []string
		for i, msg := range x.cur.Top {
			a, err := codectypes.NewAnyWithValue(msg)
			must(err)
			id = append(id, a.TypeUrl+"="+hex.EncodeToString(a.Value))
			kinds = append(kinds, x.cur.Msgs[min(i, len(x.cur.Msgs)-1)].Kind)
		}
		ident := strings.Join(id, ";")
		// the property speaks of messages that pass stateless validation: only those take part in the collision check
		for _, msg := range x.cur.Top {
			ok := false
			func() {
				defer func() { recover() }()
				ok = msg.ValidateBasic() == nil
			}()
			if !ok {
				x.Stats["sign-not-validated"]++
				return
			}
		}
		key := mode + "|" + chain + "|" + f[3] + "|" + f[4] + "|" + f[5] + "|" + f[6] + "|" + coinsTok(x.cur.Fee) + "|" + string(bz)
		if x.signSeen == nil {
			x.signSeen = map[string]signSeen{}
		}
		if prev, ok := x.signSeen[key]; ok && prev.ident != ident {
			ks := []string{prev.descr, strings.Join(kinds, "+")}
			sort.Strings(ks)
			clause := "C14-collision-" + mode
			if ks[0] != ks[1] {
				clause += "-kinds"
			} else if n := normIdent(x.cur.Top); n != "" && n == prev.norm {
				clause += "-fields-utf8-or-empty-controller"
			} else {
				clause += "-fields"
			}
			x.FlagN(clause, fmt.Sprintf("two different transactions share their %s sign bytes: %s / %s (%d bytes)", mode, ks[0], ks[1], len(bz)), 400)
			x.Stats["collision:"+clause+":"+ks[0]+"/"+ks[1]]++
		} else if !ok {
			x.signSeen[key] = signSeen{ident, strings.Join(kinds, "+"), normIdent(x.cur.Top)}
		}
	}()
	if authHex == "" {
		authHex, pkHex = "-", "-"
	}
	return strings.Join([]string{"ENDSIGN", mode, f[2], f[3], f[4], f[5], f[6], authHex, pkHex}, " "), answer
}

// FlagN is Flag with its own cap
func (x *Exec) FlagN(clause, detail string, capN int) {
	if len(x.Findings) < capN {
		x.Findings = append(x.Findings, finding{Clause: clause, Detail: detail, Cmd: strings.Join(append(append([]string{}, x.cur.Lines...), "ENDSIGN"), "\n")})
	}
}

// ---------------------------------------------------------------------------------------------------
// generator: by shape

var signTexts = []string{"", "x", "hello world", `q"uo\te`, "<tag>&amp;", "line\nbreak\ttab", "caf\xc3\xa9 \xe2\x80\xa8", "\x00\x1f\x7f", "\xff", "\xfe", "a\xc3"}

func genSignCases(r *RNG, thorough bool) []string {
	var lines []string
	add := func(format string, a ...any) { lines = append(lines, fmt.Sprintf(format, a...)) }
	A, B, C := mkAcct(0).Addr.String(), mkAcct(1).Addr.String(), mkAcct(2).Addr.String()
	hexA := fmt.Sprintf("%x", []byte(mkAcct(0).Addr))
	modes := []string{"direct", "aux", "amino"}
	emit := func(msgs []string, memo string, fee string, seq int) {
		for _, m := range modes {
			add("TX %s %s", fee, hexA)
			for _, l := range msgs {
				add("M %s", l)
			}
			add("ENDSIGN %s %s %d %d %s %d", m, toks(chainID), 7, seq, toks(memo), 200000)
		}
	}
	one := func(msg string) { emit([]string{msg}, "", toks(feeDenom)+":10", 3) }
	txt := func() string { return pick(r, signTexts) }
	// AOL: every field through every text, optional fields empty / non-empty
	for _, t := range []string{"t", "a.b", ""} {
		for _, d := range signTexts {
			one(joinSp("aol.CreateTopic", toks(t), toks(d), toks(A)))
		}
	}
	for _, mon := range []string{"", "m", "w.2"} {
		for _, d := range []string{"", "d", `"`, "\xff"} {
			one(joinSp("aol.AddWriter", toks("t"), toks(mon), toks(d), toks(B), toks(A)))
		}
	}
	one(joinSp("aol.DeleteWriter", toks("t"), toks(B), toks(A)))
	one(joinSp("aol.DeleteWriter", toks("t"), toks(A), toks(B)))
	for _, k := range []string{"", "k", "\x00\xff", "key<>"} {
		for _, v := range []string{"", "v", "\xff\xfe", strings.Repeat("v", 40)} {
			for _, fp := range []string{"", C} {
				one(joinSp("aol.AddRecord", toks("t"), toks(k), toks(v), toks(B), toks(A), toks(fp)))
			}
		}
	}
	// byte fields next to the text a signer might display for them: the bytes themselves, their base64, their hex, and a
	// printable string — four different messages each
	for _, bs := range []string{"\xff\xfe", "\x00\x01\x02", "AAEC", "//4=", "fffe", "000102", "hello"} {
		one(joinSp("aol.AddRecord", toks("t"), toks(bs), toks("v"), toks(B), toks(A), toks("")))
		one(joinSp("aol.AddRecord", toks("t"), toks("k"), toks(bs), toks(B), toks(A), toks("")))
	}
	// long byte / text fields around the thresholds at which a signer implementation might shorten, digest or truncate what
	// it displays — together with the digests and truncations themselves, so that "long value signed as its digest" shows
	// up as a collision between two different messages
	for _, n := range []int{255, 256, 1023, 1024, 1025, 4096, 5000} {
		v := strings.Repeat("v", n-1) + "w"
		variants := []string{v}
		if n > 256 {
			h256 := sha256.Sum256([]byte(v))
			h512 := sha512.Sum512([]byte(v))
			variants = append(variants, string(h256[:]), string(h512[:]), hex.EncodeToString(h256[:]), v[:32], v[:64], v[:256], v[:1024%len(v)])
		}
		for _, vv := range variants {
			one(joinSp("aol.AddRecord", toks("t"), toks("k"), toks(vv), toks(B), toks(A), toks("")))
		}
		if n <= 5000 {
			one(joinSp("aol.CreateTopic", toks("t"), toks(v), toks(A)))
			one(joinSp("pnft.Mint", toks("d1"), toks("t1"), toks("n"), toks(v), toks(""), toks(""), toks(v), toks(A)))
		}
	}
	// DID
	g := &didGen{r: r.Fork(), accts: []Acct{mkAcct(0), mkAcct(1)}, seq: map[string]uint64{}, curKey: map[string]int{}, curVM: map[string]string{}, curDoc: map[string]*didtypes.DIDDocument{}, active: map[string]bool{}, dead: map[string]bool{}}
	for i := 0; i < 4; i++ {
		g.keys = append(g.keys, mkDidKey(i))
	}
	for shape := 0; shape < 12; shape++ {
		did := didtypes.NewDID(g.keys[shape%len(g.keys)].pub)
		ref, _, vm := g.buildDoc(did, shape%len(g.keys), shape)
		lines = append(lines, g.lines...)
		g.lines = nil
		for _, sig := range []string{"s", "\x00\xff"} {
			one(joinSp("did.Create", toks(did), ref, toks(vm), toks(sig), toks(A)))
			one(joinSp("did.Update", toks(did), ref, toks(vm), toks(sig), toks(A)))
		}
		one(joinSp("did.Deactivate", toks(did), toks(vm), toks("s"), toks(A)))
	}
	{ // a controller list that is present but empty, next to the same document without one
		did := didtypes.NewDID(g.keys[0].pub)
		for _, withCtrl := range []bool{false, true} {
			g.nDoc++
			ref := fmt.Sprintf("c%d", g.nDoc)
			add("DOC %s %s", ref, toks(did))
			add("DCTX %s %s", ref, toks(didtypes.ContextDIDV1))
			if withCtrl {
				add("DCTRL %s", ref)
			}
			add("DVM %s %s %s %s %s", ref, toks(did+"#key1"), toks(didtypes.ES256K_2019), toks(did), toks(g.keys[0].b58))
			add("DREL %s auth ref %s", ref, toks(did+"#key1"))
			one(joinSp("did.Create", toks(did), ref, toks(did+"#key1"), toks("s"), toks(A)))
		}
	}
	// PNFT
	for i := 0; i < 12; i++ {
		one(joinSp("pnft.CreateDenom", toks(pick(r, []string{"d1", "a/b", ""})), toks(txt()), toks(txt()), toks(txt()), toks(txt()), toks(txt()), toks(A), toks(txt())))
		one(joinSp("pnft.UpdateDenom", toks("d1"), toks(txt()), toks(txt()), toks(txt()), toks(txt()), toks(txt()), toks(A), toks(txt())))
		one(joinSp("pnft.Mint", toks("d1"), toks(pick(r, []string{"t1", "x"})), toks(txt()), toks(txt()), toks(txt()), toks(txt()), toks(txt()), toks(A)))
	}
	one(joinSp("pnft.CreateDenom", toks("d1"), toks("N"), toks("S"), toks(""), toks(""), toks(""), toks(A), toks("")))
	one(joinSp("pnft.UpdateDenom", toks("d1"), toks("N"), toks("S"), toks(""), toks(""), toks(""), toks(A), toks("")))
	one(joinSp("pnft.DeleteDenom", toks("d1"), toks(A)))
	one(joinSp("pnft.Burn", toks("d1"), toks("t1"), toks(A)))
	one(joinSp("pnft.TransferDenom", toks("d1"), toks(A), toks(B)))
	one(joinSp("pnft.TransferDenom", toks("d1"), toks(B), toks(A)))
	one(joinSp("pnft.Transfer", toks("d1"), toks("t1"), toks(A), toks(B)))
	one(joinSp("pnft.Transfer", toks("d1"), toks("t1"), toks(B), toks(A)))
	// candidates for untyped collisions: same field names, optional fields empty
	one(joinSp("aol.AddWriter", toks("t"), toks(""), toks(""), toks(B), toks(A)))
	one(joinSp("aol.AddRecord", toks("t"), toks(""), toks(""), toks(B), toks(A), toks("")))
	one(joinSp("pnft.Burn", toks("d1"), toks("t1"), toks(A)))
	// every message kind with each field emptied in turn, next to the kinds whose untyped JSON has the same remaining keys:
	// on the unchanged code the emptied variants fail validation (and are left out of the collision check); a validator
	// that lets one through turns it into a collision
	type mk struct {
		kind string
		args []string
	}
	base := []mk{
		{"aol.CreateTopic", []string{"t", "d", A}},
		{"aol.AddWriter", []string{"t", "m", "d", B, A}},
		{"aol.DeleteWriter", []string{"t", B, A}},
		{"aol.AddRecord", []string{"t", "k", "v", B, A, ""}},
		{"pnft.CreateDenom", []string{"X", "N", "S", "", "", "", A, ""}},
		{"pnft.UpdateDenom", []string{"X", "N", "S", "", "", "", A, ""}},
		{"pnft.DeleteDenom", []string{"X", A}},
		{"pnft.TransferDenom", []string{"X", A, B}},
		{"pnft.Mint", []string{"D", "X", "N", "", "", "", "", A}},
		{"pnft.Transfer", []string{"D", "X", A, B}},
		{"pnft.Burn", []string{"D", "X", A}},
	}
	for _, bm := range base {
		for i := -1; i < len(bm.args); i++ {
			a := append([]string{}, bm.args...)
			if i >= 0 {
				if a[i] == "" {
					continue
				}
				a[i] = ""
			}
			parts := []string{bm.kind}
			for _, v := range a {
				parts = append(parts, toks(v))
			}
			one(joinSp(parts...))
		}
	}
	// every message kind with each field changed in turn to another admissible value of the same length: a field that is
	// left out of (or duplicated in) what is signed turns the base message and its variant into a collision
	alt := func(v string) string {
		switch v {
		case A:
			return C
		case B:
			return C
		case "":
			return "z"
		}
		bs := []byte(v)
		bs[len(bs)-1] ^= 3 // 't'->'w', 'X'->'[' is not admissible: keep to letters
		if !((bs[len(bs)-1] >= 'a' && bs[len(bs)-1] <= 'z') || (bs[len(bs)-1] >= 'A' && bs[len(bs)-1] <= 'Z')) {
			bs[len(bs)-1] = 'q'
		}
		return string(bs)
	}
	render := func(kind string, a []string) string {
		parts := []string{kind}
		for _, v := range a {
			parts = append(parts, toks(v))
		}
		return joinSp(parts...)
	}
	for _, bm := range base {
		for i := range bm.args {
			a := append([]string{}, bm.args...)
			a[i] = alt(a[i])
			one(render(bm.kind, a))
		}
		// an address spelled in upper case (bech32 admits both spellings; the message bytes differ)
		for i := range bm.args {
			if bm.args[i] == A || bm.args[i] == B {
				a := append([]string{}, bm.args...)
				a[i] = strings.ToUpper(a[i])
				one(render(bm.kind, a))
			}
		}
		// two same-typed neighbours exchanged
		for i := 0; i+1 < len(bm.args); i++ {
			if bm.args[i] != bm.args[i+1] && bm.args[i] != "" && bm.args[i+1] != "" && (len(bm.args[i]) > 20) == (len(bm.args[i+1]) > 20) {
				a := append([]string{}, bm.args...)
				a[i], a[i+1] = a[i+1], a[i]
				one(render(bm.kind, a))
			}
		}
		// the same kind twice in one transaction, with values of equal length: [a,b] and [c,b] (and [b,a]) must all differ —
		// sign bytes built in a buffer shared between calls would make the first entry a copy of the second
		a0 := append([]string{}, bm.args...)
		b0 := append([]string{}, bm.args...)
		c0 := append([]string{}, bm.args...)
		b0[0] = alt(a0[0])
		c0[0] = alt(b0[0]) + ""
		if c0[0] == a0[0] {
			c0[0] = a0[0][:len(a0[0])-1] + "k"
		}
		emit([]string{render(bm.kind, a0), render(bm.kind, b0)}, "", toks(feeDenom)+":10", 3)
		emit([]string{render(bm.kind, c0), render(bm.kind, b0)}, "", toks(feeDenom)+":10", 3)
		emit([]string{render(bm.kind, b0), render(bm.kind, a0)}, "", toks(feeDenom)+":10", 3)
	}
	// several messages, memo, fee and sequence variations
	emit([]string{joinSp("aol.CreateTopic", toks("t"), toks("d"), toks(A)), joinSp("aol.DeleteWriter", toks("t"), toks(B), toks(A))}, "memo", toks(feeDenom)+":10", 3)
	emit([]string{joinSp("aol.DeleteWriter", toks("t"), toks(B), toks(A)), joinSp("aol.CreateTopic", toks("t"), toks("d"), toks(A))}, "memo", toks(feeDenom)+":10", 3)
	emit([]string{joinSp("aol.CreateTopic", toks("t"), toks("d"), toks(A))}, `m"e<m>o`, "-", 0)
	emit([]string{joinSp("aol.CreateTopic", toks("t"), toks("d"), toks(A))}, "", toks(feeDenom)+":10,"+toks("ubtc")+":3", 18446744073709551615&0x7fffffff)
	if thorough {
		for i := 0; i < 600; i++ {
			var msg string
			switch r.Intn(6) {
			case 0:
				msg = joinSp("aol.CreateTopic", toks(txt()), toks(txt()), toks(pick(r, []string{A, B, ""})))
			case 1:
				msg = joinSp("aol.AddWriter", toks(txt()), toks(txt()), toks(txt()), toks(pick(r, []string{A, B})), toks(pick(r, []string{A, B})))
			case 2:
				msg = joinSp("aol.AddRecord", toks(txt()), toks(txt()), toks(txt()), toks(pick(r, []string{A, B})), toks(pick(r, []string{A, B})), toks(pick(r, []string{"", C})))
			case 3:
				msg = joinSp("aol.DeleteWriter", toks(txt()), toks(pick(r, []string{A, B})), toks(pick(r, []string{A, B})))
			case 4:
				msg = joinSp("pnft.Mint", toks(txt()), toks(txt()), toks(txt()), toks(txt()), toks(txt()), toks(txt()), toks(txt()), toks(A))
			default:
				msg = joinSp("pnft.Transfer", toks(txt()), toks(txt()), toks(pick(r, []string{A, B})), toks(pick(r, []string{A, B})))
			}
			emit([]string{msg}, txt(), toks(feeDenom)+":10", r.Intn(3))
		}
	}
	return lines
}

var _ = sdk.AccAddress{}

// coerceUTF8: what json.Marshal does to a string: every byte that does not start a valid encoding becomes U+FFFD
func coerceUTF8(s string) string {
	var sb strings.Builder
	for i := 0; i < len(s); {
		r, n := utf8.DecodeRuneInString(s[i:])
		if r == utf8.RuneError && n == 1 {
			sb.WriteString("\uFFFD")
		} else {
			sb.WriteString(s[i : i+n])
		}
		i += n
	}
	return sb.String()
}
