#!/usr/bin/env python3
"""Writes harness/go.mod from /repo/go.mod (same replace block, same go directive) and copies go.sum."""
import re, shutil, sys, os
here = os.path.dirname(os.path.abspath(__file__))
repo = os.environ.get("VERIF_REPO", "/repo")
gm = open(os.path.join(repo, "go.mod")).read()
m = re.search(r'^replace \((.*?)^\)', gm, re.S | re.M)
rep = m.group(1) if m else "\n"
# take over /repo's requirements so that versions are pinned identically
reqs = re.findall(r'^require \((.*?)^\)', gm, re.S | re.M)
gov = re.search(r'^go (\S+)', gm, re.M).group(1)
out = "module verif/harness\n\ngo %s\n\nrequire github.com/medibloc/panacea-core/v2 v2.0.0\n\n" % gov
for r in reqs:
    out += "require (%s)\n\n" % r
out += "replace github.com/medibloc/panacea-core/v2 => %s\n\nreplace (%s)\n" % (repo, rep)
path = os.path.join(here, "go.mod")
old = open(path).read() if os.path.exists(path) else None
if old != out:
    open(path, "w").write(out)
shutil.copyfile(os.path.join(repo, "go.sum"), os.path.join(here, "go.sum"))
