package main

// Profile "aollist" (C13): states with many topics/writers per owner — including owners with 20- and
// 32-byte addresses whose bytes collide with length bytes, and topic names that are prefixes of one another —
// seeded through genesis and extended by transactions, then paged through with every style.

import (
	"bytes"
	"fmt"
	"strings"

	sdk "github.com/cosmos/cosmos-sdk/types"
)

func genAolListHistory(r *RNG, nBlocks int) []string {
	var lines []string
	add := func(format string, a ...any) { lines = append(lines, fmt.Sprintf(format, a...)) }
	accts := []Acct{mkAcct(0), mkAcct(1), mkAcct(2), mkAcct(3)}
	a32 := append([]byte{20}, bytes.Repeat([]byte{0x14}, 31)...) // 32-byte address starting with the length byte of a 20-byte one
	a20 := append([]byte{32}, bytes.Repeat([]byte{0x20}, 19)...) // 20-byte address starting with the length byte of a 32-byte one
	a1 := []byte{0x01}
	owners := []string{accts[0].Addr.String(), accts[1].Addr.String(), sdk.AccAddress(a32).String(), sdk.AccAddress(a20).String(), sdk.AccAddress(a1).String()}
	names := []string{"a", "ab", "abc", "a.b", "a-", "A", "b", "ba", "t", strings.Repeat("t", 70), strings.Repeat("t", 69), "0", "_", "-"}
	add("# GENESIS %d %s", 4, "1000000000000")
	// genesis: consistent counters (a valid reachable state)
	type tk struct{ o, t string }
	topics := map[tk]int{}
	perOwner := map[string]int{}
	var order []tk
	nTopics := 3 + r.Intn(12)
	if r.Chance(10) {
		nTopics = 105 // more than one default page
	}
	for i := 0; i < nTopics; i++ {
		o := pick(r, owners)
		var t string
		if nTopics > 100 {
			o = owners[0]
			t = fmt.Sprintf("topic-%03d", i)
		} else {
			t = pick(r, names)
		}
		k := tk{o, t}
		if _, ok := topics[k]; ok {
			continue
		}
		topics[k] = 0
		perOwner[o]++
		order = append(order, k)
	}
	writersOf := map[tk][]string{}
	for _, k := range order {
		nw := r.Intn(5)
		seen := map[string]bool{}
		for j := 0; j < nw; j++ {
			w := pick(r, owners)
			if seen[w] {
				continue
			}
			seen[w] = true
			writersOf[k] = append(writersOf[k], w)
		}
	}
	for _, o := range sortedKeys(perOwner) {
		add("G aol.owner %s %d", toks(o), perOwner[o])
	}
	for ti, k := range order {
		// records from offset 0 in most topics, with values that name the topic: an import that files a record under another
		// topic (two genesis entries then meet in one store key, and the map order picks the survivor) cannot hide
		nr := 0
		if r.Chance(70) {
			nr = 1 + r.Intn(3)
		}
		for j := 0; j < nr; j++ {
			add("G aol.record %s %s %s %d %s", toks(fmt.Sprintf("%s/%s/%d", k.o, k.t, j)), toks(fmt.Sprintf("k%d.%d", ti, j)), toks(fmt.Sprintf("v-%s-%d", k.t, j)),
				1700000000_000000000+int64(ti*10+j), toks(pick(r, owners[:2])))
		}
		add("G aol.topic %s %s %d %d", toks(k.o+"/"+k.t), toks("d"), nr, len(writersOf[k]))
		for j, w := range writersOf[k] {
			// distinct values per writer: an import that confuses writers cannot hide behind identical entries
			add("G aol.writer %s %s %s %d", toks(k.o+"/"+k.t+"/"+w), toks(fmt.Sprintf("m%d", j)), toks(fmt.Sprintf("d%d", j)), 1700000000_000000000+int64(j))
		}
	}
	now := int64(1700000100_000000000)
	// a few blocks of transactions by the key-holding owners
	for b := 0; b < nBlocks; b++ {
		now += 1_000_000_000
		add("BLOCK %d", now)
		for t := 0; t < 1+r.Intn(3); t++ {
			oi := r.Intn(2)
			o := accts[oi].Addr.String()
			name := pick(r, names)
			switch r.Intn(3) {
			case 0:
				add("TX %s %x", toks(feeDenom)+":10", []byte(accts[oi].Addr))
				add("M aol.CreateTopic %s %s %s", toks(name), toks("x"), toks(o))
				add("ENDTX")
			case 1:
				add("TX %s %x", toks(feeDenom)+":10", []byte(accts[oi].Addr))
				add("M aol.AddWriter %s %s %s %s %s", toks(name), toks("m"), toks(""), toks(pick(r, owners)), toks(o))
				add("ENDTX")
			default:
				add("TX %s %x", toks(feeDenom)+":10", []byte(accts[oi].Addr))
				add("M aol.DeleteWriter %s %s %s", toks(name), toks(pick(r, owners)), toks(o))
				add("ENDTX")
			}
		}
		add("ENDBLOCK")
	}
	add("DUMP aol")
	// page through everything
	limits := []string{"1", "2", "3", "7", "100", "18446744073709551615"}
	for _, o := range owners {
		for i := 0; i < 4; i++ {
			style := pick(r, []string{"key", "offset"})
			lim := pick(r, limits)
			if style == "offset" && lim == "18446744073709551615" {
				lim = "5"
			}
			add("PAGE aol.Topics %s %s %d %d %s", toks(o), lim, r.Intn(2), r.Intn(2), style)
		}
		add("Q aol.Topics %s nopage", toks(o))
		add("Q aol.Topics %s nil 0 0 0 0", toks(o))
		add("Q aol.Topics %s nil 1 2 1 0", toks(o))
		add("Q aol.Topics %s %s 1 2 0 0", toks(o), tok([]byte{1, 'a'})) // key and offset together: an error
	}
	for _, k := range order {
		if r.Chance(60) {
			style := pick(r, []string{"key", "offset"})
			add("PAGE aol.Writers %s %s %s %d %d %s", toks(k.o), toks(k.t), pick(r, limits[:5]), r.Intn(2), r.Intn(2), style)
		}
	}
	// a topic that does not exist / a 256-byte topic name / a malformed owner
	add("Q aol.Writers %s %s nopage", toks(owners[0]), toks("nosuchtopic"))
	add("Q aol.Writers %s %s nopage", toks(owners[0]), toks(strings.Repeat("x", 256)))
	add("Q aol.Topics %s nopage", toks("notanaddress"))
	return lines
}
