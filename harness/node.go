package main

// Profile "node" (C09, C10, C20): the life cycle of a node around the same transaction histories the other
// profiles use.  The history of an inner generator (aol / did / pnft / burn) is decorated with
//   CRASH            stop at this point and start a new application object on the same database
//   ... ENDCHECK     the transaction just built goes to CheckTx instead of DeliverTx
//   ... ENDSIM       ... to Simulate
//   QH <height> ...  a query served at a committed height (0 = latest committed)
// The extracted model answers the same lines (Node/Model.v semantics inside the driver).  On the implementation
// alone: a twin application that receives only the committed blocks (no crashes, no mempool or query traffic)
// must produce byte-identical DeliverTx responses and application hashes (C09); after a restart the height and
// application hash must be those of the last Commit (C10); background goroutines query fixed and latest heights
// while blocks execute (C20).

import (
	"bytes"
	"fmt"
	"strings"
	"sync"
	"sync/atomic"
	"time"

	abci "github.com/cometbft/cometbft/abci/types"
	upgradetypes "github.com/cosmos/cosmos-sdk/x/upgrade/types"
	aoltypes "github.com/medibloc/panacea-core/v2/x/aol/types"
	didtypes "github.com/medibloc/panacea-core/v2/x/did/types"
	pnfttypes "github.com/medibloc/panacea-core/v2/x/pnft/types"
)

// Restart drops the application object and opens a new one on the same database.
func (c *Chain) Restart() {
	c.App = newApp(c.DB, c.Home)
	c.Height = c.App.LastBlockHeight()
	c.InBlock = false
}

type twinBlock struct {
	upgrade      string
	afterRestart bool
	nanos int64
	txs   [][]byte
	res   []abci.ResponseDeliverTx
}

type nodeState struct {
	twin    *Chain
	blk     *twinBlock
	hashes  map[int64][]byte
	conc    *concurrent
	crashes int
	committedStores map[string]string // raw custom stores right after the last Commit
	restarted bool // no block has been committed since the last restart
}

func respBytes(r abci.ResponseDeliverTx) []byte {
	bz, err := r.Marshal()
	must(err)
	return bz
}

// afterCommit replays the committed block on the twin and compares
// diverge reports a disagreement between the node and its never-stopped, traffic-free twin: always a C09 matter, and a
// C10 matter too once the node has been restarted
func (x *Exec) diverge(detail string) {
	x.Flag("C09-diverge", detail)
	if x.Node != nil && x.Node.crashes > 0 {
		x.Flag("C10-diverge-after-restart", detail)
	}
}

func (x *Exec) nodeAfterCommit(appHash []byte) {
	ns := x.Node
	if ns == nil {
		return
	}
	ns.hashes[x.C.Height] = appHash
	ns.committedStores = x.C.customStores()
	if ns.twin == nil || ns.blk == nil {
		return
	}
	t := ns.twin
	t.BeginBlock(timeUnixNano(ns.blk.nanos))
	if t.Height != x.C.Height {
		x.diverge(fmt.Sprintf("twin is at height %d, node at %d", t.Height, x.C.Height))
	}
	for i, bz := range ns.blk.txs {
		r := t.Deliver(bz)
		if !bytes.Equal(respBytes(r), respBytes(ns.blk.res[i])) {
			// known finding K5 (cosmos-sdk x/capability InitMemStore consumes gas on the deliver state's meter in the first
			// BeginBlock of a process): the responses differ in GasUsed only, in the first block after a restart, for a
			// transaction refused before the ante handler installed its own meter (GasWanted 0)
			a, b := ns.blk.res[i], r
			if ns.blk.afterRestart && a.GasWanted == 0 && b.GasWanted == 0 && a.GasUsed != b.GasUsed {
				a.GasUsed, b.GasUsed = 0, 0
				if bytes.Equal(respBytes(a), respBytes(b)) {
					x.Flag("C10-restart-gas-sdk-beginblock", fmt.Sprintf("height %d tx %d: GasUsed of a transaction refused before the ante handler differs in the first block after a restart: %d on the restarted node, %d on a node that never stopped",
						x.C.Height, i, ns.blk.res[i].GasUsed, r.GasUsed))
					continue
				}
			}
			x.diverge(fmt.Sprintf("height %d tx %d: the two replicas answered DeliverTx differently: code %d/%d gas %d/%d log %q / %q",
				x.C.Height, i, ns.blk.res[i].Code, r.Code, ns.blk.res[i].GasUsed, r.GasUsed, ns.blk.res[i].Log, r.Log))
		}
	}
	if ns.blk.upgrade != "" {
		shapeVersionMap(t, ns.blk.upgrade)
		must(t.App.UpgradeKeeper.ScheduleUpgrade(t.Ctx(), upgradetypes.Plan{Name: ns.blk.upgrade, Height: t.Height + 1}))
	}
	h2 := t.EndBlockCommit()
	if !bytes.Equal(h2, appHash) {
		x.diverge(fmt.Sprintf("height %d: application hashes differ between a node with crashes/mempool/query traffic and a plain replica: %x / %x", x.C.Height, appHash, h2))
	}
	x.Stats["twin-blocks"]++
	ns.blk = nil
	ns.restarted = false
}

func (x *Exec) nodeCrash() string {
	ns := x.Node
	where := "idle"
	if x.C.InBlock {
		where = "in-block"
	}
	x.Stats["crash:"+where]++
	if ns != nil && ns.conc != nil {
		ns.conc.pause()
	}
	x.C.Restart()
	if ns != nil && ns.conc != nil {
		ns.conc.resume(x.C)
	}
	if ns != nil {
		ns.blk = nil
		ns.crashes++
		ns.restarted = true
		if ns.committedStores != nil {
			now := x.C.customStores()
			nd := 0
			for k, v := range ns.committedStores {
				if now[k] != v {
					nd++
				}
			}
			for k := range now {
				if _, ok := ns.committedStores[k]; !ok {
					nd++
				}
			}
			if nd > 0 {
				x.Flag("C10-restart-state", fmt.Sprintf("after the restart %d entries of the AOL/DID/PNFT stores differ from the state of the last Commit (height %d)", nd, x.C.Height))
			}
		}
		if want, ok := ns.hashes[x.C.Height]; ok {
			if got := x.C.App.LastCommitID().Hash; !bytes.Equal(got, want) {
				x.Flag("C10-restart-hash", fmt.Sprintf("after the restart the application hash at height %d is %x, Commit had returned %x", x.C.Height, got, want))
			}
		}
		var last int64
		for h := range ns.hashes {
			if h > last {
				last = h
			}
		}
		if last != 0 && x.C.Height != last {
			x.Flag("C10-restart-height", fmt.Sprintf("after the restart the node is at height %d, the last Commit was height %d", x.C.Height, last))
		}
	}
	return fmt.Sprintf("H %d", x.C.Height)
}

// ---------------------------------------------------------------------------------------------------
// background readers (C20)

type concurrent struct {
	mu      sync.RWMutex // held for reading by every query; for writing only while the application object is swapped
	app     atomic.Pointer[Chain]
	stop    chan struct{}
	wg      sync.WaitGroup
	queries int64
	errs    chan string
	reqs    []concReq
	latestMu sync.Mutex
	latest   []latestObs
	fixedMu  sync.Mutex
	fixedAns map[string][][]byte
}

type latestObs struct {
	name   string
	ans    []byte
	lo, hi int64 // the last committed height before and after the call
}

type concReq struct {
	name string
	path string
	data []byte
}

func newConcurrent(c *Chain, reqs []concReq, workers int) *concurrent {
	cc := &concurrent{stop: make(chan struct{}), errs: make(chan string, 64), reqs: reqs, fixedAns: map[string][][]byte{}}
	cc.app.Store(c)
	for w := 0; w < workers; w++ {
		cc.wg.Add(1)
		go cc.worker(uint64(w))
	}
	return cc
}

func (cc *concurrent) pause()          { cc.mu.Lock() }
func (cc *concurrent) resume(c *Chain) { cc.app.Store(c); cc.mu.Unlock() }

func (cc *concurrent) report(s string) {
	select {
	case cc.errs <- s:
	default:
	}
}

func (cc *concurrent) worker(id uint64) {
	defer cc.wg.Done()
	r := NewRNG(7700 + id)
	for {
		select {
		case <-cc.stop:
			return
		default:
		}
		cc.mu.RLock()
		c := cc.app.Load()
		a := c.App
		rq := cc.reqs[r.Intn(len(cc.reqs))]
		latest := a.LastBlockHeight()
		var h int64 // a third each: latest (0), the explicit height that is latest right now, a random earlier height
		switch r.Intn(3) {
		case 1:
			h = latest
		case 2:
			if latest > 1 {
				h = 1 + int64(r.Intn(int(latest)))
			}
		}
		res := a.Query(abci.RequestQuery{Path: rq.path, Data: rq.data, Height: h})
		cc.mu.RUnlock()
		atomic.AddInt64(&cc.queries, 1)
		served := res.Height
		if h != 0 && served != h && res.Code == 0 {
			cc.report(fmt.Sprintf("query %s asked at height %d was served at height %d", rq.name, h, served))
		}
		ans := append([]byte(fmt.Sprintf("%d/%s/", res.Code, res.Codespace)), res.Value...)
		if res.Code != 0 {
			ans = append(ans, []byte(queryErrClass(res))...)
		}
		if served == 0 {
			continue
		}
		if h == 0 {
			// "latest": the answer must be the state of SOME committed height; which one is decided at rest (the
			// height label of a latest query may lag behind the version actually read)
			cc.latestMu.Lock()
			if len(cc.latest) < 20000 {
				cc.latest = append(cc.latest, latestObs{rq.name, ans, latest, a.LastBlockHeight()})
			}
			cc.latestMu.Unlock()
			continue
		}
		// a fixed height: every answer served at height s must be THE answer of height s, no matter what is executing;
		// all distinct answers are kept and judged at rest
		key := fmt.Sprintf("%d|%s", served, rq.name)
		cc.fixedMu.Lock()
		found := false
		for _, a0 := range cc.fixedAns[key] {
			if bytes.Equal(a0, ans) {
				found = true
			}
		}
		if !found && len(cc.fixedAns[key]) < 8 {
			cc.fixedAns[key] = append(cc.fixedAns[key], ans)
		}
		cc.fixedMu.Unlock()
	}
}

func (cc *concurrent) finish(x *Exec) {
	close(cc.stop)
	cc.wg.Wait()
	close(cc.errs)
	for e := range cc.errs {
		x.Flag("C20-snapshot", e)
	}
	c := cc.app.Load()
	n := 0
	rest := map[string][]byte{}
	atRest := func(name string, h int64) []byte {
		k := fmt.Sprintf("%d|%s", h, name)
		if v, ok := rest[k]; ok {
			return v
		}
		for _, rq := range cc.reqs {
			if rq.name == name {
				res := c.App.Query(abci.RequestQuery{Path: rq.path, Data: rq.data, Height: h})
				ans := append([]byte(fmt.Sprintf("%d/%s/", res.Code, res.Codespace)), res.Value...)
				if res.Code != 0 {
					ans = append(ans, []byte(queryErrClass(res))...)
				}
				rest[k] = ans
				return ans
			}
		}
		return nil
	}
	top := c.App.LastBlockHeight()
	// fixed heights: every answer given while blocks were executing must be the at-rest answer of that height.  One
	// deviation is a known defect of the store (finding K6): a read at the then-latest height that iterates takes IAVL's
	// fast-node path, and if a Commit lands between the "is this the latest version" test and the iteration it returns
	// the entries of the NEXT version under the old height.
	for key, answers := range cc.fixedAns {
		parts := strings.SplitN(key, "|", 2)
		var h int64
		fmt.Sscanf(parts[0], "%d", &h)
		want := atRest(parts[1], h)
		for _, a0 := range answers {
			n++
			if bytes.Equal(a0, want) {
				continue
			}
			later := int64(0)
			for g := h + 1; g <= top && g <= h+3; g++ { // usually the very next version; under load a later one
				if bytes.Equal(a0, atRest(parts[1], g)) {
					later = g
					break
				}
			}
			if later != 0 {
				x.Flag("C20-snapshot-iavl-fast-iterator", fmt.Sprintf("query %s at the fixed height %d, served while later heights were being committed, returned the answer of height %d", parts[1], h, later))
			} else {
				x.Flag("C20-snapshot", fmt.Sprintf("query %s at the fixed committed height %d returned, while blocks were executing, an answer that is not the state of that height (nor of the next): %.200q instead of %.200q", parts[1], h, a0, want))
			}
		}
	}
	// latest: the answer must be the state of SOME committed height in the window of the call
	for _, o := range cc.latest {
		ok := false
		for h := o.lo; h <= o.hi+1 && h <= top; h++ {
			if h >= 1 && bytes.Equal(atRest(o.name, h), o.ans) {
				ok = true
				break
			}
		}
		if !ok && o.lo <= top {
			x.Flag("C20-snapshot", fmt.Sprintf("a latest-height query %s, served while the last committed height went from %d to %d, returned an answer that is the state of none of these committed heights: %.200q", o.name, o.lo, o.hi, o.ans))
		}
	}
	x.Stats["conc-latest-checked"] += len(cc.latest)
	x.Stats["conc-queries"] += int(atomic.LoadInt64(&cc.queries))
	x.Stats["conc-rechecked"] += n
}

func concRequests(accts []Acct) []concReq {
	var out []concReq
	add := func(name, path string, m interface{ Marshal() ([]byte, error) }) {
		bz, err := m.Marshal()
		must(err)
		out = append(out, concReq{name, path, bz})
	}
	for i, a := range accts {
		add(fmt.Sprintf("topics-%d", i), "/panacea.aol.v2.Query/Topics", &aoltypes.QueryTopicsRequest{OwnerAddress: a.Addr.String()})
		for _, t := range aolTopicNames[:min(3, len(aolTopicNames))] {
			add(fmt.Sprintf("topic-%d-%s", i, t), "/panacea.aol.v2.Query/Topic", &aoltypes.QueryTopicRequest{OwnerAddress: a.Addr.String(), TopicName: t})
			add(fmt.Sprintf("record-%d-%s", i, t), "/panacea.aol.v2.Query/Record", &aoltypes.QueryRecordRequest{OwnerAddress: a.Addr.String(), TopicName: t, Offset: 0})
		}
		add(fmt.Sprintf("denoms-by-%d", i), "/panacea.pnft.v2.Query/DenomsByOwner", &pnfttypes.QueryDenomsByOwnerRequest{Owner: a.Addr.String()})
	}
	add("denoms", "/panacea.pnft.v2.Query/Denoms", &pnfttypes.QueryDenomsRequest{})
	for i := 0; i < 3; i++ {
		did := didtypes.NewDID(mkDidKey(i).pub)
		add(fmt.Sprintf("did-%d", i), "/panacea.did.v2.Query/DID", &didtypes.QueryDIDRequest{DidBase64: base64Std([]byte(did))})
	}
	return out
}

// ---------------------------------------------------------------------------------------------------
// generator: decorate an inner history

var nodeKind string

func genNodeHistory(r *RNG, nBlocks int) []string {
	var inner []string
	var qpool []string
	k := r.Intn(11)
	switch nodeKind { // -kind: the inner generator is fixed (short single-kind runs in processes of their own)
	case "aol":
		k = 0
	case "pnft":
		k = 5
	case "burn":
		k = 7
	case "did":
		k = 9
	}
	switch {
	case k == 10:
		inner = genAolListHistory(r.Fork(), 4) // genesis-seeded state: the twin imports the same genesis maps in another order
	case k < 5:
		inner = genAolHistory(r.Fork(), nBlocks)
	case k < 7:
		inner = genPnftHistory(r.Fork(), nBlocks)
	case k < 9:
		inner = genBurnHistory(r.Fork(), nBlocks)
	default:
		inner = genDidHistory(r.Fork(), nBlocks)
	}
	// queries seen in the inner history are re-asked at historical heights
	for _, l := range inner {
		if strings.HasPrefix(l, "Q ") {
			qpool = append(qpool, l[2:])
		}
	}
	var out []string
	height := int64(1) // last committed height
	var curBlock string
	inBlock := false
	var txbuf []string
	histQ := func() {
		if len(qpool) == 0 {
			return
		}
		q := qpool[r.Intn(len(qpool))]
		var h int64
		switch r.Intn(6) {
		case 0:
			h = 0
		case 1:
			h = height + 1 + int64(r.Intn(3)) // not committed yet
		default:
			h = 1 + int64(r.Intn(int(height)))
		}
		out = append(out, fmt.Sprintf("QH %d %s", h, q))
	}
	for _, l := range inner {
		f := strings.SplitN(l, " ", 2)
		switch f[0] {
		case "EXPORTIMPORT", "PAGE":
			continue // not part of this profile
		case "BLOCK":
			curBlock, inBlock = l, true
			out = append(out, l)
			if r.Intn(10) == 0 {
				out = append(out, "CRASH", curBlock) // stop right after BeginBlock
			}
		case "TX":
			txbuf = []string{l}
		case "M", "X", "XEND", "SIGMOD":
			if txbuf != nil {
				txbuf = append(txbuf, l)
			} else {
				out = append(out, l)
			}
		case "ENDTX":
			// "ghost" transactions: the effects are computed in a branch that is then discarded — simulated but never
			// delivered, or delivered with a last message that fails — while the inner generator goes on as if they had
			// happened, so later transactions refer to the ghost topics / writers / denoms / tokens
			if gk := r.Intn(12); gk < 2 && len(txbuf) >= 2 {
				if fail := ghostFailingMsg(txbuf[0]); fail != "" {
					if gk == 0 || r.Bool() {
						out = append(out, txbuf...)
						out = append(out, "ENDSIM")
					}
					if gk == 1 {
						out = append(out, txbuf...)
						out = append(out, fail, l)
					}
					txbuf = nil
					continue
				}
			}
			// mempool traffic for this transaction before (or instead of) its delivery
			switch r.Intn(8) {
			case 0:
				out = append(out, txbuf...)
				out = append(out, "ENDCHECK")
			case 1:
				out = append(out, txbuf...)
				out = append(out, "ENDSIM")
			case 2:
				out = append(out, txbuf...)
				out = append(out, "ENDCHECK")
				txbuf = nil
				continue // checked but never delivered
			}
			out = append(out, txbuf...)
			out = append(out, l)
			txbuf = nil
			if r.Intn(5) == 0 {
				histQ()
			}
			if inBlock && r.Intn(14) == 0 { // stop after a prefix of the block's transactions
				out = append(out, "CRASH", "DUMP aol", "DUMP pnft", "DUMP did", curBlock)
			}
		case "ENDBLOCK":
			if r.Intn(12) == 0 { // stop after the last transaction, before EndBlock/Commit: the block is lost
				out = append(out, "CRASH", "DUMP aol", "DUMP pnft", "DUMP did")
				inBlock = false
				histQ()
				continue
			}
			out = append(out, l)
			inBlock = false
			height++
			if r.Intn(6) == 0 { // stop right after Commit
				out = append(out, "CRASH", "DUMP aol", "DUMP pnft", "DUMP did")
			}
			if r.Intn(2) == 0 {
				histQ()
			}
		default:
			out = append(out, l)
		}
	}
	return out
}

func timeUnixNano(n int64) time.Time { return time.Unix(0, n).UTC() }

// ghostFailingMsg: a message that passes validation, is signed by the first signer of the transaction, and always fails
// in its handler (delete a writer of a topic nobody has)
func ghostFailingMsg(txLine string) string {
	f := strings.Split(txLine, " ")
	if len(f) < 3 || f[2] == "-" {
		return ""
	}
	first := strings.Split(f[2], ",")[0]
	for i := 0; i < 8; i++ {
		if ac := mkAcct(i); fmt.Sprintf("%x", []byte(ac.Addr)) == first {
			return "M " + joinSp("aol.DeleteWriter", toks("zz-no-such-topic"), toks(ac.Addr.String()), toks(ac.Addr.String()))
		}
	}
	return ""
}

// twinQuery asks the never-stopped, traffic-free replica the same question (same height): replicas must agree on every
// query answer at every height
func (x *Exec) twinQuery(f []string, ans string) {
	if x.Node == nil || x.Node.twin == nil || x.C.InBlock || x.Node.twin.Height != x.C.Height {
		return
	}
	main := x.C
	x.C = x.Node.twin
	tans := x.query(f)
	x.C = main
	x.Stats["twin-queries"]++
	if tans != ans {
		x.diverge(fmt.Sprintf("query %s at height %d (asked at %d): the node answers %.120q, a replica that saw only the committed blocks answers %.120q", f[1], x.qHeight, x.C.Height, ans, tans))
	}
}
