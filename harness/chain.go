package main

// Chain: drives the real panacea application in-process through ABCI
// (InitChain / BeginBlock / DeliverTx / EndBlock / Commit / Query) with real signatures and real stores.

import (
	storetypes "github.com/cosmos/cosmos-sdk/store/types"
	txtypes "github.com/cosmos/cosmos-sdk/types/tx"
	"bytes"
	"encoding/json"
	"fmt"
	"os"
	"regexp"
	"strconv"
	"strings"
	"time"

	dbm "github.com/cometbft/cometbft-db"
	abci "github.com/cometbft/cometbft/abci/types"
	"github.com/cometbft/cometbft/libs/log"
	tmproto "github.com/cometbft/cometbft/proto/tendermint/types"
	tmtypes "github.com/cometbft/cometbft/types"
	"github.com/cosmos/cosmos-sdk/baseapp"
	"github.com/cosmos/cosmos-sdk/client"
	codectypes "github.com/cosmos/cosmos-sdk/codec/types"
	cryptotypes "github.com/cosmos/cosmos-sdk/crypto/types"
	sdked25519 "github.com/cosmos/cosmos-sdk/crypto/keys/ed25519"
	"github.com/cosmos/cosmos-sdk/crypto/keys/secp256k1"
	"github.com/cosmos/cosmos-sdk/testutil/mock"
	simtestutil "github.com/cosmos/cosmos-sdk/testutil/sims"
	sdk "github.com/cosmos/cosmos-sdk/types"
	"github.com/cosmos/cosmos-sdk/types/module"
	"github.com/cosmos/cosmos-sdk/types/tx/signing"
	authsigning "github.com/cosmos/cosmos-sdk/x/auth/signing"
	authtypes "github.com/cosmos/cosmos-sdk/x/auth/types"
	"github.com/cosmos/cosmos-sdk/x/authz"
	banktypes "github.com/cosmos/cosmos-sdk/x/bank/types"
	"github.com/medibloc/panacea-core/v2/app"
	aoltypes "github.com/medibloc/panacea-core/v2/x/aol/types"
)

const chainID = "verif-1"

type Acct struct {
	Priv cryptotypes.PrivKey
	Addr sdk.AccAddress
}

type Chain struct {
	App     *app.App
	DB      dbm.DB
	Home    string
	Accts   []Acct
	Height  int64
	Time    time.Time
	InBlock bool
	Genesis []byte
	LastExport []byte
	ValSet  *tmtypes.ValidatorSet
}

// deterministic accounts
func mkAcct(i int) Acct {
	seed := []byte(fmt.Sprintf("verif-account-%d", i))
	priv := secp256k1.GenPrivKeyFromSecret(seed)
	return Acct{Priv: priv, Addr: sdk.AccAddress(priv.PubKey().Address())}
}

type GenBalance struct {
	Addr  sdk.AccAddress
	Coins sdk.Coins
}

func newApp(db dbm.DB, home string) *app.App {
	return app.New(log.NewNopLogger(), db, nil, true, simtestutil.NewAppOptionsWithFlagHome(home), baseapp.SetChainID(chainID))
}

// NewChain builds a fresh application with nAccts funded accounts and runs InitChain + first Commit.
// customGenesis may override module genesis JSON (module name -> raw JSON).
func NewChain(nAccts int, balances []GenBalance, customGenesis map[string]json.RawMessage, genesisTime time.Time) *Chain {
	home, err := os.MkdirTemp("", "hx-home-")
	must(err)
	db := dbm.NewMemDB()
	a := newApp(db, home)
	c := &Chain{App: a, DB: db, Home: home, Time: genesisTime}
	for i := 0; i < nAccts; i++ {
		c.Accts = append(c.Accts, mkAcct(i))
	}
	// one validator with a fixed key
	pv := mock.PV{PrivKey: sdked25519.GenPrivKeyFromSecret([]byte("verif-validator-0"))}
	pub, err := pv.GetPubKey()
	must(err)
	val := tmtypes.NewValidator(pub, 1)
	c.ValSet = tmtypes.NewValidatorSet([]*tmtypes.Validator{val})
	var genAccs []authtypes.GenesisAccount
	var bals []banktypes.Balance
	for i, ac := range c.Accts {
		genAccs = append(genAccs, authtypes.NewBaseAccount(ac.Addr, ac.Priv.PubKey(), uint64(i), 0))
	}
	seen := map[string]bool{}
	for _, b := range balances {
		bals = append(bals, banktypes.Balance{Address: b.Addr.String(), Coins: b.Coins})
		seen[b.Addr.String()] = true
	}
	gs := a.DefaultGenesis()
	gs, err = simtestutil.GenesisStateWithValSet(a.AppCodec(), gs, c.ValSet, genAccs, bals...)
	must(err)
	for k, v := range customGenesis {
		gs[k] = v
	}
	stateBytes, err := json.MarshalIndent(gs, "", " ")
	must(err)
	c.Genesis = stateBytes
	a.InitChain(abci.RequestInitChain{
		ChainId:         chainID,
		Validators:      []abci.ValidatorUpdate{},
		ConsensusParams: simtestutil.DefaultConsensusParams,
		AppStateBytes:   stateBytes,
		Time:            genesisTime,
		InitialHeight:   1,
	})
	a.Commit()
	c.Height = 1
	return c
}

// customStores is the raw content of the three custom stores, without the zero supply counters x/nft leaves behind
// (invisible to every keeper read and never re-created by an import)
func (c *Chain) customStores() map[string]string {
	out := map[string]string{}
	for _, name := range []string{"aol", "did", "pnft"} {
		for _, kv := range c.DumpStore(name) {
			if name == "pnft" && len(kv[0]) > 0 && kv[0][0] == 0x05 && isZeroUvarint(kv[1]) {
				continue
			}
			out[name+"/"+string(kv[0])] = string(kv[1])
		}
	}
	return out
}

func isZeroUvarint(v []byte) bool {
	for _, b := range v {
		if b != 0 {
			return false
		}
	}
	return true
}

type eiFinding struct{ Clause, Detail string }

var customModules = []string{"aol", "did", "pnft", "burn"}

// ExportImport exports the application state, validates the custom modules' genesis, and continues on a
// fresh application (new DB) initialised from the exported state.  Returns "X ok" | "X invalid <module>" | "X panic <stage>",
// and what the implementation alone shows about C08: a second export of the same state, the state before and after,
// the export of the imported chain.
func (c *Chain) ExportImport() (result string, fs []eiFinding) {
	stage := "export"
	sfx := ""
	defer func() {
		if r := recover(); r != nil {
			result = "X panic " + stage
			clause := "C08-panic" + sfx
			if strings.Contains(fmt.Sprint(r), "expiration must be after the current block time") {
				// cosmos-sdk x/authz: BeginBlock keeps a grant that expires exactly at the block time, ExportGenesis writes
				// it out and InitGenesis at that time refuses it with a panic (known finding K7)
				clause = "C08-panic-sdk-authz-grant-expiring-now"
			}
			fs = append(fs, eiFinding{clause, fmt.Sprintf("genesis %s panicked: %v", stage, r)})
		}
	}()
	before := c.customStores()
	exported, err := c.App.ExportAppStateAndValidators(false, nil, nil)
	if err != nil {
		return "X invalid export", []eiFinding{{"C08-export-error", err.Error()}}
	}
	again, err := c.App.ExportAppStateAndValidators(false, nil, nil)
	if err != nil || !bytes.Equal(again.AppState, exported.AppState) {
		fs = append(fs, eiFinding{"C08-export-unstable", "exporting the same state twice gave different bytes"})
	}
	var gs map[string]json.RawMessage
	must(json.Unmarshal(exported.AppState, &gs))
	for _, m := range customModules {
		// json.Marshal writes the escape \ufffd only for bytes that are not valid UTF-8 (a literal U+FFFD is written as is)
		if bytes.Contains(gs[m], []byte(`\ufffd`)) {
			sfx = "-invalid-utf8"
		}
	}
	stage = "validate"
	enc := app.MakeEncodingConfig()
	for _, m := range customModules {
		for _, b := range app.ModuleBasics {
			if hg, ok := b.(module.HasGenesisBasics); ok && b.Name() == m {
				if err := hg.ValidateGenesis(enc.Codec, enc.TxConfig, gs[m]); err != nil {
					esfx := ""
					if sfx != "" && (strings.Contains(err.Error(), "description") || strings.Contains(err.Error(), "moniker")) {
						esfx = sfx // K3: a coerced text grew beyond its limit; any other validation failure is not explained by it
					}
					fs = append(fs, eiFinding{"C08-export-invalid" + esfx, fmt.Sprintf("the exported %s genesis fails its own validation: %v", m, err)})
					return "X invalid " + m, fs
				}
			}
		}
	}
	stage = "import"
	home, err := os.MkdirTemp("", "hx-home-")
	must(err)
	db := dbm.NewMemDB()
	a := newApp(db, home)
	a.InitChain(abci.RequestInitChain{
		ChainId:         chainID,
		Validators:      []abci.ValidatorUpdate{},
		ConsensusParams: exported.ConsensusParams,
		AppStateBytes:   exported.AppState,
		Time:            c.Time,
		InitialHeight:   exported.Height,
	})
	a.Commit()
	os.RemoveAll(c.Home)
	c.App, c.DB, c.Home = a, db, home
	c.Height = exported.Height
	c.LastExport = exported.AppState
	stage = "re-export"
	after := c.customStores()
	nd := 0
	var first string
	for k, v := range before {
		if w, ok := after[k]; !ok || w != v {
			nd++
			if first == "" || k < first {
				first = k
			}
		}
	}
	for k := range after {
		if _, ok := before[k]; !ok {
			nd++
			if first == "" || k < first {
				first = k
			}
		}
	}
	if nd > 0 {
		fs = append(fs, eiFinding{"C08-roundtrip" + sfx, fmt.Sprintf("%d store entries of the custom modules differ after export + import (first key %s/%x)", nd, strings.SplitN(first, "/", 2)[0], strings.SplitN(first, "/", 2)[1])})
	}
	re, err := c.App.ExportAppStateAndValidators(false, nil, nil)
	if err != nil {
		fs = append(fs, eiFinding{"C08-reexport", "the imported chain cannot be exported: " + err.Error()})
		return "X ok", fs
	}
	var gs2 map[string]json.RawMessage
	must(json.Unmarshal(re.AppState, &gs2))
	for _, m := range customModules {
		if !bytes.Equal(gs[m], gs2[m]) {
			fs = append(fs, eiFinding{"C08-reexport" + sfx, fmt.Sprintf("the %s genesis exported by the imported chain differs from the genesis it was initialised from (%d vs %d bytes)", m, len(gs2[m]), len(gs[m]))})
		}
	}
	return "X ok", fs
}

func (c *Chain) Close() {
	os.RemoveAll(c.Home)
}

func (c *Chain) header() tmproto.Header {
	return tmproto.Header{ChainID: chainID, Height: c.Height, Time: c.Time,
		ValidatorsHash: c.ValSet.Hash(), NextValidatorsHash: c.ValSet.Hash(),
		ProposerAddress: c.ValSet.Validators[0].Address}
}

func (c *Chain) BeginBlock(t time.Time) {
	c.Height++
	c.Time = t
	c.App.BeginBlock(abci.RequestBeginBlock{Header: c.header()})
	c.InBlock = true
}

func (c *Chain) EndBlockCommit() []byte {
	c.App.EndBlock(abci.RequestEndBlock{Height: c.Height})
	res := c.App.Commit()
	c.InBlock = false
	return res.Data
}

// Ctx returns a context on the deliver state (inside a block) or on the last committed state.
func (c *Chain) Ctx() sdk.Context {
	// a private gas meter: the deliver state's own meter is observable (GasUsed of transactions refused before the
	// ante handler), so the harness must not consume gas on it
	return c.App.NewContext(!c.InBlock, c.header()).WithGasMeter(sdk.NewInfiniteGasMeter())
}

func (c *Chain) acctByAddr(a sdk.AccAddress) *Acct {
	for i := range c.Accts {
		if c.Accts[i].Addr.Equals(a) {
			return &c.Accts[i]
		}
	}
	return nil
}

// BuildTx signs msgs with the given accounts (in this order), using each account's current number/sequence.
func (c *Chain) BuildTx(msgs []sdk.Msg, signers []sdk.AccAddress, fee sdk.Coins, mode signing.SignMode) (bz []byte, err error) {
	return c.buildTxMemo(msgs, signers, fee, mode, "")
}

func (c *Chain) buildTxMemo(msgs []sdk.Msg, signers []sdk.AccAddress, fee sdk.Coins, mode signing.SignMode, memo string) (bz []byte, err error) {
	defer func() {
		if r := recover(); r != nil {
			err = fmt.Errorf("panic while building tx: %v", r)
		}
	}()
	txCfg := c.App.TxConfig()
	b := txCfg.NewTxBuilder()
	if err := b.SetMsgs(msgs...); err != nil {
		return nil, err
	}
	b.SetGasLimit(50_000_000)
	b.SetFeeAmount(fee)
	b.SetMemo(memo)
	ctx := c.Ctx()
	type si struct {
		acct *Acct
		num  uint64
		seq  uint64
	}
	var infos []si
	for _, s := range signers {
		ac := c.acctByAddr(s)
		if ac == nil {
			return nil, fmt.Errorf("no key for signer %s", s)
		}
		var num, seq uint64
		if a := c.App.AccountKeeper.GetAccount(ctx, s); a != nil {
			num, seq = a.GetAccountNumber(), a.GetSequence()
		}
		infos = append(infos, si{ac, num, seq})
	}
	var sigs []signing.SignatureV2
	for _, in := range infos {
		sigs = append(sigs, signing.SignatureV2{PubKey: in.acct.Priv.PubKey(),
			Data: &signing.SingleSignatureData{SignMode: mode}, Sequence: in.seq})
	}
	if err := b.SetSignatures(sigs...); err != nil {
		return nil, err
	}
	sigs = nil
	for _, in := range infos {
		sd := authsigning.SignerData{Address: in.acct.Addr.String(), ChainID: chainID, AccountNumber: in.num,
			Sequence: in.seq, PubKey: in.acct.Priv.PubKey()}
		sig, err := clientSign(txCfg, mode, sd, b, in.acct.Priv, in.seq)
		if err != nil {
			return nil, err
		}
		sigs = append(sigs, sig)
	}
	if err := b.SetSignatures(sigs...); err != nil {
		return nil, err
	}
	return txCfg.TxEncoder()(b.GetTx())
}

// modifySignatures replaces the signatures of an encoded transaction by signatures that were NOT made over it
func (c *Chain) modifySignatures(bz []byte, cur *TxInfo, mode signing.SignMode) ([]byte, error) {
	var raw txtypes.TxRaw
	if err := raw.Unmarshal(bz); err != nil {
		return nil, err
	}
	switch cur.SigMod {
	case "otherbody":
		var body txtypes.TxBody
		if err := body.Unmarshal(raw.BodyBytes); err != nil {
			return nil, err
		}
		// sign the same messages with another memo, keep those signatures, put them on the original body
		other, err := c.buildTxMemo(cur.Top, cur.Signers, cur.Fee, mode, body.Memo+"#other")
		if err != nil {
			return nil, err
		}
		var raw2 txtypes.TxRaw
		if err := raw2.Unmarshal(other); err != nil {
			return nil, err
		}
		raw.Signatures = raw2.Signatures
	default: // corrupt
		for i := range raw.Signatures {
			if n := len(raw.Signatures[i]); n > 0 {
				raw.Signatures[i] = append([]byte{}, raw.Signatures[i]...)
				raw.Signatures[i][n-1] ^= 0x01
			}
		}
	}
	return raw.Marshal()
}

func clientSign(txCfg client.TxConfig, mode signing.SignMode, sd authsigning.SignerData, b client.TxBuilder, priv cryptotypes.PrivKey, seq uint64) (signing.SignatureV2, error) {
	signBytes, err := txCfg.SignModeHandler().GetSignBytes(mode, sd, b.GetTx())
	if err != nil {
		return signing.SignatureV2{}, err
	}
	sig, err := priv.Sign(signBytes)
	if err != nil {
		return signing.SignatureV2{}, err
	}
	return signing.SignatureV2{PubKey: priv.PubKey(), Data: &signing.SingleSignatureData{SignMode: mode, Signature: sig}, Sequence: seq}, nil
}

var reMsgIndex = regexp.MustCompile(`message index: (\d+)`)

// anteCodes: failures of the ante handler that the model reports as one class ("R ante")
var anteCodes = map[uint32]bool{4: true, 5: true, 8: true, 9: true, 13: true, 15: true, 32: true, 11: true}

// canonResult maps a DeliverTx response to the canonical result line shared with the model.
func (c *Chain) canonResult(res abci.ResponseDeliverTx) string {
	if res.Code == 0 {
		parts := []string{"R", "ok"}
		var data sdk.TxMsgData
		if err := c.App.AppCodec().Unmarshal(res.Data, &data); err == nil {
			parts = append(parts, c.acksOf(data.MsgResponses)...)
		}
		return strings.Join(parts, " ")
	}
	if res.Codespace == "undefined" && res.Code == 111222 {
		return "R panic"
	}
	if m := reMsgIndex.FindStringSubmatch(res.Log); m != nil {
		return fmt.Sprintf("R msg %s %s %d", m[1], res.Codespace, res.Code)
	}
	if res.Codespace == "sdk" && res.Code == 9 && (strings.Contains(res.Log, "address max length") || strings.Contains(res.Log, "addresses cannot be empty")) {
		return "R vb undefined 1" // see vbAnswer: unwrapped address-format errors are one class with unwrapped bech32 errors
	}
	if res.Codespace == "sdk" && anteCodes[res.Code] {
		return "R ante"
	}
	return fmt.Sprintf("R vb %s %d", res.Codespace, res.Code)
}

func (c *Chain) acksOf(anys []*codectypes.Any) []string {
	var out []string
	for _, any := range anys {
		switch any.TypeUrl {
		case "/panacea.aol.v2.MsgAddRecordResponse":
			var r aoltypes.MsgAddRecordResponse
			if err := c.App.AppCodec().Unmarshal(any.Value, &r); err == nil {
				out = append(out, strconv.FormatUint(r.Offset, 10))
			}
		case "/cosmos.authz.v1beta1.MsgExecResponse":
			var r authz.MsgExecResponse
			if err := c.App.AppCodec().Unmarshal(any.Value, &r); err == nil {
				for _, inner := range r.Results {
					// inner results are the marshalled responses without type information; an
					// AddRecord response is recognised by decoding (owner, topic, offset)
					var ar aoltypes.MsgAddRecordResponse
					if err := c.App.AppCodec().Unmarshal(inner, &ar); err == nil && ar.OwnerAddress != "" && ar.TopicName != "" {
						out = append(out, strconv.FormatUint(ar.Offset, 10))
					}
				}
			}
		}
	}
	return out
}

func (c *Chain) Deliver(txBytes []byte) abci.ResponseDeliverTx {
	return c.App.DeliverTx(abci.RequestDeliverTx{Tx: txBytes})
}

// Query runs an ABCI gRPC query against the last committed state (height 0) or a given height.
func (c *Chain) Query(path string, req interface{ Marshal() ([]byte, error) }, height int64) abci.ResponseQuery {
	bz, err := req.Marshal()
	must(err)
	return c.App.Query(abci.RequestQuery{Path: path, Data: bz, Height: height})
}

// grpc status code from an ABCI query error: baseapp maps gRPC status errors through sdkerrors.
// InvalidArgument -> sdk/18 (invalid request), NotFound -> sdk/38? — we read the text instead.
func queryErrClass(res abci.ResponseQuery) string {
	if res.Codespace == "undefined" && res.Code == 111222 {
		return "Q panic"
	}
	l := res.Log
	switch {
	case strings.Contains(l, "code = InvalidArgument"):
		return "Q err 3"
	case strings.Contains(l, "code = NotFound"):
		return "Q err 5"
	case strings.Contains(l, "code = Internal"):
		return "Q err 13"
	}
	return fmt.Sprintf("Q err ? %s/%d %s", res.Codespace, res.Code, strings.ReplaceAll(l, "\n", " "))
}

// DumpStore returns the raw key/value pairs of a module store (deliver state inside a block).
func (c *Chain) DumpStore(name string) [][2][]byte {
	ctx := c.Ctx()
	var key storetypes.StoreKey
	if k := c.App.GetKey(name); k != nil {
		key = k
	} else if mk := c.App.GetMemKey(name); mk != nil {
		key = mk // (a module store mounted as a memory store: still readable, but it will not survive a restart)
	} else {
		return nil
	}
	st := ctx.KVStore(key)
	it := st.Iterator(nil, nil)
	defer it.Close()
	var out [][2][]byte
	for ; it.Valid(); it.Next() {
		k := append([]byte{}, it.Key()...)
		v := append([]byte{}, it.Value()...)
		out = append(out, [2][]byte{k, v})
	}
	return out
}
