package main

// Profile "pnft": histories over the seven PNFT messages; monitors for C06 (authorisation, ownership
// changes) and C12 (unique, immutable, isolated, consistently indexed).

import (
	"bytes"
	"fmt"
	"sort"
	"strings"

	sdk "github.com/cosmos/cosmos-sdk/types"
	"github.com/cosmos/cosmos-sdk/x/nft"
	nftkeeper "github.com/cosmos/cosmos-sdk/x/nft/keeper"
	pnfttypes "github.com/medibloc/panacea-core/v2/x/pnft/types"
)

type pnftGen struct {
	r       *RNG
	lines   []string
	accts   []Acct
	dOwner  map[string]int    // guessed denom owner (account index)
	tOwner  map[string]int    // guessed token owner, key denom+"\x01"+id
	creator map[string]int
	now     int64
	warm    bool
	tCreator map[string]int // who minted the token (may no longer own it)
	tPrev    map[string]int // the previous owner of the token
}

var pnftDenomIds = []string{"a", "ab", "b", "a/b", "A"}
var pnftOddIds = []string{"a\x00b", "", "a\x00", "\x00"}
var pnftK3Ids = []string{"\xff", "\xfe", "a\xff"}
var pnftTokenIds = []string{"x", "xy", "y", "c", "b\x00c"}

func (g *pnftGen) add(format string, a ...any) { g.lines = append(g.lines, fmt.Sprintf(format, a...)) }
func (g *pnftGen) addr(i int) string           { return g.accts[i].Addr.String() }

func (g *pnftGen) denomID() string {
	if g.r.Chance(93) {
		return pick(g.r, pnftDenomIds)
	}
	if genK3 && g.r.Chance(40) {
		return pick(g.r, pnftK3Ids)
	}
	return pick(g.r, pnftOddIds)
}
func (g *pnftGen) tokenID() string {
	if g.r.Chance(93) {
		return pick(g.r, pnftTokenIds[:4])
	}
	return pick(g.r, []string{"b\x00c", "", "x\x00"})
}

func (g *pnftGen) opt(vals ...string) string {
	if g.r.Chance(40) {
		return ""
	}
	if g.r.Chance(4) && genK3 {
		return pick(g.r, []string{"\xff", "n\xc3", "\xed\xa0\x80"}) // not UTF-8 (K3)
	}
	return pick(g.r, vals)
}

// actor: usually the tracked owner, otherwise somebody else (former owner, creator, stranger)
func (g *pnftGen) actor(owner int, known bool) int {
	if known && (g.warm || g.r.Chance(80)) {
		return owner
	}
	return g.r.Intn(len(g.accts))
}

func (g *pnftGen) msg() (string, int) {
	k := g.r.Intn(100)
	if g.warm { // early blocks: create denoms, mint tokens
		if len(g.dOwner) < 3 {
			k = 0
		} else {
			k = 50
		}
	}
	switch {
	case k < 18:
		id := g.denomID()
		if g.warm {
			id = pnftDenomIds[len(g.dOwner)%len(pnftDenomIds)]
		}
		c := g.r.Intn(len(g.accts))
		if _, ok := g.dOwner[id]; !ok {
			g.dOwner[id], g.creator[id] = c, c
		}
		name, symbol := "Name", "SYM"
		if !g.warm && g.r.Chance(5) {
			name = ""
		}
		if !g.warm && g.r.Chance(5) {
			symbol = ""
		}
		return joinSp("pnft.CreateDenom", toks(id), toks(name), toks(symbol), toks(g.opt("desc")), toks(g.opt("uri")), toks(g.opt("hash")), toks(g.addr(c)), toks(g.opt("data"))), c
	case k < 26:
		id := g.denomID()
		o, ok := g.dOwner[id]
		a := g.actor(o, ok)
		return joinSp("pnft.UpdateDenom", toks(id), toks(g.opt("N2")), toks(g.opt("S2")), toks(g.opt("d2")), toks(g.opt("u2")), toks(g.opt("h2")), toks(g.addr(a)), toks(g.opt("x2"))), a
	case k < 32:
		id := g.denomID()
		o, ok := g.dOwner[id]
		a := g.actor(o, ok)
		if ok && a == o && g.r.Chance(50) {
			delete(g.dOwner, id)
		}
		return joinSp("pnft.DeleteDenom", toks(id), toks(g.addr(a))), a
	case k < 42:
		id := g.denomID()
		o, ok := g.dOwner[id]
		a := g.actor(o, ok)
		to := g.r.Intn(len(g.accts))
		if ok && a == o {
			g.dOwner[id] = to
		}
		return joinSp("pnft.TransferDenom", toks(id), toks(g.addr(a)), toks(g.addr(to))), a
	case k < 68:
		d := g.denomID()
		if len(g.dOwner) > 0 && g.r.Chance(80) {
			d = pick(g.r, sortedKeys(g.dOwner))
		}
		id := g.tokenID()
		o, ok := g.dOwner[d]
		a := g.actor(o, ok)
		if g.r.Chance(10) {
			if c, ok2 := g.creator[d]; ok2 {
				a = c // the original creator, perhaps no longer the owner
			}
		}
		key := d + "\x01" + id
		if _, exists := g.tOwner[key]; !exists && ok && a == o {
			g.tOwner[key] = a
			g.tCreator[key] = a
		}
		name := "tok"
		if g.r.Chance(4) {
			name = ""
		}
		return joinSp("pnft.Mint", toks(d), toks(id), toks(name), toks(g.opt("td")), toks(g.opt("tu")), toks(g.opt("th")), toks(g.opt("tdata")), toks(g.addr(a))), a
	case k < 88:
		d, id := g.someToken()
		o, ok := g.tOwner[d+"\x01"+id]
		a := g.tokenActor(d, id, o, ok)
		to := g.r.Intn(len(g.accts))
		if ok && a == o {
			g.tPrev[d+"\x01"+id] = o
			g.tOwner[d+"\x01"+id] = to
		}
		return joinSp("pnft.Transfer", toks(d), toks(id), toks(g.addr(a)), toks(g.addr(to))), a
	default:
		d, id := g.someToken()
		o, ok := g.tOwner[d+"\x01"+id]
		a := g.tokenActor(d, id, o, ok)
		if ok && a == o {
			delete(g.tOwner, d+"\x01"+id)
		}
		return joinSp("pnft.Burn", toks(d), toks(id), toks(g.addr(a))), a
	}
}

// tokenActor: the current owner most of the time; otherwise preferably somebody with a plausible but wrong claim — the
// account that minted the token, its previous owner, the owner of the denom — or a stranger
func (g *pnftGen) tokenActor(d, id string, owner int, known bool) int {
	if !known || g.warm || g.r.Chance(65) {
		return g.actor(owner, known)
	}
	key := d + "\x01" + id
	var cands []int
	if c, ok := g.tCreator[key]; ok && c != owner {
		cands = append(cands, c, c)
	}
	if p, ok := g.tPrev[key]; ok && p != owner {
		cands = append(cands, p)
	}
	if do, ok := g.dOwner[d]; ok && do != owner {
		cands = append(cands, do)
	}
	if len(cands) == 0 {
		return g.actor(owner, known)
	}
	return cands[g.r.Intn(len(cands))]
}

func (g *pnftGen) someToken() (string, string) {
	if len(g.tOwner) > 0 && g.r.Chance(85) {
		k := pick(g.r, sortedKeys(g.tOwner))
		p := strings.SplitN(k, "\x01", 2)
		return p[0], p[1]
	}
	return g.denomID(), g.tokenID()
}

func genPnftHistory(r *RNG, nBlocks int) []string {
	g := &pnftGen{r: r, dOwner: map[string]int{}, tOwner: map[string]int{}, creator: map[string]int{}, tCreator: map[string]int{}, tPrev: map[string]int{}, now: 1700000100_000000000}
	for i := 0; i < 4; i++ {
		g.accts = append(g.accts, mkAcct(i))
	}
	g.add("# GENESIS %d %s", 4, "1000000000000")
	for b := 0; b < nBlocks; b++ {
		g.now += int64(1+r.Intn(5)) * 1_000_000_000
		g.add("BLOCK %d", g.now)
		g.warm = b < 3
		for t := 0; t < 1+r.Intn(4); t++ {
			nMsg := 1
			if r.Chance(20) {
				nMsg = 2
			}
			var mlines []string
			var need []int
			for m := 0; m < nMsg; m++ {
				if r.Chance(8) { // through authz
					ml, a := g.msg()
					grantee := r.Intn(len(g.accts))
					if r.Chance(50) { // preceded by the matching grant in the same transaction
						url := "/panacea.pnft.v2.Msg" + strings.TrimPrefix(strings.Split(ml, " ")[0], "pnft.") + "Request"
						url = strings.Replace(url, "MsgMintRequest", "MsgMintPNFTRequest", 1)
						url = strings.Replace(url, "MsgTransferRequest", "MsgTransferPNFTRequest", 1)
						url = strings.Replace(url, "MsgBurnRequest", "MsgBurnPNFTRequest", 1)
						mlines = append(mlines, "M "+joinSp("authz.Grant", toks(g.addr(a)), toks(g.addr(grantee)), toks(url), "-"))
						need = append(need, a)
					}
					mlines = append(mlines, "X "+toks(g.addr(grantee)), "M "+ml, "XEND")
					need = append(need, grantee)
				} else {
					ml, a := g.msg()
					mlines = append(mlines, "M "+ml)
					need = append(need, a)
				}
			}
			var sg []string
			seen := map[int]bool{}
			for _, i := range need {
				if !seen[i] {
					seen[i] = true
					sg = append(sg, fmt.Sprintf("%x", []byte(g.accts[i].Addr)))
				}
			}
			if r.Chance(6) {
				sg = []string{fmt.Sprintf("%x", []byte(g.accts[r.Intn(len(g.accts))].Addr))}
			}
			g.add("TX %s %s", toks(feeDenom)+":100", strings.Join(sg, ","))
			g.lines = append(g.lines, mlines...)
			g.add("ENDTX")
		}
		g.add("ENDBLOCK")
		if r.Chance(10) {
			g.add("EXPORTIMPORT")
		}
		g.add("DUMP pnft")
		for q := 0; q < 3; q++ {
			d, id := g.someToken()
			switch r.Intn(6) {
			case 0:
				g.add("Q pnft.Denom %s", toks(g.denomID()))
			case 1:
				g.add("Q pnft.PNFT %s %s", toks(d), toks(id))
			case 2:
				g.add("Q pnft.PNFTs %s", toks(g.denomID()))
			case 3:
				g.add("Q pnft.ByOwner %s %s", toks(d), toks(pick(r, []string{g.addr(r.Intn(4)), g.addr(r.Intn(4)), "bad"})))
			case 4:
				g.add("Q pnft.DenomsByOwner %s", toks(pick(r, []string{g.addr(r.Intn(4)), g.addr(r.Intn(4)), "nobody", ""})))
			default:
				g.add("Q pnft.Denoms %s", pick(r, []string{"nopage", "nil 0 2 1 0", "nil 1 1 0 1", "nil 0 0 0 0"}))
			}
		}
	}
	return g.lines
}

// ---------------------------------------------------------------------------------------------------
type pnftMonitor struct {
	before  string
	minted  map[string]string // store key hex -> immutable part of the token as acknowledged
	burned  map[string]bool
	dOwner  map[string]string // owners read before the transaction
	tOwner  map[string]string
	grants  map[string]bool
}

func newPnftMonitor() *pnftMonitor {
	return &pnftMonitor{minted: map[string]string{}, burned: map[string]bool{}}
}

func (m *pnftMonitor) denomOwner(x *Exec, id string) (string, bool) {
	d, err := x.C.App.PnftKeeper.GetDenom(x.C.Ctx(), id)
	if err != nil {
		return "", false
	}
	return d.Owner, true
}
func (m *pnftMonitor) tokenOwner(x *Exec, d, id string) (string, bool) {
	p, err := x.C.App.PnftKeeper.GetPNFT(x.C.Ctx(), d, id)
	if err != nil {
		return "", false
	}
	return p.Owner, true
}

func (m *pnftMonitor) BeforeTx(x *Exec, tx *TxInfo) {
	m.before = x.dump("pnft")
	m.dOwner, m.tOwner, m.grants = map[string]string{}, map[string]string{}, map[string]bool{}
	for _, pm := range tx.Msgs {
		if !strings.HasPrefix(pm.Kind, "pnft.") {
			continue
		}
		switch pm.Kind {
		case "pnft.CreateDenom", "pnft.UpdateDenom", "pnft.DeleteDenom", "pnft.TransferDenom", "pnft.Mint":
			if o, ok := m.denomOwner(x, pm.Args[0]); ok {
				m.dOwner[pm.Args[0]] = o
			}
		}
		if pm.Kind == "pnft.Transfer" || pm.Kind == "pnft.Burn" {
			if o, ok := m.tokenOwner(x, pm.Args[0], pm.Args[1]); ok {
				m.tOwner[pm.Args[0]+"\x01"+pm.Args[1]] = o
			}
		}
		if pm.InExec {
			if g, err := sdk.AccAddressFromBech32(pm.Exec); err == nil {
				for _, sg := range safeSigners(pm.Msg) {
					m.grants[string(sg)+"|"+string(g)+"|"+sdk.MsgTypeURL(pm.Msg)] = hasGrant(x, sg, g, sdk.MsgTypeURL(pm.Msg))
				}
			}
		}
	}
}

func (m *pnftMonitor) AfterTx(x *Exec, tx *TxInfo, result string) {
	after := x.dump("pnft")
	if !strings.HasPrefix(result, "R ok") {
		if after != m.before {
			x.Flag("C06-refused-noop", "a refused transaction changed the pnft store: "+result)
		}
		return
	}
	touchedDenoms := map[string]bool{}
	touchedTokens := map[string]bool{}
	for _, pm := range tx.Msgs {
		switch pm.Kind {
		case "authz.Grant":
			gr, e1 := sdk.AccAddressFromBech32(pm.Args[0])
			ge, e2 := sdk.AccAddressFromBech32(pm.Args[1])
			if e1 == nil && e2 == nil && authorisedBy(x, tx, pm, pm.Args[0], m.grants) {
				m.grants[string(gr)+"|"+string(ge)+"|"+pm.Args[2]] = true
			}
		case "pnft.CreateDenom":
			if !authorisedBy(x, tx, pm, pm.Args[6], m.grants) {
				x.Flag("C06-actor-signed", "CreateDenom accepted without the creator's authorisation")
			}
			m.dOwner[pm.Args[0]] = pm.Args[6]
			touchedDenoms[pm.Args[0]] = true
		case "pnft.UpdateDenom", "pnft.DeleteDenom", "pnft.TransferDenom":
			actor := pm.Args[1]
			if pm.Kind == "pnft.UpdateDenom" {
				actor = pm.Args[6]
			}
			if o, ok := m.dOwner[pm.Args[0]]; !ok || o != actor {
				x.Flag("C06-denom-owner", fmt.Sprintf("%s accepted from %s although the denom owner is %q", pm.Kind, actor, o))
			}
			if !authorisedBy(x, tx, pm, actor, m.grants) {
				x.Flag("C06-actor-signed", pm.Kind+" accepted without the actor's authorisation")
			}
			if pm.Kind == "pnft.TransferDenom" {
				m.dOwner[pm.Args[0]] = pm.Args[2]
			}
			if pm.Kind == "pnft.DeleteDenom" {
				delete(m.dOwner, pm.Args[0])
			}
			touchedDenoms[pm.Args[0]] = true
		case "pnft.Mint":
			if o, ok := m.dOwner[pm.Args[0]]; !ok || o != pm.Args[7] {
				x.Flag("C06-mint-owner", fmt.Sprintf("Mint accepted from %s although the denom owner is %q", pm.Args[7], o))
			}
			if !authorisedBy(x, tx, pm, pm.Args[7], m.grants) {
				x.Flag("C06-actor-signed", "Mint accepted without the creator's authorisation")
			}
			key := pm.Args[0] + "\x01" + pm.Args[1]
			m.tOwner[key] = pm.Args[7]
			touchedTokens[key] = true
			sk := fmt.Sprintf("%x", append(append(append([]byte{2}, pm.Args[0]...), 0), pm.Args[1]...))
			if _, dup := m.minted[sk]; dup && !m.burned[sk] {
				x.Flag("C12-unique", "a token id was minted twice in one denom (or two (denom, token) pairs share a store entry)")
			}
			m.minted[sk] = strings.Join([]string{toks(pm.Args[0]), toks(pm.Args[1]), toks(pm.Args[2]), toks(pm.Args[3]), toks(pm.Args[4]), toks(pm.Args[5]), toks(pm.Args[6]), toks(pm.Args[7]),
				fmt.Sprint(x.C.Time.UnixNano())}, "/")
			m.burned[sk] = false
		case "pnft.Transfer", "pnft.Burn":
			key := pm.Args[0] + "\x01" + pm.Args[1]
			if o, ok := m.tOwner[key]; !ok || o != pm.Args[2] {
				x.Flag("C06-token-owner", fmt.Sprintf("%s accepted from %s although the token owner is %q", pm.Kind, pm.Args[2], o))
			}
			if !authorisedBy(x, tx, pm, pm.Args[2], m.grants) {
				x.Flag("C06-actor-signed", pm.Kind+" accepted without the owner's authorisation")
			}
			if pm.Kind == "pnft.Transfer" {
				m.tOwner[key] = pm.Args[3]
			} else {
				delete(m.tOwner, key)
				m.burned[fmt.Sprintf("%x", append(append(append([]byte{2}, pm.Args[0]...), 0), pm.Args[1]...))] = true
			}
			touchedTokens[key] = true
		}
	}
	// ownership changes only through the messages above: compare owner entries before/after
	bo, ao := ownerEntries(m.before), ownerEntries(after)
	for k, v := range ao {
		if bo[k] != v && !touchedTokens[k] && !touchedDenoms[k] {
			x.Flag("C06-ownership-change", "an owner entry changed without a transfer/mint/burn of that item: "+fmt.Sprintf("%q", k))
		}
	}
	for k := range bo {
		if _, ok := ao[k]; !ok && !touchedTokens[k] && !touchedDenoms[k] {
			x.Flag("C06-ownership-change", "an owner entry disappeared without a message for that item: "+fmt.Sprintf("%q", k))
		}
	}
}

// ownerEntries extracts (denom -> owner) and (denom \x01 token -> owner) from a pnft dump line
func ownerEntries(dump string) map[string]string {
	out := map[string]string{}
	body := strings.TrimPrefix(dump, "D pnft ")
	if body == "" {
		return out
	}
	for _, e := range strings.Split(body, ";") {
		kv := strings.SplitN(e, "=", 2)
		k := untok(kv[0])
		switch k[0] {
		case 1:
			f := strings.Split(strings.TrimPrefix(kv[1], "C:"), "/")
			out[string(k[1:])] = s(f[6])
		case 4:
			parts := bytes.SplitN(k[1:], []byte{0}, 2)
			if len(parts) == 2 {
				out[string(parts[0])+"\x01"+string(parts[1])] = strings.TrimPrefix(kv[1], "O:")
			}
		}
	}
	return out
}

func (m *pnftMonitor) AfterBlock(x *Exec) {
	cdc := x.C.App.AppCodec()
	denoms := map[string]*pnfttypes.Denom{}
	type tok struct {
		class, id string
		key       []byte
	}
	var tokens []tok
	owners := map[string][]byte{}
	supply := map[string]uint64{}
	count := map[string]uint64{}
	for _, kv := range x.C.DumpStore("pnft") {
		k, v := kv[0], kv[1]
		switch k[0] {
		case 1:
			var c nft.Class
			must(cdc.Unmarshal(v, &c))
			d, err := pnfttypes.NewDenomFromClass(cdc, &c)
			must(err)
			denoms[string(k[1:])] = d
			if d.Id != string(k[1:]) {
				x.Flag("C12-index", "a class entry is stored under another id")
			}
		case 2:
			var n nft.NFT
			must(cdc.Unmarshal(v, &n))
			tokens = append(tokens, tok{n.ClassId, n.Id, k})
			want := append(append(append([]byte{}, nftkeeper.NFTKey...), n.ClassId...), 0)
			want = append(want, n.Id...)
			if !bytes.Equal(want, k) || strings.ContainsRune(n.ClassId, 0) || strings.ContainsRune(n.Id, 0) {
				x.Flag("C12-alias", fmt.Sprintf("token (%q,%q) is stored under a key that also denotes another (denom, token) pair", n.ClassId, n.Id))
			}
			count[n.ClassId]++
			// immutability of everything but the owner
			var meta pnfttypes.PNFTMeta
			must(cdc.Unmarshal(n.Data.GetValue(), &meta))
			cur := strings.Join([]string{toks(n.ClassId), toks(n.Id), toks(meta.Name), toks(meta.Description), toks(n.Uri), toks(n.UriHash), toks(meta.Data), toks(meta.Creator), fmt.Sprint(meta.CreatedAt.UnixNano())}, "/")
			if was, ok := m.minted[fmt.Sprintf("%x", k)]; ok && was != cur {
				x.Flag("C12-immutable", "the metadata of a token changed after minting: "+was+" -> "+cur)
			}
		case 4:
			parts := bytes.SplitN(k[1:], []byte{0}, 2)
			if len(parts) == 2 {
				owners[string(parts[0])+"\x01"+string(parts[1])] = v
			}
		case 5:
			supply[string(k[1:])] = sdk.BigEndianToUint64(v)
		}
	}
	for sk, was := range m.minted {
		_ = was
		if m.burned[sk] {
			continue
		}
		found := false
		for _, t := range tokens {
			if fmt.Sprintf("%x", t.key) == sk {
				found = true
			}
		}
		if !found {
			x.Flag("C12-exists", "a minted, never burned token is gone")
		}
	}
	for _, t := range tokens {
		if _, ok := denoms[t.class]; !ok {
			x.Flag("C12-has-denom", fmt.Sprintf("token (%q,%q) exists but its denom does not", t.class, t.id))
		}
		if _, ok := owners[t.class+"\x01"+t.id]; !ok {
			x.Flag("C12-index", "a token has no owner entry")
		}
	}
	for c, n := range count {
		if supply[c] != n {
			x.Flag("C12-supply", fmt.Sprintf("denom %q reports supply %d but holds %d tokens", c, supply[c], n))
		}
	}
	// listings agree with the single-item views
	ids := make([]string, 0, len(denoms))
	for id := range denoms {
		ids = append(ids, id)
	}
	sort.Strings(ids)
	for _, id := range ids {
		res, err := x.C.App.PnftKeeper.PNFTs(sdk.WrapSDKContext(x.C.Ctx()), &pnfttypes.QueryPNFTsRequest{DenomId: id})
		if err != nil {
			x.Flag("C12-listing", "PNFTs failed for an existing denom")
			continue
		}
		var want []string
		for _, t := range tokens {
			if t.class == id {
				want = append(want, t.id)
			}
		}
		var got []string
		for _, p := range res.Pnfts {
			got = append(got, p.Id)
			// the single-item view as a client gets it: the PNFT query handler (not the keeper method underneath)
			var single *pnfttypes.Pnft
			sres, err := x.C.App.PnftKeeper.PNFT(sdk.WrapSDKContext(x.C.Ctx()), &pnfttypes.QueryPNFTRequest{DenomId: id, Id: p.Id})
			if err == nil {
				single = sres.Pnft
			}
			if err != nil || single == nil || single.String() != p.String() {
				x.Flag("C12-listing", fmt.Sprintf("PNFTs(%q) lists an item that disagrees with the single-item view: %v / %v", id, p, single))
			}
			// what the single-item view reports must be what was minted (creator, name, description, uri, hash, data, time)
			sk := fmt.Sprintf("%x", append(append(append([]byte{2}, id...), 0), p.Id...))
			if was, ok := m.minted[sk]; ok && err == nil && !m.burned[sk] {
				cur := strings.Join([]string{toks(single.DenomId), toks(single.Id), toks(single.Name), toks(single.Description), toks(single.Uri), toks(single.UriHash), toks(single.Data), toks(single.Creator),
					fmt.Sprint(single.CreatedAt.UnixNano())}, "/")
				if cur != was {
					x.Flag("C12-immutable", "the PNFT query reports other metadata than what was minted: "+was+" -> "+cur)
				}
			}
		}
		sort.Strings(want)
		sort.Strings(got)
		if strings.Join(want, "\x01") != strings.Join(got, "\x01") {
			x.Flag("C12-listing", fmt.Sprintf("PNFTs(%q) = %q but the store holds %q", id, got, want))
		}
		for _, ac := range x.C.Accts {
			res2, err := x.C.App.PnftKeeper.PNFTsByDenomOwner(sdk.WrapSDKContext(x.C.Ctx()), &pnfttypes.QueryPNFTsByDenomOwnerRequest{DenomId: id, Owner: ac.Addr.String()})
			if err != nil {
				continue
			}
			var w2, g2 []string
			for _, t := range tokens {
				if t.class == id && bytes.Equal(owners[t.class+"\x01"+t.id], ac.Addr) {
					w2 = append(w2, t.id)
				}
			}
			for _, p := range res2.Pnfts {
				g2 = append(g2, p.Id)
			}
			sort.Strings(w2)
			sort.Strings(g2)
			if strings.Join(w2, "\x01") != strings.Join(g2, "\x01") {
				x.Flag("C12-listing", fmt.Sprintf("PNFTsByDenomOwner(%q) = %q but the store holds %q", id, g2, w2))
			}
		}
	}
	for _, ac := range x.C.Accts {
		res, err := x.C.App.PnftKeeper.DenomsByOwner(sdk.WrapSDKContext(x.C.Ctx()), &pnfttypes.QueryDenomsByOwnerRequest{Owner: ac.Addr.String()})
		if err != nil {
			continue
		}
		var want, got []string
		for _, id := range ids {
			if denoms[id].Owner == ac.Addr.String() {
				want = append(want, id)
			}
		}
		for _, d := range res.Denoms {
			got = append(got, d.Id)
		}
		sort.Strings(got)
		if strings.Join(want, "\x01") != strings.Join(got, "\x01") {
			x.Flag("C12-listing", fmt.Sprintf("DenomsByOwner = %q but the owner holds %q", got, want))
		}
	}
}
