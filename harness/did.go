package main

// Profile "did": histories of DID create/update/deactivate messages with real secp256k1 proofs;
// monitors for C03 (control), C04 (sequence / replay), C05 (create once, tombstone), C11 (id = key).

import (
	"encoding/base64"
	"sort"
	"encoding/json"
	"fmt"
	"os"
	"strconv"
	"strings"

	cmtsecp "github.com/cometbft/cometbft/crypto/secp256k1"
	"github.com/btcsuite/btcutil/base58"
	didtypes "github.com/medibloc/panacea-core/v2/x/did/types"
)

// ---------------------------------------------------------------------------------------------------
// generic runner for chain profiles
type profileSpec struct {
	name     string
	gen      func(r *RNG, nBlocks int) []string
	monitors func() []Monitor
	node     bool
	conc     int
}

func runChainProfile(p profileSpec, seed uint64, n int, out string, replay string, nBlocks int) {
	o := NewOut(out)
	o.Decl("# profile %s seed %d", p.name, seed)
	stats := map[string]int{}
	var findings []finding
	var samples []string
	distinct := map[string]bool{}
	nontrivial := 0
	total := 0
	var hashLines []string
	run := func(lines []string) {
		x := NewExec(o)
		x.Mons = p.monitors()
		x.WantNode, x.WantConc = p.node, p.conc
		x.Run(lines)
		if x.Node != nil { // the application hash of every committed height: compared between processes (C09)
			var hs []int64
			for h := range x.Node.hashes {
				hs = append(hs, h)
			}
			sort.Slice(hs, func(i, j int) bool { return hs[i] < hs[j] })
			for _, h := range hs {
				hashLines = append(hashLines, fmt.Sprintf("%d %d %x", total, h, x.Node.hashes[h]))
			}
		}
		if x.Node != nil && x.Node.conc != nil {
			x.Node.conc.finish(x)
		}
		if x.Node != nil && x.Node.twin != nil {
			x.Node.twin.Close()
		}
		if x.C != nil {
			x.C.Close()
		}
		for k, v := range x.Stats {
			stats[k] += v
		}
		findings = append(findings, x.Findings...)
		total++
		key := strings.Join(lines, "\n")
		if !distinct[key] {
			distinct[key] = true
			ok, rej := 0, 0
			for k, v := range x.Stats {
				if k == "result:R ok" {
					ok += v
				} else if strings.HasPrefix(k, "result:") {
					rej += v
				}
			}
			if ok > 0 && rej > 0 {
				nontrivial++
			}
		}
		o.Decl("RESET")
	}
	if replay != "" {
		data, err := os.ReadFile(replay)
		must(err)
		run(strings.Split(string(data), "\n"))
	} else {
		r := NewRNG(seed)
		for i := 0; i < n; i++ {
			lines := p.gen(r.Fork(), nBlocks)
			if i < 2 {
				samples = append(samples, strings.Join(lines[:min(len(lines), 16)], " ; "))
			}
			run(lines)
		}
	}
	o.Close()
	if hashLines != nil {
		must(os.WriteFile(out+"/hashes.txt", []byte(strings.Join(hashLines, "\n")+"\n"), 0o644))
	}
	if findings == nil {
		findings = []finding{}
	}
	if p.name == "valid" { // every VB case is one distinct, non-trivial input
		nontrivial = 0
		for k, v := range stats {
			if strings.HasPrefix(k, "vb:") {
				nontrivial += v
			}
		}
	}
	res := map[string]any{"profile": p.name, "seed": seed, "commands": o.nCmd, "histories": total,
		"stats": map[string]any{"distinct_histories": len(distinct), "distinct_nontrivial": nontrivial, "kinds": stats},
		"findings": findings, "samples": samples}
	data, _ := json.MarshalIndent(res, "", " ")
	must(os.WriteFile(out+"/monitor.json", data, 0o644))
}

// ---------------------------------------------------------------------------------------------------
// generator
type didKey struct {
	priv cmtsecp.PrivKey
	pub  []byte
	b58  string
}

func mkDidKey(i int) didKey {
	priv := cmtsecp.GenPrivKeySecp256k1([]byte(fmt.Sprintf("verif-did-key-%d", i)))
	pub := priv.PubKey().(cmtsecp.PubKey)
	return didKey{priv, pub[:], base58.Encode(pub[:])}
}

type didGen struct {
	r        *RNG
	lines    []string
	keys     []didKey
	dids     []string
	accts    []Acct
	nDoc     int
	seq      map[string]uint64 // the generator's guess of the stored sequence
	curKey   map[string]int    // the generator's guess of the controlling key
	curVM    map[string]string
	curDoc   map[string]*didtypes.DIDDocument // the generator's guess of the stored document
	active   map[string]bool
	dead     map[string]bool // deactivated (as far as the generator can tell)
	accepted []string // message lines that were (probably) accepted: candidates for replays
	now      int64
	warm     bool // early blocks: well-formed creates of the DIDs that do not exist yet
}

// kd: the key a DID of the generator is associated with
func (g *didGen) kd(d int) int { return d % len(g.keys) }

// authorised: would key k, named as vmid, control the document doc (exact id, listed under authentication, ES256K type)?
func (g *didGen) authorised(doc *didtypes.DIDDocument, vmid string, k int) bool {
	for _, pk := range authKeys(doc, vmid) {
		if string(pk) == string(g.keys[k].pub) {
			return true
		}
	}
	return false
}

// methodIDs: every method id that occurs in doc (verification methods and dedicated relationship methods)
func methodIDs(doc *didtypes.DIDDocument) []string {
	var ids []string
	if doc == nil {
		return nil
	}
	for _, v := range doc.VerificationMethods {
		ids = append(ids, v.Id)
	}
	for _, rels := range [][]didtypes.VerificationRelationship{doc.Authentications, doc.AssertionMethods, doc.KeyAgreements, doc.CapabilityInvocations, doc.CapabilityDelegations} {
		for _, r := range rels {
			if vm := r.GetVerificationMethod(); vm != nil {
				ids = append(ids, vm.Id)
			}
		}
	}
	return ids
}

func (g *didGen) add(format string, a ...any) { g.lines = append(g.lines, fmt.Sprintf(format, a...)) }

type docShape int

// buildDoc emits the DOC lines for a document about `id` controlled by key k and returns (ref, doc, vmid)
func (g *didGen) buildDoc(id string, k int, shape int) (string, *didtypes.DIDDocument, string) {
	g.nDoc++
	ref := fmt.Sprintf("d%d", g.nDoc)
	key := g.keys[k]
	vmid := id + "#key" + strconv.Itoa(1+g.r.Intn(2))
	doc := &didtypes.DIDDocument{Id: id}
	g.add("DOC %s %s", ref, toks(id))
	ctx := func(vals ...string) {
		l := didtypes.JSONStringOrStrings(vals)
		doc.Contexts = &l
		line := "DCTX " + ref
		for _, v := range vals {
			line += " " + toks(v)
		}
		g.add("%s", line)
	}
	vm := func(vid, typ, pk string) {
		doc.VerificationMethods = append(doc.VerificationMethods, &didtypes.VerificationMethod{Id: vid, Type: typ, Controller: id, PublicKeyBase58: pk})
		g.add("DVM %s %s %s %s %s", ref, toks(vid), toks(typ), toks(id), toks(pk))
	}
	relRef := func(which, vid string) {
		r := didtypes.NewVerificationRelationship(vid)
		appendRel(doc, which, r)
		g.add("DREL %s %s ref %s", ref, which, toks(vid))
	}
	relDed := func(which, vid, typ, pk string) {
		r := didtypes.NewVerificationRelationshipDedicated(didtypes.VerificationMethod{Id: vid, Type: typ, Controller: id, PublicKeyBase58: pk})
		appendRel(doc, which, r)
		g.add("DREL %s %s ded %s %s %s %s", ref, which, toks(vid), toks(typ), toks(id), toks(pk))
	}
	if g.r.Chance(70) {
		ctx(didtypes.ContextDIDV1)
	} else if g.r.Chance(30) {
		ctx(didtypes.ContextDIDV1, "https://example.org/ctx")
	}
	switch shape {
	case 0: // standard: key as verification method, referenced from authentication
		vm(vmid, didtypes.ES256K_2019, key.b58)
		relRef("auth", vmid)
	case 1: // dedicated authentication method, another (unrelated) key as plain verification method
		vm(id+"#other", didtypes.ES256K_2019, g.keys[(k+1)%len(g.keys)].b58)
		relDed("auth", vmid, didtypes.ES256K_2018, key.b58)
	case 2: // the key is listed only under assertionMethod; authentication holds another key
		vm(vmid, didtypes.ES256K_2019, key.b58)
		vm(id+"#auth", didtypes.ES256K_2019, g.keys[(k+1)%len(g.keys)].b58)
		relRef("auth", id+"#auth")
		relRef("assert", vmid)
	case 3: // the key is only a verification method, not referenced by any relationship
		vm(vmid, didtypes.ES256K_2019, key.b58)
		vm(id+"#auth", didtypes.ES256K_2019, g.keys[(k+1)%len(g.keys)].b58)
		relRef("auth", id+"#auth")
	case 4: // not a secp256k1 key type
		vm(vmid, didtypes.ED25519_2018, key.b58)
		relRef("auth", vmid)
	case 5: // rich document: controller, services, several relationships
		vm(vmid, didtypes.ES256K_2019, key.b58)
		relRef("auth", vmid)
		relRef("capinv", vmid)
		relDed("keyagree", id+"#ka", didtypes.X25519_2019, g.keys[(k+2)%len(g.keys)].b58)
		l := didtypes.JSONStringOrStrings{id}
		if len(g.dids) > 1 && g.r.Chance(50) {
			// another registered DID as (co-)controller: the property of the document gives that DID no write access here
			other := g.dids[g.r.Intn(len(g.dids))]
			if other != id {
				if g.r.Bool() {
					l = didtypes.JSONStringOrStrings{id, other}
				} else {
					l = didtypes.JSONStringOrStrings{other}
				}
			}
		}
		doc.Controller = &l
		line := "DCTRL " + ref
		for _, c := range l {
			line += " " + toks(c)
		}
		g.add("%s", line)
		ep := "https://example.org"
		if genK3 && g.r.Chance(15) {
			ep = pick(g.r, []string{"https://\xff", "\xc3", "caf\xc3\xa9"}) // the first two are not UTF-8 (K3)
		}
		doc.Services = append(doc.Services, &didtypes.Service{Id: "svc1", Type: "LinkedDomains", ServiceEndpoint: ep})
		g.add("DSVC %s %s %s %s", ref, toks("svc1"), toks("LinkedDomains"), toks(ep))
		if g.r.Chance(40) {
			// a longer service list, with ids that repeat: stored, returned and exported in the order given
			for j := 0; j < 3+g.r.Intn(8); j++ {
				id := fmt.Sprintf("svc%d", 1+g.r.Intn(5))
				e := fmt.Sprintf("https://example.org/%d", j)
				doc.Services = append(doc.Services, &didtypes.Service{Id: id, Type: "LinkedDomains", ServiceEndpoint: e})
				g.add("DSVC %s %s %s %s", ref, toks(id), toks("LinkedDomains"), toks(e))
			}
		}
	case 6: // malformed: verification method id without the DID prefix
		vm("nokey", didtypes.ES256K_2019, key.b58)
		relRef("auth", "nokey")
		vmid = "nokey"
	case 7: // malformed: authentication refers to a missing method / whitespace in id / bad base58
		switch g.r.Intn(3) {
		case 0:
			vm(vmid, didtypes.ES256K_2019, key.b58)
			relRef("auth", id+"#missing")
		case 1:
			vm(id+"#a b", didtypes.ES256K_2019, key.b58)
			relRef("auth", id+"#a b")
			vmid = id + "#a b"
		default:
			vm(vmid, didtypes.ES256K_2019, "0OIl")
			relRef("auth", vmid)
		}
	case 8: // base58 string that is not a 33-byte key
		vm(vmid, didtypes.ES256K_2019, "abc")
		relRef("auth", vmid)
	case 9: // no authentication at all
		vm(vmid, didtypes.ES256K_2019, key.b58)
	case 10: // duplicate ids: a dedicated authentication method and a plain verification method share one id, different keys
		vm(vmid, didtypes.ES256K_2019, g.keys[(k+1)%len(g.keys)].b58)
		relDed("auth", vmid, didtypes.ES256K_2019, key.b58)
	case 12: // other keys under the other relationships only (an "admin" key under capabilityInvocation, one under
		// capabilityDelegation, one under keyAgreement): listed, of the right type, but without control
		vm(vmid, didtypes.ES256K_2019, key.b58)
		relRef("auth", vmid)
		relDed("capinv", id+"#admin", didtypes.ES256K_2019, g.keys[(k+1)%len(g.keys)].b58)
		relDed("capdel", id+"#deleg", didtypes.ES256K_2019, g.keys[(k+2)%len(g.keys)].b58)
		vm(id+"#ka", didtypes.ES256K_2019, g.keys[(k+3)%len(g.keys)].b58)
		relRef("keyagree", id+"#ka")
	case 13: // two method ids that differ only in the letter case of the fragment: the upper-case one (another key) is listed
		// first and serves assertions only; authentication refers to the lower-case one
		up := id + "#" + strings.ToUpper(vmid[len(id)+1:])
		vm(up, didtypes.ES256K_2019, g.keys[(k+1)%len(g.keys)].b58)
		vm(vmid, didtypes.ES256K_2019, key.b58)
		relRef("auth", vmid)
		relRef("assert", up)
	case 11: // duplicate ids among verification methods: the first one wins
		vm(vmid, didtypes.ES256K_2019, key.b58)
		vm(vmid, didtypes.ES256K_2019, g.keys[(k+1)%len(g.keys)].b58)
		relRef("auth", vmid)
	}
	return ref, doc, vmid
}

func appendRel(d *didtypes.DIDDocument, which string, r didtypes.VerificationRelationship) {
	switch which {
	case "auth":
		d.Authentications = append(d.Authentications, r)
	case "assert":
		d.AssertionMethods = append(d.AssertionMethods, r)
	case "keyagree":
		d.KeyAgreements = append(d.KeyAgreements, r)
	case "capinv":
		d.CapabilityInvocations = append(d.CapabilityInvocations, r)
	case "capdel":
		d.CapabilityDelegations = append(d.CapabilityDelegations, r)
	}
}

// sign produces a real signature and declares it to the model (SIGT)
func (g *didGen) sign(k int, data *didtypes.DIDDocument, seq uint64, tamper int) []byte {
	sig, err := didtypes.Sign(data, seq, g.keys[k].priv)
	must(err)
	bz, _ := data.Marshal()
	dws := didtypes.DataWithSeq{Data: bz, Sequence: seq}
	signed, _ := dws.Marshal()
	g.add("SIGT %s %s %s", tok(g.keys[k].pub), tok(signed), tok(sig))
	switch tamper {
	case 1:
		sig = append([]byte{}, sig...)
		sig[len(sig)-1] ^= 1
	case 2:
		sig = sig[:len(sig)-1]
	case 3:
		sig = []byte{}
	}
	return sig
}

func (g *didGen) shape() int {
	if g.r.Chance(70) {
		return pick(g.r, []int{0, 0, 1, 2, 3, 5, 10, 11, 12, 12, 13, 13})
	}
	return g.r.Intn(14)
}

func (g *didGen) from() string { return g.accts[g.r.Intn(len(g.accts))].Addr.String() }

// one DID message; returns the M line and the natural signer
func (g *didGen) msg() (string, string) {
	from := g.from()
	d := g.r.Intn(len(g.dids))
	did := g.dids[d]
	if g.warm {
		for i, dd := range g.dids {
			if !g.active[dd] {
				d, did = i, dd
				ref, doc, vmid := g.buildDoc(did, g.kd(d), pick(g.r, []int{0, 1, 5}))
				sig := g.sign(g.kd(d), doc, 0, 0)
				line := joinSp("did.Create", toks(did), ref, toks(vmid), tok(sig), toks(from))
				g.accepted = append(g.accepted, line)
				g.active[did], g.seq[did], g.curKey[did], g.curVM[did], g.curDoc[did] = true, 0, g.kd(d), vmid, doc
				return line, from
			}
		}
	}
	if len(g.accepted) > 0 && g.r.Chance(15) { // replay an earlier message verbatim (C04), possibly via another relayer
		m := pick(g.r, g.accepted)
		f := strings.Split(m, " ")
		switch g.r.Intn(4) {
		case 0, 1:
			f[len(f)-1] = toks(from)
			return strings.Join(f, " "), from
		case 2:
			// the same proof (document, key id, signature) under ANOTHER identifier: another registered DID, a look-alike,
			// or a fresh well-formed one
			other := pick(g.r, []string{g.dids[g.r.Intn(len(g.dids))], nearMissDID(g.r, s(f[1])), "did:panacea:" + strings.Repeat("2", 32+g.r.Intn(12))})
			f[1] = toks(other)
			f[len(f)-1] = toks(from)
			return strings.Join(f, " "), from
		}
		return m, s(f[len(f)-1])
	}
	k := g.r.Intn(100)
	switch {
	case k < 40 && !g.active[did] || k < 8: // create
		key := g.kd(d) // the DID is associated with key d
		if g.r.Chance(10) {
			key = g.r.Intn(len(g.keys))
		}
		docID := did
		didField := did
		switch g.r.Intn(16) {
		case 0:
			docID = g.dids[(d+1)%len(g.dids)] // a document about somebody else (C11)
		case 1:
			docID = "" // empty-id document
		case 2:
			didField = "did:panacea:short"
		case 3, 4:
			didField = nearMissDID(g.r, did) // a look-alike identifier: still well-formed, differs in one character
		case 5:
			if len(did) < len("did:panacea:")+44 { // the DID field extends the document id by one character
				didField = did + string(didtypes.Base58Charset[g.r.Intn(len(didtypes.Base58Charset))])
			}
		case 6:
			if len(did) > len("did:panacea:")+32 { // the document id extends the DID field
				didField = did[:len(did)-1]
			}
		}
		ref, doc, vmid := g.buildDoc(docID, key, g.shape())
		createSeq := uint64(0)
		if g.dead[did] && g.r.Chance(50) {
			// on a tombstone: the last controlling key signs over the tombstone's own sequence ("re-activation")
			key, createSeq = g.curKey[did], g.seq[did]
			ref, doc, vmid = g.buildDoc(docID, key, pick(g.r, []int{0, 1, 5}))
			if g.curVM[did] != "" && g.r.Bool() {
				vmid = g.curVM[did]
			}
		}
		sig := g.sign(key, doc, createSeq, pick(g.r, []int{0, 0, 0, 0, 0, 0, 0, 1, 2, 3}))
		if g.r.Chance(4) {
			ref = "-" // no document at all
		}
		line := joinSp("did.Create", toks(didField), ref, toks(vmid), tok(sig), toks(from))
		if docID == did && didField == did {
			g.accepted = append(g.accepted, line)
			if !g.active[did] && !g.dead[did] && doc.Valid() && g.authorised(doc, vmid, key) {
				g.active[did], g.seq[did], g.curKey[did], g.curVM[did], g.curDoc[did] = true, 0, key, vmid, doc
			}
		}
		return line, from
	case k < 80: // update, usually signed by the current key over the current sequence
		signer := g.curKey[did]
		if g.r.Chance(20) {
			signer = g.r.Intn(len(g.keys)) // a rotated-out or foreign key
			if g.r.Bool() {
				signer = (g.curKey[did] + 1) % len(g.keys) // the key listed beside the controlling one
			}
		}
		directed := false
		ownID := ""
		if cd := g.curDoc[did]; cd != nil && g.r.Chance(25) {
			// a key the stored document lists under another relationship only (or as a plain method) signs under ITS OWN
			// method id: listed, of the right type — and without control
			type cand struct {
				k  int
				id string
			}
			var cs []cand
			consider := func(vmm *didtypes.VerificationMethod) {
				for k := range g.keys {
					if vmm.PublicKeyBase58 == g.keys[k].b58 && !g.authorised(cd, vmm.Id, k) {
						cs = append(cs, cand{k, vmm.Id})
					}
				}
			}
			for _, v := range cd.VerificationMethods {
				consider(v)
			}
			for _, rels := range [][]didtypes.VerificationRelationship{cd.AssertionMethods, cd.KeyAgreements, cd.CapabilityInvocations, cd.CapabilityDelegations} {
				for _, r := range rels {
					if v := r.GetVerificationMethod(); v != nil {
						consider(v)
					}
				}
			}
			if len(cs) > 0 {
				c := cs[g.r.Intn(len(cs))]
				signer, ownID, directed = c.k, c.id, true
			}
		}
		if cd := g.curDoc[did]; cd != nil && !directed && g.r.Chance(30) {
			// a key that the stored document lists without giving it control (a plain or assertion-only method, the
			// plain namesake of a dedicated one) signs, naming the method that does control the document
			for k := range g.keys {
				listed := false
				for _, id := range methodIDs(cd) {
					for _, v := range cd.VerificationMethods {
						if v.Id == id && v.PublicKeyBase58 == g.keys[k].b58 {
							listed = true
						}
					}
				}
				if listed && !g.authorised(cd, g.curVM[did], k) {
					signer, directed = k, true
				}
			}
		}
		newKey := g.curKey[did]
		if g.r.Chance(35) {
			newKey = g.r.Intn(len(g.keys)) // key rotation
		}
		docID := did
		var deadOnes []string
		for _, dd := range g.dids {
			if g.dead[dd] && dd != did {
				deadOnes = append(deadOnes, dd)
			}
		}
		if len(deadOnes) > 0 && g.r.Chance(10) {
			docID = pick(g.r, deadOnes) // an update of a live DID carrying a document about a DEACTIVATED one: must not bring it back
		} else if g.r.Chance(6) {
			docID = g.dids[(d+1)%len(g.dids)]
		} else if g.r.Chance(5) {
			docID = nearMissDID(g.r, did)
		}
		ref, doc, newVM := g.buildDoc(docID, newKey, g.shape())
		seq := g.seq[did]
		if g.r.Chance(15) {
			seq = staleSeq(g.r, g.seq[did]) // a wrong sequence
		}
		signData := doc
		if g.r.Chance(5) {
			_, other, _ := g.buildDoc(did, newKey, 0) // signature over different content
			signData = other
		}
		tamperU := pick(g.r, []int{0, 0, 0, 0, 0, 0, 0, 0, 1, 3})
		sig := g.sign(signer, signData, seq, tamperU)
		vmid := g.curVM[did]
		if vmid == "" {
			vmid = did + "#key1"
		}
		if ownID != "" {
			vmid = ownID
		}
		if ids := methodIDs(g.curDoc[did]); len(ids) > 0 && !directed && g.r.Chance(25) {
			vmid = pick(g.r, ids) // another method of the stored document is named: only its own key, if listed under authentication, may sign
		}
		if cd := g.curDoc[did]; cd != nil && cd.Controller != nil && g.r.Chance(30) {
			// a DID the stored document names as controller signs with ITS key, method id and sequence: not a proof by a key
			// registered under the DID being written
			for _, c := range *cd.Controller {
				if c != did && g.active[c] {
					vmid = g.curVM[c]
					sig = g.sign(g.curKey[c], signData, g.seq[c], 0)
				}
			}
		}
		line := joinSp("did.Update", toks(did), ref, toks(vmid), tok(sig), toks(from))
		if tamperU == 0 && g.authorised(g.curDoc[did], vmid, signer) && seq == g.seq[did] && signData == doc && docID == did && g.active[did] && doc.Valid() {
			g.accepted = append(g.accepted, line)
			g.seq[did]++
			g.curKey[did], g.curVM[did], g.curDoc[did] = newKey, newVM, doc
			if !g.authorised(doc, newVM, newKey) { // the natural key of the new document does not control it: find one that does
				for _, id := range methodIDs(doc) {
					for k := range g.keys {
						if g.authorised(doc, id, k) {
							g.curKey[did], g.curVM[did] = k, id
						}
					}
				}
			}
		}
		return line, from
	default: // deactivate
		signer := g.curKey[did]
		if g.r.Chance(15) {
			signer = g.r.Intn(len(g.keys))
		}
		seq := g.seq[did]
		if g.r.Chance(25) {
			seq = staleSeq(g.r, g.seq[did])
		}
		tamperD := pick(g.r, []int{0, 0, 0, 0, 0, 0, 1})
		sig := g.sign(signer, &didtypes.DIDDocument{Id: did}, seq, tamperD)
		vmid := g.curVM[did]
		if vmid == "" {
			vmid = did + "#key1"
		}
		if ids := methodIDs(g.curDoc[did]); len(ids) > 0 && g.r.Chance(20) {
			vmid = pick(g.r, ids)
		}
		line := joinSp("did.Deactivate", toks(did), toks(vmid), tok(sig), toks(from))
		if tamperD == 0 && g.authorised(g.curDoc[did], vmid, signer) && seq == g.seq[did] && g.active[did] {
			g.accepted = append(g.accepted, line)
			g.seq[did]++
			g.active[did], g.dead[did] = false, true
		}
		return line, from
	}
}

func genDidHistory(r *RNG, nBlocks int) []string {
	g := &didGen{r: r, seq: map[string]uint64{}, curKey: map[string]int{}, curVM: map[string]string{}, curDoc: map[string]*didtypes.DIDDocument{},
		active: map[string]bool{}, dead: map[string]bool{}, now: 1700000100_000000000}
	for i := 0; i < 4; i++ {
		g.keys = append(g.keys, mkDidKey(i))
		g.accts = append(g.accts, mkAcct(i))
	}
	for i := 0; i < 3; i++ {
		g.dids = append(g.dids, didtypes.NewDID(g.keys[i].pub))
	}
	// two shorter identifiers: the first 42 characters of DID 0 (what a lenient base64 decoder makes of an unpadded request
	// for DID 0, and a proper prefix of it) and a 33-character one
	g.dids = append(g.dids, g.dids[0][:len("did:panacea:")+42], g.dids[1][:len("did:panacea:")+33])
	g.add("# GENESIS %d %s", 4, "1000000000000")
	if r.Chance(60) {
		// DID entries of the genesis file: documents with sequences far from zero (around the byte and word boundaries),
		// tombstones, and entries GenesisState.Validate has to refuse (a document filed under another identifier, an
		// empty document with the initial sequence, a key that is not a DID)
		highSeqs := []uint64{1, 254, 255, 256, 257, 511, 65535, 65536, 1<<32 - 1, 1 << 32, 1<<63 - 1, 1<<64 - 2}
		for d, did := range g.dids {
			switch r.Intn(6) {
			case 0, 1, 2:
				ref, doc, vmid := g.buildDoc(did, g.kd(d), pick(r, []int{0, 1, 5}))
				n := pick(r, highSeqs)
				g.add("GD %s %s %d", toks(did), ref, n)
				g.active[did], g.seq[did], g.curKey[did], g.curVM[did], g.curDoc[did] = true, n, g.kd(d), vmid, doc
			case 3:
				n := pick(r, highSeqs)
				g.add("GD %s - %d", toks(did), n)
				g.dead[did] = true
			}
		}
		for i := 0; i < 2; i++ {
			did := g.dids[r.Intn(len(g.dids))]
			if g.active[did] || g.dead[did] {
				continue
			}
			switch r.Intn(4) {
			case 0: // a document about another identifier filed under this one
				other := g.dids[(r.Intn(len(g.dids)-1)+1)%len(g.dids)]
				if other == did {
					other = nearMissDID(r, did)
				}
				ref, _, _ := g.buildDoc(other, 0, 0)
				g.add("GD %s %s %d", toks(did), ref, pick(r, []uint64{0, 3}))
			case 1: // an empty document with the initial sequence: neither a document nor a tombstone
				g.add("GD %s - 0", toks(did))
			case 2: // a key that is not a DID
				ref, _, _ := g.buildDoc(did, 0, 0)
				g.add("GD %s %s 0", toks("did:panacea:short"), ref)
			default: // a malformed document
				ref, _, _ := g.buildDoc(did, 0, 6+r.Intn(4))
				g.add("GD %s %s 0", toks(did), ref)
			}
		}
	}
	for b := 0; b < nBlocks; b++ {
		g.now += int64(1+r.Intn(5)) * 1_000_000_000
		var blockLines []string
		g.warm = b < 2 && r.Chance(80)
		nTx := 1 + r.Intn(3)
		for t := 0; t < nTx; t++ {
			nMsg := 1
			if r.Chance(20) {
				nMsg = 2
			}
			var mlines []string
			var signers []string
			seen := map[string]bool{}
			for m := 0; m < nMsg; m++ {
				ml, from := g.msg()
				mlines = append(mlines, "M "+ml)
				if a := g.acctHex(from); a != "" && !seen[a] {
					seen[a] = true
					signers = append(signers, a)
				}
			}
			if r.Chance(4) || len(signers) == 0 {
				signers = []string{fmt.Sprintf("%x", []byte(g.accts[r.Intn(len(g.accts))].Addr))}
			}
			blockLines = append(blockLines, fmt.Sprintf("TX %s %s", toks(feeDenom)+":1000", strings.Join(signers, ",")))
			blockLines = append(blockLines, mlines...)
			blockLines = append(blockLines, "ENDTX")
		}
		// document/signature declarations were emitted while generating; the block starts after them
		g.add("BLOCK %d", g.now)
		g.lines = append(g.lines, blockLines...)
		g.add("ENDBLOCK")
		if r.Chance(15) {
			g.add("EXPORTIMPORT")
		}
		g.add("DUMP did")
		for _, d := range g.dids {
			g.add("Q did.DID %s", toks(d))
		}
		// the did_base64 field as clients may send it: well formed, without padding, in the URL alphabet, with a line
		// break, with a trailing character, truncated, of a longer identifier that starts with a registered one
		for i := 0; i < 3; i++ {
			d := g.dids[r.Intn(len(g.dids))]
			std := base64.StdEncoding.EncodeToString([]byte(d))
			var raw string
			switch r.Intn(9) {
			case 0:
				raw = std
			case 1:
				raw = base64.RawStdEncoding.EncodeToString([]byte(d))
			case 2:
				raw = base64.URLEncoding.EncodeToString([]byte(d))
			case 3:
				raw = std[:8] + "\n" + std[8:]
			case 4:
				raw = std + "!"
			case 5:
				raw = std[:len(std)-1-r.Intn(3)]
			case 6:
				raw = base64.RawStdEncoding.EncodeToString([]byte(d + "ab"[:1+r.Intn(2)]))
			case 7:
				raw = base64.StdEncoding.EncodeToString([]byte(d+"Zz"[:1+r.Intn(2)])) + "="
			default:
				raw = pick(r, []string{"", "=", "====", "A", "AA==", "did:panacea:x"})
			}
			g.add("Q did.DID64 %s", toks(raw))
		}
	}
	return g.lines
}

// nearMissDID returns a valid DID that differs from did in exactly one character of the method-specific id:
// the other letter case where that is still a base58 character, otherwise the next base58 character.
// staleSeq: a sequence a proof must NOT be accepted for — preferably the initial one or the previous one
func staleSeq(r *RNG, cur uint64) uint64 {
	switch r.Intn(4) {
	case 0:
		if cur > 0 {
			return 0
		}
	case 1:
		if cur > 0 {
			return cur - 1
		}
	case 2:
		return cur + 1
	}
	return uint64(r.Intn(4))
}

func nearMissDID(r *RNG, did string) string {
	const pfx = "did:panacea:"
	// a third of the time a DID that is a proper prefix or an extension of the given one (both still well formed:
	// 32..44 base58 characters), otherwise one character changed (case or neighbour in the alphabet)
	switch body := did[len(pfx):]; r.Intn(6) {
	case 0:
		if len(body) > 32 {
			return did[:len(did)-1-r.Intn(min(3, len(body)-32))]
		}
	case 1:
		if len(body) < 44 {
			return did + string(didtypes.Base58Charset[r.Intn(len(didtypes.Base58Charset))])
		}
	}
	b := []byte(did)
	for tries := 0; tries < 50; tries++ {
		i := len(pfx) + r.Intn(len(b)-len(pfx))
		c := b[i]
		var alt byte
		switch {
		case c >= 'a' && c <= 'z':
			alt = c - 32
		case c >= 'A' && c <= 'Z':
			alt = c + 32
		}
		if alt == 0 || !strings.ContainsRune(didtypes.Base58Charset, rune(alt)) {
			idx := strings.IndexByte(didtypes.Base58Charset, c)
			alt = didtypes.Base58Charset[(idx+1)%len(didtypes.Base58Charset)]
		}
		if alt != c {
			b[i] = alt
			return string(b)
		}
	}
	return did
}

func (g *didGen) acctHex(addr string) string {
	for _, a := range g.accts {
		if a.Addr.String() == addr {
			return fmt.Sprintf("%x", []byte(a.Addr))
		}
	}
	return ""
}
