package main

// Profile "total" (C17): every query handler with absent, empty, oversized, malformed and extreme arguments
// (through ABCI Query, where a recovered panic surfaces as code 111222), pagination requests of every shape, and
// transactions of every custom message kind in legacy-amino-JSON sign mode.

import (
	"fmt"
	"strings"
)

func genTotalHistory(r *RNG, nBlocks int) []string {
	var lines []string
	add := func(format string, a ...any) { lines = append(lines, fmt.Sprintf(format, a...)) }
	accts := []Acct{mkAcct(0), mkAcct(1), mkAcct(2), mkAcct(3)}
	addr := func(i int) string { return accts[i].Addr.String() }
	hexa := func(i int) string { return fmt.Sprintf("%x", []byte(accts[i].Addr)) }
	add("# GENESIS %d %s", 4, "1000000000000")
	now := int64(1700000100_000000000)
	tx := func(signer int, msgs ...string) {
		add("TX %s %s", toks(feeDenom)+":10", hexa(signer))
		for _, m := range msgs {
			add("M %s", m)
		}
		add("ENDTX")
	}
	// a small populated state, built in amino-JSON mode for half of the histories (K4: PNFT messages used to panic there)
	if r.Bool() {
		add("MODE amino")
	}
	add("BLOCK %d", now)
	topics := []string{"a", "ab", "b"}
	for _, t := range topics {
		tx(0, joinSp("aol.CreateTopic", toks(t), toks("d"), toks(addr(0))))
		tx(0, joinSp("aol.AddWriter", toks(t), toks("m"), toks(""), toks(addr(1)), toks(addr(0))))
		tx(0, joinSp("aol.AddWriter", toks(t), toks("m"), toks(""), toks(addr(2)), toks(addr(0))))
	}
	tx(1, joinSp("aol.AddRecord", toks("a"), toks("k"), toks("v"), toks(addr(1)), toks(addr(0)), toks("")))
	for _, d := range []string{"d1", "d2", "d3"} {
		tx(0, joinSp("pnft.CreateDenom", toks(d), toks("N"), toks("S"), toks(""), toks(""), toks(""), toks(addr(0)), toks("")))
	}
	tx(0, joinSp("pnft.Mint", toks("d1"), toks("t1"), toks("n"), toks(""), toks(""), toks(""), toks(""), toks(addr(0))))
	tx(0, joinSp("pnft.UpdateDenom", toks("d1"), toks("N2"), toks(""), toks(""), toks(""), toks(""), toks(addr(0)), toks("")))
	tx(0, joinSp("pnft.TransferDenom", toks("d2"), toks(addr(0)), toks(addr(1))))
	tx(0, joinSp("pnft.Transfer", toks("d1"), toks("t1"), toks(addr(0)), toks(addr(2))))
	tx(2, joinSp("pnft.Burn", toks("d1"), toks("t1"), toks(addr(2))))
	tx(0, joinSp("pnft.DeleteDenom", toks("d3"), toks(addr(0))))
	tx(0, joinSp("aol.DeleteWriter", toks("b"), toks(addr(2)), toks(addr(0))))
	add("ENDBLOCK")
	add("MODE direct")
	// ---- single-item queries by shape
	owners := []string{addr(0), addr(1), "", "x", strings.ToUpper(addr(0)), "panacea1qqqq", strings.Repeat("p", 300), "\x00", "\xff\xfe"}
	names := []string{"a", "", "zz", strings.Repeat("t", 255), strings.Repeat("t", 256), strings.Repeat("t", 10000), "\xff", "\x00", "a\x00"}
	offsets := []string{"0", "1", "18446744073709551615", "9223372036854775808"}
	for _, o := range owners {
		for _, t := range names {
			add("Q aol.Topic %s %s", toks(o), toks(t))
			add("Q aol.Record %s %s %s", toks(o), toks(t), pick(r, offsets))
			add("Q aol.Writer %s %s %s", toks(o), toks(t), toks(pick(r, owners)))
		}
	}
	for _, d := range []string{"", "x", "did:panacea:" + strings.Repeat("1", 32), strings.Repeat("d", 5000), "\x00\xff"} {
		add("Q did.DID %s", toks(d))
	}
	ids := []string{"d1", "d2", "", "nosuch", "d1\x00t1", "\x00", strings.Repeat("i", 5000), "\xff"}
	for _, d := range ids {
		add("Q pnft.Denom %s", toks(d))
		add("Q pnft.PNFTs %s", toks(d))
		add("Q pnft.DenomsByOwner %s", toks(pick(r, owners)))
		for _, i := range ids[:5] {
			add("Q pnft.PNFT %s %s", toks(d), toks(i))
		}
		add("Q pnft.ByOwner %s %s", toks(d), toks(pick(r, owners)))
	}
	// ---- pagination of every shape: keys (nil, empty, stored, not stored, smallest, greatest, beyond), offsets, limits, flags
	subkeys := []string{"nil", "-", tok([]byte{1, 'a'}), tok([]byte{2, 'a', 'b'}), tok([]byte{1, 'b'}), tok([]byte{1, 'c'}), tok([]byte{0}), tok([]byte{0xff}), tok([]byte{1}), tok([]byte{5, 'a'})}
	wkeys := []string{"nil", "-", tok(append([]byte{20}, accts[1].Addr...)), tok(append([]byte{20}, accts[2].Addr...)), tok([]byte{20}), tok([]byte{0xff}), tok([]byte{0})}
	dkeys := []string{"nil", "-", toks("d1"), toks("d2"), toks("d"), toks("d3"), toks("e"), tok([]byte{0})}
	limits := []string{"0", "1", "2", "100", "18446744073709551615", "9223372036854775808"}
	offs := []string{"0", "1", "2", "18446744073709551615"}
	for _, k := range subkeys {
		for _, rev := range []string{"0", "1"} {
			add("Q aol.Topics %s %s %s %s %s %s", toks(addr(0)), k, pick(r, offs), pick(r, limits), pick(r, []string{"0", "1"}), rev)
			add("Q aol.Topics %s %s 0 %s %s %s", toks(addr(0)), k, pick(r, limits), pick(r, []string{"0", "1"}), rev)
		}
	}
	for _, k := range wkeys {
		for _, rev := range []string{"0", "1"} {
			add("Q aol.Writers %s %s %s 0 %s %s %s", toks(addr(0)), toks("a"), k, pick(r, limits), pick(r, []string{"0", "1"}), rev)
			add("Q aol.Writers %s %s %s %s %s 0 %s", toks(addr(0)), toks(pick(r, names)), k, pick(r, offs), pick(r, limits), rev)
		}
	}
	for _, k := range dkeys {
		for _, rev := range []string{"0", "1"} {
			add("Q pnft.Denoms %s 0 %s %s %s", k, pick(r, limits), pick(r, []string{"0", "1"}), rev)
			add("Q pnft.Denoms %s %s %s 1 %s", k, pick(r, offs), pick(r, limits), rev)
		}
	}
	add("Q aol.Topics %s nopage", toks(""))
	add("Q aol.Writers %s %s nopage", toks("x"), toks("a"))
	return lines
}
