package main

// Profile "keystore" (C17: Load never panics; C20: concurrent Save/Load/LoadByAddress make progress).

import (
	"crypto/aes"
	"crypto/cipher"
	"crypto/sha256"
	"encoding/hex"
	"encoding/json"
	"fmt"
	"os"
	"path/filepath"
	"strings"
	"sync"
	"sync/atomic"
	"time"

	didcrypto "github.com/medibloc/panacea-core/v2/x/did/client/crypto"
	"golang.org/x/crypto/pbkdf2"
	"golang.org/x/crypto/sha3"
)

// a key file in the Web3 secret-storage layout, built by the harness itself (with a cheap iteration count)
type ksFile struct {
	Version int    `json:"version"`
	ID      string `json:"id"`
	Address string `json:"address"`
	Crypto  struct {
		Cipher       string `json:"cipher"`
		CipherText   string `json:"ciphertext"`
		CipherParams struct {
			IV string `json:"iv"`
		} `json:"cipherparams"`
		KDF       string `json:"kdf"`
		KDFParams struct {
			C     int    `json:"c"`
			DKLen int    `json:"dklen"`
			PRF   string `json:"prf"`
			Salt  string `json:"salt"`
		} `json:"kdfparams"`
		MAC string `json:"mac"`
	} `json:"crypto"`
}

func mkKeyFile(passwd string, key []byte) ksFile {
	salt := []byte("0123456789abcdef0123456789abcdef")
	iv := []byte("fedcba9876543210")
	dk := pbkdf2.Key([]byte(passwd), salt, 2, 32, sha256.New)
	block, _ := aes.NewCipher(dk[:16])
	ct := make([]byte, len(key))
	cipher.NewCTR(block, iv).XORKeyStream(ct, key)
	h := sha3.NewLegacyKeccak256()
	h.Write(dk[16:32])
	h.Write(ct)
	var f ksFile
	f.Version, f.ID, f.Address = 3, "id", "addr"
	f.Crypto.Cipher, f.Crypto.CipherText = "aes-128-ctr", hex.EncodeToString(ct)
	f.Crypto.CipherParams.IV = hex.EncodeToString(iv)
	f.Crypto.KDF = "pbkdf2"
	f.Crypto.KDFParams.C, f.Crypto.KDFParams.DKLen, f.Crypto.KDFParams.PRF, f.Crypto.KDFParams.Salt = 2, 32, "hmac-sha256", hex.EncodeToString(salt)
	f.Crypto.MAC = hex.EncodeToString(h.Sum(nil))
	return f
}

func hexOK(s string) (bool, int) {
	b, err := hex.DecodeString(s)
	return err == nil, len(b)
}

type ksCase struct {
	name    string
	mutate  func(f *ksFile)
	raw     string // if non-empty: written verbatim instead of JSON of the struct
	passwd  string
	macBusted bool // the mutation invalidates the MAC
}

func ksCases() []ksCase {
	var cs []ksCase
	add := func(name string, busted bool, m func(f *ksFile)) { cs = append(cs, ksCase{name: name, mutate: m, passwd: "pw", macBusted: busted}) }
	add("valid", false, func(f *ksFile) {})
	cs = append(cs, ksCase{name: "wrong-password", mutate: func(f *ksFile) {}, passwd: "other", macBusted: true})
	for _, v := range []int{0, 1, 2, 4, -3, 1 << 31} {
		v := v
		add(fmt.Sprintf("version=%d", v), false, func(f *ksFile) { f.Version = v })
	}
	for _, v := range []string{"", "aes-256-ctr", "AES-128-CTR", "aes-128-ctr "} {
		v := v
		add("cipher="+v, false, func(f *ksFile) { f.Crypto.Cipher = v })
	}
	for _, v := range []string{"", "scrypt", "PBKDF2"} {
		v := v
		add("kdf="+v, false, func(f *ksFile) { f.Crypto.KDF = v })
	}
	for _, v := range []string{"", "hmac-sha512", "hmac-sha256 "} {
		v := v
		add("prf="+v, false, func(f *ksFile) { f.Crypto.KDFParams.PRF = v })
	}
	for _, v := range []int{-1 << 31, -33, -32, -1, 0, 1, 15, 16, 31, 33, 64, 1 << 20} {
		v := v
		add(fmt.Sprintf("dklen=%d", v), true, func(f *ksFile) { f.Crypto.KDFParams.DKLen = v })
	}
	for _, v := range []int{-1, 0, 1, 3} {
		v := v
		add(fmt.Sprintf("c=%d", v), true, func(f *ksFile) { f.Crypto.KDFParams.C = v })
	}
	for _, v := range []string{"", "00", "zz", "0", strings.Repeat("00", 15), strings.Repeat("00", 17), strings.Repeat("00", 32)} {
		v := v
		add("iv="+v, false, func(f *ksFile) { f.Crypto.CipherParams.IV = v }) // the iv is not covered by the MAC
	}
	for _, v := range []string{"", "zz", "0", "00"} {
		v := v
		add("mac="+v, true, func(f *ksFile) { f.Crypto.MAC = v })
		add("salt="+v, true, func(f *ksFile) { f.Crypto.KDFParams.Salt = v })
		add("ciphertext="+v, true, func(f *ksFile) { f.Crypto.CipherText = v })
	}
	// pairs: a bad iv or dklen together with another defect
	add("dklen=0,iv=short", true, func(f *ksFile) { f.Crypto.KDFParams.DKLen = 0; f.Crypto.CipherParams.IV = "00" })
	add("dklen=-1,version=2", true, func(f *ksFile) { f.Crypto.KDFParams.DKLen = -1; f.Version = 2 })
	add("iv=short,mac=bad", true, func(f *ksFile) { f.Crypto.CipherParams.IV = "00"; f.Crypto.MAC = "00" })
	for _, raw := range []string{"", "{", "null", "[]", "{}", `{"version":"3"}`, `{"version":3,"crypto":null}`, `{"version":3,"crypto":{"kdfparams":{"dklen":"x"}}}`,
		`{"version":3,"crypto":{"cipher":"aes-128-ctr","kdf":"pbkdf2","kdfparams":{"prf":"hmac-sha256","dklen":-5}}}`,
		`{"version":3,"crypto":{"cipher":"aes-128-ctr","kdf":"pbkdf2","kdfparams":{"prf":"hmac-sha256","dklen":32},"cipherparams":{"iv":"00"}}}`, "\x00\xff"} {
		cs = append(cs, ksCase{name: "raw", raw: raw, passwd: "pw"})
	}
	// key files as other Web3-secret-storage tools write them: the scrypt kdf with its own parameters (n, r, p) — complete,
	// with r or p zero or missing, with n not a power of two, huge — and unknown kdfs with arbitrary parameter objects
	scryptFile := func(params string) string {
		return `{"version":3,"id":"id","address":"addr","crypto":{"cipher":"aes-128-ctr","ciphertext":"` + strings.Repeat("ab", 32) +
			`","cipherparams":{"iv":"` + strings.Repeat("0f", 16) + `"},"kdf":"scrypt","kdfparams":{` + params + `},"mac":"` + strings.Repeat("cd", 32) + `"}}`
	}
	salt := `"salt":"` + strings.Repeat("01", 32) + `"`
	for _, params := range []string{
		`"dklen":32,"n":1024,"r":8,"p":1,` + salt, `"dklen":32,"n":2,"r":1,"p":1,` + salt, `"dklen":32,"n":1024,` + salt, `"dklen":32,"n":1024,"r":8,` + salt,
		`"dklen":32,"n":1024,"p":1,` + salt, `"dklen":32,"n":1024,"r":0,"p":1,` + salt, `"dklen":32,"n":1024,"r":8,"p":0,` + salt, `"dklen":32,"n":262144,"r":0,"p":0,` + salt,
		`"dklen":32,"n":1000,"r":8,"p":1,` + salt, `"dklen":32,"n":0,"r":8,"p":1,` + salt, `"dklen":32,"n":-1024,"r":-8,"p":-1,` + salt,
		`"dklen":32,"n":1024,"r":1073741824,"p":1073741824,` + salt, `"dklen":0,"n":1024,"r":8,"p":1,` + salt, `"dklen":32,"n":"1024","r":8,"p":1,` + salt, `"dklen":32,"n":1024,"r":8,"p":1`} {
		cs = append(cs, ksCase{name: "raw", raw: scryptFile(params), passwd: "pw"})
	}
	for _, kdf := range []string{"argon2id", "bcrypt", "none"} {
		cs = append(cs, ksCase{name: "raw", raw: strings.Replace(scryptFile(`"dklen":32,"m":65536,"t":0,"p":0,`+salt), `"kdf":"scrypt"`, `"kdf":"`+kdf+`"`, 1), passwd: "pw"})
	}
	return cs
}

func runKeystore(seed uint64, n int, out string) {
	o := NewOut(out)
	o.Decl("# profile keystore seed %d", seed)
	dir, err := os.MkdirTemp("", "hx-ks-")
	must(err)
	defer os.RemoveAll(dir)
	ks, err := didcrypto.NewKeyStore(dir)
	must(err)
	findings := []finding{}
	stats := map[string]int{}
	var samples []string
	key := []byte("0123456789abcdef0123456789abcdef")
	for i, c := range ksCases() {
		path := filepath.Join(dir, fmt.Sprintf("case-%d.json", i))
		var content []byte
		var f ksFile
		jsonOK := true
		if c.mutate != nil {
			f = mkKeyFile("pw", key)
			c.mutate(&f)
			content, _ = json.Marshal(f)
		} else {
			content = []byte(c.raw)
			jsonOK = json.Unmarshal(content, &f) == nil
		}
		must(os.WriteFile(path, content, 0o644))
		ans := "K panic"
		func() {
			defer func() {
				if r := recover(); r != nil {
					findings = append(findings, finding{Clause: "C17-keystore-panic", Detail: fmt.Sprintf("KeyStore.Load panicked on %s: %v", c.name, r), Cmd: string(content)})
				}
			}()
			got, err := ks.Load(path, c.passwd)
			if err != nil {
				ans = "K err"
			} else {
				ans = "K ok"
				if string(got) != string(key) {
					findings = append(findings, finding{Clause: "C17-keystore-wrong-key", Detail: "Load returned a key that was not stored: " + c.name, Cmd: string(content)})
				}
			}
		}()
		b := func(x bool) string {
			if x {
				return "1"
			}
			return "0"
		}
		mh, _ := hexOK(f.Crypto.MAC)
		ih, il := hexOK(f.Crypto.CipherParams.IV)
		ch, _ := hexOK(f.Crypto.CipherText)
		sh, _ := hexOK(f.Crypto.KDFParams.Salt)
		macOK := c.mutate != nil && !c.macBusted
		line := joinSp("KS", b(jsonOK), fmt.Sprint(f.Version), toks(f.Crypto.Cipher), toks(f.Crypto.KDF), toks(f.Crypto.KDFParams.PRF), b(mh), b(ih), b(ch), b(sh),
			fmt.Sprint(il), fmt.Sprint(f.Crypto.KDFParams.DKLen), b(macOK))
		o.Cmd(line, ans)
		stats["case:"+strings.SplitN(c.name, "=", 2)[0]]++
		stats["answer:"+ans]++
		if i%9 == 0 {
			samples = append(samples, c.name+" => "+ans)
		}
	}
	// a file written by the real Save loads again (full iteration count)
	if p, err := ks.Save("did:panacea:x#key1", key, "pw"); err == nil {
		if got, err := ks.Load(p, "pw"); err != nil || string(got) != string(key) {
			findings = append(findings, finding{Clause: "C17-keystore-roundtrip", Detail: "Save then Load does not return the key", Cmd: p})
		}
	}
	// C20: concurrent use must make progress (no deadlock)
	stats["concurrency:rounds"] = ksStress(ks, &findings)
	o.Close()
	res := map[string]any{"profile": "keystore", "seed": seed, "commands": o.nCmd, "histories": 1,
		"stats": map[string]any{"distinct_histories": 1, "distinct_nontrivial": o.nCmd, "kinds": stats}, "findings": findings, "samples": samples}
	data, _ := json.MarshalIndent(res, "", " ")
	must(os.WriteFile(out+"/monitor.json", data, 0o644))
}

// ksStress: 8 goroutines LoadByAddress, 4 goroutines Save, 4 goroutines Load; a watchdog reports lack of progress.
func ksStress(ks *didcrypto.KeyStore, findings *[]finding) int {
	key := []byte("0123456789abcdef0123456789abcdef")
	addr := "stress-addr"
	p0, err := ks.Save(addr, key, "pw")
	if err != nil {
		return 0
	}
	var ops int64
	var wg sync.WaitGroup
	stop := make(chan struct{})
	worker := func(f func()) {
		wg.Add(1)
		go func() {
			defer wg.Done()
			for {
				select {
				case <-stop:
					return
				default:
					f()
					atomic.AddInt64(&ops, 1)
				}
			}
		}()
	}
	for i := 0; i < 8; i++ {
		worker(func() { ks.LoadByAddress(addr, "wrong") }) // a wrong password: the MAC check fails after the derivation
	}
	for i := 0; i < 4; i++ {
		i := i
		worker(func() { ks.Save(fmt.Sprintf("saver-%d", i), key[:4], "pw") })
	}
	for i := 0; i < 4; i++ {
		worker(func() { ks.Load(p0, "wrong") })
	}
	// a reader of an address that is being (re)saved must get the key, a wrong-password / not-found error, never a
	// half-written file (Save must exclude readers)
	var torn atomic.Value
	for i := 0; i < 4; i++ {
		i := i
		worker(func() {
			_, err := ks.LoadByAddress(fmt.Sprintf("saver-%d", i), "pw")
			if err != nil && (strings.Contains(err.Error(), "fail to decode encryptedKey") || strings.Contains(err.Error(), "unexpected end") || strings.Contains(err.Error(), "EOF")) {
				torn.CompareAndSwap(nil, err.Error())
			}
		})
	}
	defer func() {
		if t := torn.Load(); t != nil {
			*findings = append(*findings, finding{Clause: "C20-keystore-torn-read", Detail: "LoadByAddress, concurrent with Save of the same address, read a half-written key file: " + t.(string), Cmd: "4 x Save(saver-i), 4 x LoadByAddress(saver-i)"})
		}
	}()
	// the error paths: an address without any key file, a path that does not exist, a file that is not a key file
	worker(func() { ks.LoadByAddress("no-such-address", "pw"); time.Sleep(20 * time.Millisecond) })
	worker(func() { ks.Load(p0+".missing", "pw"); time.Sleep(20 * time.Millisecond) })
	worker(func() { ks.LoadByAddress("", ""); time.Sleep(20 * time.Millisecond) })
	// progress watchdog: the counter must keep moving
	deadline := time.Now().Add(7 * time.Second)
	last := int64(-1)
	stuck := 0
	for time.Now().Before(deadline) {
		time.Sleep(500 * time.Millisecond)
		cur := atomic.LoadInt64(&ops)
		if cur == last {
			stuck++
		} else {
			stuck = 0
		}
		last = cur
		if stuck >= 10 {
			*findings = append(*findings, finding{Clause: "C20-keystore-deadlock", Detail: fmt.Sprintf("16 goroutines using the key store made no progress for 5 s after %d operations", cur), Cmd: "8 x LoadByAddress, 4 x Save, 4 x Load"})
			close(stop)
			return int(cur) // the goroutines are blocked for good; do not wait for them
		}
	}
	close(stop)
	done := make(chan struct{})
	go func() { wg.Wait(); close(done) }()
	select {
	case <-done:
	case <-time.After(20 * time.Second):
		*findings = append(*findings, finding{Clause: "C20-keystore-deadlock", Detail: "goroutines using the key store did not finish", Cmd: "8 x LoadByAddress, 4 x Save, 4 x Load"})
	}
	return int(atomic.LoadInt64(&ops))
}
