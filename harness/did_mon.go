package main

import (
	"fmt"
	"strings"

	"github.com/btcsuite/btcutil/base58"
	cmtsecp "github.com/cometbft/cometbft/crypto/secp256k1"
	didtypes "github.com/medibloc/panacea-core/v2/x/did/types"
)

// didMonitor: implementation-only oracles for C03, C04, C05, C11.
type didMonitor struct {
	before      string
	stored      map[string]didtypes.DIDDocumentWithSeq // entries read before the tx, by DID
	acceptedMsg map[string]bool                        // inner message (without relayer) accepted earlier
	tombstoned  map[string]bool
}

func newDidMonitor() *didMonitor {
	return &didMonitor{acceptedMsg: map[string]bool{}, tombstoned: map[string]bool{}}
}

func (m *didMonitor) read(x *Exec, did string) didtypes.DIDDocumentWithSeq {
	return x.C.App.DidKeeper.GetDIDDocument(x.C.Ctx(), did)
}

func (m *didMonitor) BeforeTx(x *Exec, tx *TxInfo) {
	m.before = x.dump("did")
	m.stored = map[string]didtypes.DIDDocumentWithSeq{}
	for _, pm := range tx.Msgs {
		if strings.HasPrefix(pm.Kind, "did.") {
			if _, ok := m.stored[pm.Args[0]]; !ok {
				m.stored[pm.Args[0]] = m.read(x, pm.Args[0])
			}
		}
	}
}

// authKeys returns the secp256k1 keys that doc lists under authentication with an ES256K type
func authKeys(doc *didtypes.DIDDocument, vmid string) [][]byte {
	var out [][]byte
	if doc == nil {
		return nil
	}
	add := func(vm didtypes.VerificationMethod) {
		if vm.Id != vmid || (vm.Type != didtypes.ES256K_2019 && vm.Type != didtypes.ES256K_2018) {
			return
		}
		if k := base58.Decode(vm.PublicKeyBase58); len(k) == cmtsecp.PubKeySize {
			out = append(out, k)
		}
	}
	for _, r := range doc.Authentications {
		if vm := r.GetVerificationMethod(); vm != nil {
			add(*vm)
		} else {
			for _, v := range doc.VerificationMethods {
				if v.Id == r.GetVerificationMethodId() {
					add(*v)
				}
			}
		}
	}
	return out
}

func validProof(keys [][]byte, data *didtypes.DIDDocument, seq uint64, sig []byte) bool {
	bz, err := data.Marshal()
	if err != nil {
		return false
	}
	dws := didtypes.DataWithSeq{Data: bz, Sequence: seq}
	signed, _ := dws.Marshal()
	for _, k := range keys {
		if cmtsecp.PubKey(k).VerifySignature(signed, sig) {
			return true
		}
	}
	return false
}

// otherSequence: the proof does not verify over the stored sequence; does it verify over a nearby or truncated one?
func otherSequence(keys [][]byte, data *didtypes.DIDDocument, stored uint64, sig []byte) (uint64, bool) {
	cands := []uint64{0, 1, stored - 1, stored + 1, stored & 0xff, stored & 0xffff, stored & 0xffffffff, stored >> 8, stored >> 32, uint64(uint32(stored)) << 32}
	for _, c := range cands {
		if c != stored && validProof(keys, data, c, sig) {
			return c, true
		}
	}
	return 0, false
}

func (m *didMonitor) AfterTx(x *Exec, tx *TxInfo, result string) {
	ok := strings.HasPrefix(result, "R ok")
	if !ok {
		if after := x.dump("did"); after != m.before {
			x.Flag("C03-else-noop", "a rejected transaction changed the did store: "+result)
		}
		return
	}
	// within one transaction a DID may be touched several times: follow the entries message by message
	cur := map[string]didtypes.DIDDocumentWithSeq{}
	for k, v := range m.stored {
		cur[k] = v
	}
	for _, pm := range tx.Msgs {
		if !strings.HasPrefix(pm.Kind, "did.") {
			continue
		}
		did := pm.Args[0]
		before := cur[did]
		inner := pm.Kind + " " + strings.Join(pm.Args[:len(pm.Args)-1], " ") // without the relaying account
		if m.acceptedMsg[inner] {
			x.Flag("C04-replay", "a message that was accepted before was accepted again: "+pm.Kind+" for "+did)
		}
		m.acceptedMsg[inner] = true
		// a proof (signature over content and sequence) is accepted at most once, whatever the did field and the relayer
		var sigHex string
		switch msg := pm.Msg.(type) {
		case *didtypes.MsgCreateDIDRequest:
			sigHex = fmt.Sprintf("%x", msg.Signature)
		case *didtypes.MsgUpdateDIDRequest:
			sigHex = fmt.Sprintf("%x", msg.Signature)
		case *didtypes.MsgDeactivateDIDRequest:
			sigHex = fmt.Sprintf("%x", msg.Signature)
		}
		if sigHex != "" {
			// (an update that re-submits the created document at sequence 0 legitimately carries the bytes of the creation
			// proof — the signed payloads of create and update are the same — so only reuse within one kind counts)
			pk := "proof:" + pm.Kind + ":" + sigHex
			if m.acceptedMsg[pk] {
				x.Flag("C04-replay", "a "+pm.Kind+" proof that was accepted before was accepted again, now for "+did)
			}
			m.acceptedMsg[pk] = true
		}
		if m.tombstoned[did] {
			x.Flag("C05-tombstone", pm.Kind+" accepted on a deactivated DID "+did)
		}
		switch pm.Kind {
		case "did.Create":
			msg := pm.Msg.(*didtypes.MsgCreateDIDRequest)
			if !before.Empty() {
				x.Flag("C05-create-once", "create accepted although the DID already has an entry")
			}
			if !validProof(authKeys(msg.Document, msg.VerificationMethodId), msg.Document, 0, msg.Signature) {
				x.Flag("C03-create-proof", "create accepted without a valid proof by an authentication key of the submitted document")
			}
			cur[did] = didtypes.NewDIDDocumentWithSeq(msg.Document, 0)
		case "did.Update":
			msg := pm.Msg.(*didtypes.MsgUpdateDIDRequest)
			if !validProof(authKeys(before.Document, msg.VerificationMethodId), msg.Document, before.Sequence, msg.Signature) {
				x.Flag("C03-update-proof", "update accepted without a valid proof (current authentication key, new content, current sequence)")
				x.Flag("C11-foreign-proof", "the entry under "+did+" was replaced on a proof that no key registered under that DID made: the identifier is occupied with someone else's document")
				if s2, ok := otherSequence(authKeys(before.Document, msg.VerificationMethodId), msg.Document, before.Sequence, msg.Signature); ok {
					x.Flag("C04-proof-over-other-sequence", fmt.Sprintf("an update of %s was accepted at sequence %d on a proof made over sequence %d", did, before.Sequence, s2))
				}
			}
			cur[did] = didtypes.NewDIDDocumentWithSeq(msg.Document, before.Sequence+1)
		case "did.Deactivate":
			msg := pm.Msg.(*didtypes.MsgDeactivateDIDRequest)
			if !validProof(authKeys(before.Document, msg.VerificationMethodId), &didtypes.DIDDocument{Id: did}, before.Sequence, msg.Signature) {
				x.Flag("C03-deactivate-proof", "deactivation accepted without a valid proof")
				x.Flag("C11-foreign-proof", "the entry under "+did+" was deactivated on a proof that no key registered under that DID made")
				if s2, ok := otherSequence(authKeys(before.Document, msg.VerificationMethodId), &didtypes.DIDDocument{Id: did}, before.Sequence, msg.Signature); ok {
					x.Flag("C04-proof-over-other-sequence", fmt.Sprintf("a deactivation of %s was accepted at sequence %d on a proof made over sequence %d", did, before.Sequence, s2))
				}
			}
			cur[did] = didtypes.NewDIDDocumentWithSeq(&didtypes.DIDDocument{}, before.Sequence+1)
			m.tombstoned[did] = true
		}
	}
	// C04: the stored sequence is what the accepted messages imply
	for did, want := range cur {
		got := m.read(x, did)
		if got.Sequence != want.Sequence {
			x.Flag("C04-seq-step", fmt.Sprintf("sequence of %s is %d, expected %d", did, got.Sequence, want.Sequence))
		}
	}
	m.checkIds(x)
}

// C11: every active entry is a document about its own key
func (m *didMonitor) checkIds(x *Exec) {
	for _, kv := range x.C.DumpStore("did") {
		var e didtypes.DIDDocumentWithSeq
		if err := x.C.App.AppCodec().UnmarshalLengthPrefixed(kv[1], &e); err != nil {
			continue
		}
		key := string(kv[0][1:])
		if e.Document == nil {
			continue
		}
		if e.Document.Id == "" {
			if e.Sequence == 0 {
				x.Flag("C11-empty-id", "an entry with an empty-id document and sequence 0 is stored under "+key+" (invisible to reads, create can be repeated)")
			}
			continue
		}
		if e.Document.Id != key {
			x.Flag("C11-id-mismatch", "the registry holds under "+key+" a document whose id is "+e.Document.Id)
		}
	}
}

func (m *didMonitor) AfterBlock(x *Exec) {
	for did := range m.tombstoned {
		res := x.C.Query("/panacea.did.v2.Query/DID", &didtypes.QueryDIDRequest{DidBase64: base64Std([]byte(did))}, 0)
		if res.Code == 0 || !strings.Contains(res.Log, "deactivated") {
			x.Flag("C05-tombstone-read", "a deactivated DID is not reported as deactivated: "+did)
		}
	}
}
