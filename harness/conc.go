package main

// Profile "conc" (C20): the stateless code of the custom modules — ValidateBasic, GetSigners, GetSignBytes, String — is
// run from several goroutines at once over the boundary cases of the valid profile plus DID documents with many
// distinct unregistered key types, and the key store is stressed.  The profile is meant to be run by the binary built
// with the race detector (GORACE log_path is read back by the checker); without it, it still catches runtime aborts such
// as "concurrent map read and map write" (the process dies: the checker reports the stderr).

import (
	"encoding/json"
	"fmt"
	"os"
	"strings"
	"sync"
	"sync/atomic"

	sdk "github.com/cosmos/cosmos-sdk/types"
	"github.com/cosmos/cosmos-sdk/x/auth/migrations/legacytx"
	didcrypto "github.com/medibloc/panacea-core/v2/x/did/client/crypto"
	didkeeper "github.com/medibloc/panacea-core/v2/x/did/keeper"
	didtypes "github.com/medibloc/panacea-core/v2/x/did/types"
)

func runConc(seed uint64, n int, out string) {
	o := NewOut(out)
	o.Decl("# profile conc seed %d", seed)
	r := NewRNG(seed)
	x := NewExec(o)
	var msgs []sdk.Msg
	for _, l := range genValidCases(r.Fork(), false) {
		f := strings.Split(l, " ")
		switch f[0] {
		case "DOC", "DCTX", "DCTRL", "DVM", "DREL", "DSVC":
			x.docLine(f)
		case "VB":
			if pm, err := x.parseMsg(append([]string{"M"}, f[1:]...)); err == nil {
				msgs = append(msgs, pm.Msg)
			}
		}
	}
	// DID documents whose verification methods use key types nobody has registered, each seen for the first time
	// by whichever goroutine gets there first
	key := mkDidKey(0)
	for i := 0; i < 60*max(1, n); i++ {
		did := "did:panacea:" + strings.Repeat("1", 32)
		vm := did + "#k"
		doc := &didtypes.DIDDocument{Contexts: &didtypes.JSONStringOrStrings{didtypes.ContextDIDV1}, Id: did,
			VerificationMethods: []*didtypes.VerificationMethod{{Id: vm, Type: fmt.Sprintf("VendorKeyType%d-%d", seed, i), Controller: did, PublicKeyBase58: key.b58}},
			Authentications:     []didtypes.VerificationRelationship{didtypes.NewVerificationRelationship(vm)}}
		msgs = append(msgs, &didtypes.MsgCreateDIDRequest{Did: did, Document: doc, VerificationMethodId: vm, Signature: []byte("s"), FromAddress: mkAcct(0).Addr.String()})
		msgs = append(msgs, &didtypes.MsgUpdateDIDRequest{Did: did, Document: doc, VerificationMethodId: vm, Signature: []byte("s"), FromAddress: mkAcct(0).Addr.String()})
	}
	const G = 8
	var calls, panics, proofs, proofBad int64
	var firstPanic, firstProof atomic.Value
	var wg sync.WaitGroup
	for g := 0; g < G; g++ {
		wg.Add(1)
		go func(g int) {
			defer wg.Done()
			rr := NewRNG(seed*131 + uint64(g))
			order := rr.Perm(len(msgs))
			for _, i := range order {
				m := msgs[i]
				func() {
					defer func() {
						if e := recover(); e != nil {
							atomic.AddInt64(&panics, 1)
							firstPanic.CompareAndSwap(nil, fmt.Sprintf("%T: %v", m, e))
						}
					}()
					atomic.AddInt64(&calls, 1)
					if err := m.ValidateBasic(); err == nil {
						_ = m.GetSigners()
						if lm, ok := m.(legacytx.LegacyMsg); ok {
							_ = lm.GetSignBytes()
						}
					}
					_ = fmt.Sprintf("%v", m)
				}()
			}
			// the DID proof code (what a simulation, a CheckTx and the block execution run side by side): every goroutine makes
			// and checks proofs over its own documents and sequences; a proof made here must verify here
			for i := 0; i < 120; i++ {
				did := "did:panacea:" + strings.Repeat(string(didtypes.Base58Charset[1+g]), 32+i%12)
				doc := &didtypes.DIDDocument{Id: did, VerificationMethods: []*didtypes.VerificationMethod{{Id: did + "#key1", Type: didtypes.ES256K_2019, Controller: did, PublicKeyBase58: key.b58}},
					Authentications: []didtypes.VerificationRelationship{didtypes.NewVerificationRelationship(did + "#key1")}}
				seq := uint64(g)<<32 + uint64(i)
				func() {
					defer func() {
						if e := recover(); e != nil {
							atomic.AddInt64(&proofBad, 1)
							firstProof.CompareAndSwap(nil, fmt.Sprintf("panic in the proof code: %v", e))
						}
					}()
					sig, err := didtypes.Sign(doc, seq, key.priv)
					if err != nil {
						return
					}
					atomic.AddInt64(&proofs, 1)
					if _, ok := didtypes.Verify(sig, doc, seq, key.priv.PubKey()); !ok {
						atomic.AddInt64(&proofBad, 1)
						firstProof.CompareAndSwap(nil, fmt.Sprintf("a proof made over (%s, %d) did not verify over the same data in the goroutine that made it", did, seq))
					}
					if _, err := didkeeper.VerifyDIDOwnership(doc, seq, doc, did+"#key1", sig); err != nil {
						atomic.AddInt64(&proofBad, 1)
						firstProof.CompareAndSwap(nil, fmt.Sprintf("VerifyDIDOwnership refused a proof made over (%s, %d): %v", did, seq, err))
					}
				}()
			}
		}(g)
	}
	wg.Wait()
	findings := []finding{}
	stats := map[string]int{"conc-validate-calls": int(calls), "conc-messages": len(msgs), "goroutines": G}
	if p := firstPanic.Load(); p != nil {
		// the valid profile already decides sequential panics; here only note them
		stats["panics-under-concurrency"] = int(panics)
	}
	stats["did-proofs-made-and-checked"] = int(proofs)
	if p := firstProof.Load(); p != nil {
		findings = append(findings, finding{Clause: "C20-proof-code-not-thread-safe", Detail: fmt.Sprintf("%d of %d proofs: %v", proofBad, proofs, p), Cmd: "conc profile: 8 goroutines, types.Sign / types.Verify / keeper.VerifyDIDOwnership"})
	}
	// key store from several goroutines
	dir, err := os.MkdirTemp("", "hx-ks-")
	must(err)
	defer os.RemoveAll(dir)
	ks, err := didcrypto.NewKeyStore(dir)
	must(err)
	stats["keystore-stress-ops"] = ksStress(ks, &findings)
	o.Close()
	res := map[string]any{"profile": "conc", "seed": seed, "commands": int(calls), "histories": 1,
		"stats": map[string]any{"distinct_histories": 1, "distinct_nontrivial": len(msgs), "kinds": stats},
		"findings": findings, "samples": []string{fmt.Sprintf("%d messages x %d goroutines: ValidateBasic, GetSigners, GetSignBytes, String", len(msgs), G)}}
	data, _ := json.MarshalIndent(res, "", " ")
	must(os.WriteFile(out+"/monitor.json", data, 0o644))
}
