package main

// Profile "conc" (C20): the stateless code of the custom modules — ValidateBasic, GetSigners, GetSignBytes, String — is
// run from several goroutines at once over the boundary cases of the valid profile plus DID documents with many
// distinct unregistered key types, and the key store is stressed.  The profile is meant to be run by the binary built
// with the race detector (GORACE log_path is read back by the checker); without it, it still catches runtime aborts such
// as "concurrent map read and map write" (the process dies: the checker reports the stderr).

import (
	"encoding/json"
	"fmt"
	"os"
	"strings"
	"sync"
	"sync/atomic"

	sdk "github.com/cosmos/cosmos-sdk/types"
	"github.com/cosmos/cosmos-sdk/x/auth/migrations/legacytx"
	didcrypto "github.com/medibloc/panacea-core/v2/x/did/client/crypto"
	didtypes "github.com/medibloc/panacea-core/v2/x/did/types"
)

func runConc(seed uint64, n int, out string) {
	o := NewOut(out)
	o.Decl("# profile conc seed %d", seed)
	r := NewRNG(seed)
	x := NewExec(o)
	var msgs []sdk.Msg
	for _, l := range genValidCases(r.Fork(), false) {
		f := strings.Split(l, " ")
		switch f[0] {
		case "DOC", "DCTX", "DCTRL", "DVM", "DREL", "DSVC":
			x.docLine(f)
		case "VB":
			if pm, err := x.parseMsg(append([]string{"M"}, f[1:]...)); err == nil {
				msgs = append(msgs, pm.Msg)
			}
		}
	}
	// DID documents whose verification methods use key types nobody has registered, each seen for the first time
	// by whichever goroutine gets there first
	key := mkDidKey(0)
	for i := 0; i < 60*max(1, n); i++ {
		did := "did:panacea:" + strings.Repeat("1", 32)
		vm := did + "#k"
		doc := &didtypes.DIDDocument{Contexts: &didtypes.JSONStringOrStrings{didtypes.ContextDIDV1}, Id: did,
			VerificationMethods: []*didtypes.VerificationMethod{{Id: vm, Type: fmt.Sprintf("VendorKeyType%d-%d", seed, i), Controller: did, PublicKeyBase58: key.b58}},
			Authentications:     []didtypes.VerificationRelationship{didtypes.NewVerificationRelationship(vm)}}
		msgs = append(msgs, &didtypes.MsgCreateDIDRequest{Did: did, Document: doc, VerificationMethodId: vm, Signature: []byte("s"), FromAddress: mkAcct(0).Addr.String()})
		msgs = append(msgs, &didtypes.MsgUpdateDIDRequest{Did: did, Document: doc, VerificationMethodId: vm, Signature: []byte("s"), FromAddress: mkAcct(0).Addr.String()})
	}
	const G = 8
	var calls, panics int64
	var firstPanic atomic.Value
	var wg sync.WaitGroup
	for g := 0; g < G; g++ {
		wg.Add(1)
		go func(g int) {
			defer wg.Done()
			rr := NewRNG(seed*131 + uint64(g))
			order := rr.Perm(len(msgs))
			for _, i := range order {
				m := msgs[i]
				func() {
					defer func() {
						if e := recover(); e != nil {
							atomic.AddInt64(&panics, 1)
							firstPanic.CompareAndSwap(nil, fmt.Sprintf("%T: %v", m, e))
						}
					}()
					atomic.AddInt64(&calls, 1)
					if err := m.ValidateBasic(); err == nil {
						_ = m.GetSigners()
						if lm, ok := m.(legacytx.LegacyMsg); ok {
							_ = lm.GetSignBytes()
						}
					}
					_ = fmt.Sprintf("%v", m)
				}()
			}
		}(g)
	}
	wg.Wait()
	findings := []finding{}
	stats := map[string]int{"conc-validate-calls": int(calls), "conc-messages": len(msgs), "goroutines": G}
	if p := firstPanic.Load(); p != nil {
		// the valid profile already decides sequential panics; here only note them
		stats["panics-under-concurrency"] = int(panics)
	}
	// key store from several goroutines
	dir, err := os.MkdirTemp("", "hx-ks-")
	must(err)
	defer os.RemoveAll(dir)
	ks, err := didcrypto.NewKeyStore(dir)
	must(err)
	stats["keystore-stress-ops"] = ksStress(ks, &findings)
	o.Close()
	res := map[string]any{"profile": "conc", "seed": seed, "commands": int(calls), "histories": 1,
		"stats": map[string]any{"distinct_histories": 1, "distinct_nontrivial": len(msgs), "kinds": stats},
		"findings": findings, "samples": []string{fmt.Sprintf("%d messages x %d goroutines: ValidateBasic, GetSigners, GetSignBytes, String", len(msgs), G)}}
	data, _ := json.MarshalIndent(res, "", " ")
	must(os.WriteFile(out+"/monitor.json", data, 0o644))
}
