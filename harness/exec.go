package main

// The generic history executor: parses history lines, drives the real application, writes the
// history file for the model (with the bech32 tables computed by the real code) and the
// implementation's canonical observables.  Monitors hook into transaction and block events.

import (
	"os"
	upgradetypes "github.com/cosmos/cosmos-sdk/x/upgrade/types"
	"bytes"
	"encoding/base64"
	"encoding/json"
	"encoding/hex"
	"fmt"
	"sort"
	"strconv"
	"strings"
	"time"

	abci "github.com/cometbft/cometbft/abci/types"
	codectypes "github.com/cosmos/cosmos-sdk/codec/types"
	sdk "github.com/cosmos/cosmos-sdk/types"
	"github.com/cosmos/cosmos-sdk/types/query"
	"github.com/cosmos/cosmos-sdk/types/tx/signing"
	authtypes "github.com/cosmos/cosmos-sdk/x/auth/types"
	vestingtypes "github.com/cosmos/cosmos-sdk/x/auth/vesting/types"
	"github.com/cosmos/cosmos-sdk/x/authz"
	banktypes "github.com/cosmos/cosmos-sdk/x/bank/types"
	burntypes "github.com/medibloc/panacea-core/v2/x/burn/types"
	"github.com/medibloc/panacea-core/v2/app"
	errorsmod "cosmossdk.io/errors"
	dbm "github.com/cometbft/cometbft-db"
	"github.com/btcsuite/btcutil/base58"
	cmtsecp "github.com/cometbft/cometbft/crypto/secp256k1"
	aoltypes "github.com/medibloc/panacea-core/v2/x/aol/types"
	didtypes "github.com/medibloc/panacea-core/v2/x/did/types"
	pnfttypes "github.com/medibloc/panacea-core/v2/x/pnft/types"
	"github.com/cosmos/cosmos-sdk/x/nft"
)

const feeDenom = "umed"

// ParsedMsg keeps the textual form next to the sdk.Msg so that monitors can reason about it.
type ParsedMsg struct {
	Kind   string
	Args   []string // decoded argument strings (raw bytes as Go strings)
	Msg    sdk.Msg
	InExec bool
	Exec   string // grantee string when InExec
}

type TxInfo struct {
	SigMod string
	Lines   []string
	Fee     sdk.Coins
	Signers []sdk.AccAddress
	Msgs    []ParsedMsg // flattened, in execution order
	Top     []sdk.Msg
}

type Monitor interface {
	BeforeTx(x *Exec, tx *TxInfo)
	AfterTx(x *Exec, tx *TxInfo, result string)
	AfterBlock(x *Exec)
}

type Exec struct {
	C        *Chain
	Out      *Out
	Mons     []Monitor
	Findings []finding
	seenAddr map[string]bool
	seenBech map[string]bool
	cur      *TxInfo
	inExec   bool
	execG    string
	execMsgs []sdk.Msg
	history  []string // every input line executed so far (for replay files)
	Stats    map[string]int
	NAccts   int
	mode     signing.SignMode
	Docs     map[string]*didtypes.DIDDocument
	seenK58  map[string]bool
	LastDelta string
	BurnSpendableBefore sdk.Coins
	genLine  []string            // the pending "# GENESIS" parameters; the chain is built lazily
	genAol   *aoltypes.GenesisState
	genDid   *didtypes.GenesisState
	Custom   map[string]json.RawMessage
	Node     *nodeState // node profile: twin replica, commit hashes, background readers
	qHeight  int64      // height of the query being served (QH), 0 = latest
	WantNode bool
	pendingUpgrade string
	signSeen map[string]signSeen
	wiring   *app.App
	upgradeHeight  int64
	WantConc int
}

// probeApp: an application object used only to read the static wiring (mounted store keys)
func (x *Exec) probeApp() *app.App {
	if x.C != nil {
		return x.C.App
	}
	if x.wiring == nil {
		home, err := os.MkdirTemp("", "hx-wiring-")
		must(err)
		x.wiring = newApp(dbmMem(), home)
		os.RemoveAll(home)
	}
	return x.wiring
}

func NewExec(out *Out) *Exec {
	return &Exec{Out: out, seenAddr: map[string]bool{}, seenBech: map[string]bool{}, Stats: map[string]int{},
		mode: signing.SignMode_SIGN_MODE_DIRECT, Docs: map[string]*didtypes.DIDDocument{}, seenK58: map[string]bool{}}
}

func (x *Exec) Flag(clause, detail string) {
	if len(x.Findings) < 40 {
		h := append([]string{}, x.history...)
		x.Findings = append(x.Findings, finding{Clause: clause, Detail: detail, Cmd: strings.Join(h, "\n")})
	}
}

// declAddrString tells the model what AccAddressFromBech32 answers for s (absent = does not decode)
func (x *Exec) declAddrString(s string) {
	if x.seenAddr[s] {
		return
	}
	x.seenAddr[s] = true
	if a, err := sdk.AccAddressFromBech32(s); err == nil {
		x.Out.Decl("ADDR %s %s", toks(s), tok(a))
		x.declBech(a)
	}
}
func (x *Exec) declBech(a []byte) {
	if x.seenBech[string(a)] {
		return
	}
	x.seenBech[string(a)] = true
	x.Out.Decl("BECH %s %s", tok(a), toks(sdk.AccAddress(a).String()))
}

func parseCoins(t string) sdk.Coins {
	if t == "-" {
		return sdk.Coins{}
	}
	var cs sdk.Coins
	for _, p := range strings.Split(t, ",") {
		da := strings.Split(p, ":")
		d, err := hex.DecodeString(da[0])
		must(err)
		n, ok := sdk.NewIntFromString(da[1])
		if !ok {
			panic("bad amount " + da[1])
		}
		cs = append(cs, sdk.Coin{Denom: string(d), Amount: n}) // deliberately unsorted/unvalidated
	}
	return cs
}

func coinsTok(cs sdk.Coins) string {
	if len(cs) == 0 {
		return "-"
	}
	var p []string
	for _, c := range cs {
		p = append(p, hex.EncodeToString([]byte(c.Denom))+":"+c.Amount.String())
	}
	return strings.Join(p, ",")
}

func s(t string) string { return string(untok(t)) }

func (x *Exec) parseMsg(f []string) (ParsedMsg, error) {
	kind := f[1]
	a := f[2:]
	pm := ParsedMsg{Kind: kind}
	str := func(i int) string { return s(a[i]) }
	switch kind {
	case "aol.CreateTopic":
		pm.Args = []string{str(0), str(1), str(2)}
		x.declAddrString(str(2))
		pm.Msg = &aoltypes.MsgCreateTopicRequest{TopicName: str(0), Description: str(1), OwnerAddress: str(2)}
	case "aol.AddWriter":
		pm.Args = []string{str(0), str(1), str(2), str(3), str(4)}
		x.declAddrString(str(3))
		x.declAddrString(str(4))
		pm.Msg = &aoltypes.MsgAddWriterRequest{TopicName: str(0), Moniker: str(1), Description: str(2), WriterAddress: str(3), OwnerAddress: str(4)}
	case "aol.DeleteWriter":
		pm.Args = []string{str(0), str(1), str(2)}
		x.declAddrString(str(1))
		x.declAddrString(str(2))
		pm.Msg = &aoltypes.MsgDeleteWriterRequest{TopicName: str(0), WriterAddress: str(1), OwnerAddress: str(2)}
	case "aol.AddRecord":
		pm.Args = []string{str(0), str(1), str(2), str(3), str(4), str(5)}
		x.declAddrString(str(3))
		x.declAddrString(str(4))
		if str(5) != "" {
			x.declAddrString(str(5))
		}
		pm.Msg = &aoltypes.MsgAddRecordRequest{TopicName: str(0), Key: untok(a[1]), Value: untok(a[2]), WriterAddress: str(3), OwnerAddress: str(4), FeePayerAddress: str(5)}
	case "did.Create", "did.Update":
		var doc *didtypes.DIDDocument
		if a[1] != "-" {
			d, ok := x.Docs[a[1]]
			if !ok {
				return pm, fmt.Errorf("unknown document reference %s", a[1])
			}
			doc = d
		}
		pm.Args = []string{str(0), a[1], str(2), str(3), str(4)}
		x.declAddrString(str(4))
		if kind == "did.Create" {
			pm.Msg = &didtypes.MsgCreateDIDRequest{Did: str(0), Document: doc, VerificationMethodId: str(2), Signature: untok(a[3]), FromAddress: str(4)}
		} else {
			pm.Msg = &didtypes.MsgUpdateDIDRequest{Did: str(0), Document: doc, VerificationMethodId: str(2), Signature: untok(a[3]), FromAddress: str(4)}
		}
	case "did.Deactivate":
		pm.Args = []string{str(0), str(1), str(2), str(3)}
		x.declAddrString(str(3))
		pm.Msg = &didtypes.MsgDeactivateDIDRequest{Did: str(0), VerificationMethodId: str(1), Signature: untok(a[2]), FromAddress: str(3)}
	case "pnft.CreateDenom":
		pm.Args = []string{str(0), str(1), str(2), str(3), str(4), str(5), str(6), str(7)}
		x.declAddrString(str(6))
		pm.Msg = &pnfttypes.MsgCreateDenomRequest{Id: str(0), Name: str(1), Symbol: str(2), Description: str(3), Uri: str(4), UriHash: str(5), Creator: str(6), Data: str(7)}
	case "pnft.UpdateDenom":
		pm.Args = []string{str(0), str(1), str(2), str(3), str(4), str(5), str(6), str(7)}
		x.declAddrString(str(6))
		pm.Msg = &pnfttypes.MsgUpdateDenomRequest{Id: str(0), Name: str(1), Symbol: str(2), Description: str(3), Uri: str(4), UriHash: str(5), Updater: str(6), Data: str(7)}
	case "pnft.DeleteDenom":
		pm.Args = []string{str(0), str(1)}
		x.declAddrString(str(1))
		pm.Msg = &pnfttypes.MsgDeleteDenomRequest{Id: str(0), Remover: str(1)}
	case "pnft.TransferDenom":
		pm.Args = []string{str(0), str(1), str(2)}
		x.declAddrString(str(1))
		x.declAddrString(str(2))
		pm.Msg = &pnfttypes.MsgTransferDenomRequest{Id: str(0), Sender: str(1), Receiver: str(2)}
	case "pnft.Mint":
		pm.Args = []string{str(0), str(1), str(2), str(3), str(4), str(5), str(6), str(7)}
		x.declAddrString(str(7))
		pm.Msg = &pnfttypes.MsgMintPNFTRequest{DenomId: str(0), Id: str(1), Name: str(2), Description: str(3), Uri: str(4), UriHash: str(5), Data: str(6), Creator: str(7)}
	case "pnft.Transfer":
		pm.Args = []string{str(0), str(1), str(2), str(3)}
		x.declAddrString(str(2))
		x.declAddrString(str(3))
		pm.Msg = &pnfttypes.MsgTransferPNFTRequest{DenomId: str(0), Id: str(1), Sender: str(2), Receiver: str(3)}
	case "pnft.Burn":
		pm.Args = []string{str(0), str(1), str(2)}
		x.declAddrString(str(2))
		pm.Msg = &pnfttypes.MsgBurnPNFTRequest{DenomId: str(0), Id: str(1), Burner: str(2)}
	case "bank.Send":
		pm.Args = []string{str(0), str(1), a[2]}
		x.declAddrString(str(0))
		x.declAddrString(str(1))
		pm.Msg = &banktypes.MsgSend{FromAddress: str(0), ToAddress: str(1), Amount: parseCoins(a[2])}
	case "bank.MultiSend":
		// one input (SDK 0.47 allows exactly one), any number of outputs: from coins to1 coins1 to2 coins2 ...
		pm.Args = append([]string{}, a...)
		x.declAddrString(str(0))
		msg := &banktypes.MsgMultiSend{Inputs: []banktypes.Input{{Address: str(0), Coins: parseCoins(a[1])}}}
		for i := 2; i+1 < len(a); i += 2 {
			x.declAddrString(str(i))
			msg.Outputs = append(msg.Outputs, banktypes.Output{Address: str(i), Coins: parseCoins(a[i+1])})
		}
		pm.Msg = msg
	case "vesting.Create":
		pm.Args = []string{str(0), str(1), a[2], a[3]}
		x.declAddrString(str(0))
		x.declAddrString(str(1))
		et, err := strconv.ParseInt(a[3], 10, 64)
		must(err)
		pm.Msg = &vestingtypes.MsgCreateVestingAccount{FromAddress: str(0), ToAddress: str(1), Amount: parseCoins(a[2]), EndTime: et, Delayed: true}
	case "authz.Grant":
		pm.Args = []string{str(0), str(1), str(2), a[3]}
		x.declAddrString(str(0))
		x.declAddrString(str(1))
		var exp *time.Time
		if a[3] != "-" {
			n, err := strconv.ParseInt(a[3], 10, 64)
			must(err)
			t := time.Unix(0, n).UTC()
			exp = &t
		}
		any, err := codectypes.NewAnyWithValue(authz.NewGenericAuthorization(str(2)))
		must(err)
		pm.Msg = &authz.MsgGrant{Granter: str(0), Grantee: str(1), Grant: authz.Grant{Authorization: any, Expiration: exp}}
	case "authz.Revoke":
		pm.Args = []string{str(0), str(1), str(2)}
		x.declAddrString(str(0))
		x.declAddrString(str(1))
		pm.Msg = &authz.MsgRevoke{Granter: str(0), Grantee: str(1), MsgTypeUrl: str(2)}
	default:
		return pm, fmt.Errorf("unknown message kind %s", kind)
	}
	return pm, nil
}

// Run executes input history lines.
func (x *Exec) Run(lines []string) {
	for _, l := range lines {
		if l == "" {
			continue
		}
		f := strings.Split(l, " ")
		switch f[0] {
		case "ADDR", "BECH", "ENV", "BAL":
			continue // regenerated below from the real code
		case "#":
			if len(f) >= 4 && f[1] == "GENESIS" {
				x.genLine = f
				x.declGenesis(f)
				x.history = append(x.history, l) // replay files must start from the same genesis
			}
			x.Out.Decl("%s", l)
			continue
		case "G":
			x.genesisEntry(f)
			x.Out.Decl("%s", l)
			x.history = append(x.history, l)
			continue
		}
		if f[0] == "GD" {
			// a DID genesis entry: GD <did key> <document ref | -> <sequence>; offered to GenesisState.Validate on its own
			// (the validation is entry by entry) and taken into the genesis only if it passes
			x.history = append(x.history, l)
			x.Out.Cmd(l, x.genesisDid(f))
			continue
		}
		if x.C == nil && x.genLine != nil {
			switch f[0] {
			case "BLOCK", "Q", "DUMP", "PAGE", "EXPORTIMPORT", "CRASH", "QH":
				x.genesis(x.genLine)
			}
		}
		x.history = append(x.history, l)
		switch f[0] {
		case "DOC", "DCTX", "DCTRL", "DVM", "DREL", "DSVC":
			x.docLine(f)
			x.Out.Decl("%s", l)
		case "SIGT":
			// a claimed valid signature: re-checked with the real secp256k1 code before the model may rely on it
			pk, msg, sig := untok(f[1]), untok(f[2]), untok(f[3])
			if len(pk) == cmtsecp.PubKeySize && cmtsecp.PubKey(pk).VerifySignature(msg, sig) {
				x.Out.Decl("%s", l)
			}
		case "KEY58":
			// recomputed from the real base58 decoder
		case "BLOCK":
			n, err := strconv.ParseInt(f[1], 10, 64)
			must(err)
			haltedBegin := false
			begin := func() {
				defer func() {
					if e := recover(); e != nil {
						haltedBegin = true
						x.Flag("C19-halt", fmt.Sprintf("BeginBlock at height %d panicked (the chain halts): %v", x.C.Height, e))
						x.Flag("C17-beginblock-panic", fmt.Sprintf("BeginBlock at height %d panicked: %v", x.C.Height, e))
					}
				}()
				x.C.BeginBlock(time.Unix(0, n).UTC())
			}
			if x.pendingUpgrade != "" && x.C.Height+1 == x.upgradeHeight {
				x.upgradeBegin(begin, &haltedBegin)
			} else {
				begin()
			}
			if haltedBegin {
				x.Out.Decl("%s", l)
				return // a halted chain processes nothing further
			}
			if x.Node != nil {
				x.Node.blk = &twinBlock{nanos: n, afterRestart: x.Node.restarted}
			}
			x.Out.Decl("%s", l)
		case "TX":
			x.cur = &TxInfo{Fee: parseCoins(f[1])}
			if f[2] != "-" {
				for _, h := range strings.Split(f[2], ",") {
					a, err := hex.DecodeString(h)
					must(err)
					x.cur.Signers = append(x.cur.Signers, a)
				}
			}
			x.cur.Lines = append(x.cur.Lines, l)
		case "M":
			pm, err := x.parseMsg(f)
			must(err)
			x.cur.Lines = append(x.cur.Lines, l)
			if x.inExec {
				pm.InExec, pm.Exec = true, x.execG
				x.execMsgs = append(x.execMsgs, pm.Msg)
			} else {
				x.cur.Top = append(x.cur.Top, pm.Msg)
			}
			x.cur.Msgs = append(x.cur.Msgs, pm)
		case "SIGMOD":
			// the signatures of this transaction will not be signatures over it: "corrupt" flips a byte of each, "otherbody"
			// takes them from the same transaction with another memo (a signature made for a different sign document)
			x.cur.SigMod = f[1]
			x.cur.Lines = append(x.cur.Lines, l)
		case "X":
			x.inExec, x.execG, x.execMsgs = true, s(f[1]), nil
			x.declAddrString(x.execG)
			x.cur.Lines = append(x.cur.Lines, l)
		case "XEND":
			anys := make([]*codectypes.Any, len(x.execMsgs))
			for i, m := range x.execMsgs {
				any, err := codectypes.NewAnyWithValue(m)
				must(err)
				anys[i] = any
			}
			x.cur.Top = append(x.cur.Top, &authz.MsgExec{Grantee: x.execG, Msgs: anys})
			x.inExec = false
			x.cur.Lines = append(x.cur.Lines, l)
		case "ENDTX":
			for _, tl := range x.cur.Lines {
				x.Out.Decl("%s", tl)
			}
			for _, m := range x.Mons {
				m.BeforeTx(x, x.cur)
			}
			var result string
			balBefore := x.watchBalances()
			bz, err := x.C.BuildTx(x.cur.Top, x.cur.Signers, x.cur.Fee, x.mode)
			if err == nil && x.cur.SigMod != "" {
				bz, err = x.C.modifySignatures(bz, x.cur, x.mode)
				x.Stats["sigmod:"+x.cur.SigMod]++
			}
			if err != nil {
				result = "R builderr " + strings.ReplaceAll(err.Error(), "\n", " ")
			} else {
				res := x.C.Deliver(bz)
				result = x.C.canonResult(res)
				if x.Node != nil && x.Node.blk != nil {
					x.Node.blk.txs = append(x.Node.blk.txs, bz)
					x.Node.blk.res = append(x.Node.blk.res, res)
				}
			}
			if result == "R panic" {
				x.Flag("C17-handler-panic", "delivering a transaction made the application panic (recovered by baseapp): the handler or the stateless checks of one of its messages are not total")
			}
			if x.cur.SigMod != "" && strings.HasPrefix(result, "R ok") {
				x.Flag("C14-signature-not-bound", "a transaction was accepted although its signatures were made over a different sign document ("+x.cur.SigMod+")")
				x.Flag("C02-writer-signed", "a transaction was accepted although its signatures are not signatures over it ("+x.cur.SigMod+")")
			}
			x.Out.Cmd(l, result)
			balAfter := x.watchBalances()
			tl := "T"
			for i := range balAfter {
				tl += " " + balAfter[i].Sub(balBefore[i]).String()
			}
			x.Out.Cmd("", tl)
			x.LastDelta = tl
			x.Stats["tx"]++
			x.Stats["result:"+strings.Join(strings.Split(result, " ")[:min(2, len(strings.Split(result, " ")))], " ")]++
			if strings.HasPrefix(result, "R msg") || strings.HasPrefix(result, "R vb") {
				x.Stats["err:"+strings.Join(strings.Split(result, " ")[len(strings.Split(result, " "))-2:], "/")]++
			}
			for _, pm := range x.cur.Msgs {
				x.Stats["msg:"+pm.Kind]++
			}
			for _, m := range x.Mons {
				m.AfterTx(x, x.cur, result)
			}
			x.cur = nil
		case "ENDSIGN":
			for _, tl := range x.cur.Lines {
				x.Out.Decl("%s", tl)
			}
			hl, ans := x.endSign(f)
			x.Out.Cmd(hl, ans)
			x.Stats["sign:"+f[1]]++
			x.Stats["signres:"+strings.Split(ans, " ")[0]+" "+map[bool]string{true: "bytes", false: ans}[strings.HasPrefix(ans, "S ") && len(ans) > 8]]++
			x.cur = nil
		case "ENDCHECK", "ENDSIM":
			for _, tl := range x.cur.Lines {
				x.Out.Decl("%s", tl)
			}
			x.Out.Decl("%s", l)
			if bz, err := x.C.BuildTx(x.cur.Top, x.cur.Signers, x.cur.Fee, x.mode); err == nil {
				if f[0] == "ENDCHECK" {
					r := x.C.App.CheckTx(abci.RequestCheckTx{Tx: bz, Type: abci.CheckTxType_New})
					x.Stats[fmt.Sprintf("checktx:%v", r.Code == 0)]++
				} else {
					_, _, err := x.C.App.Simulate(bz)
					x.Stats[fmt.Sprintf("simulate:%v", err == nil)]++
				}
			}
			x.cur = nil
		case "UPROBE":
			k, _ := strconv.Atoi(f[1])
			ans := x.upgradeProbe(k)
			x.Out.Cmd(l, ans)
			// a probe the store accounting says must succeed (every mounted store on disk or introduced by that
			// descriptor) and that fails is a node that meets an undeclared store
			if strings.HasSuffix(ans, " fail") && k < len(app.Upgrades) {
				onDisk := map[string]bool{}
				for _, s := range diskAfter(k) {
					onDisk[s] = true
				}
				for _, s := range app.Upgrades[k].StoreUpgrades.Added {
					onDisk[s] = true
				}
				for _, r := range app.Upgrades[k].StoreUpgrades.Renamed {
					onDisk[r.NewKey] = true
				}
				all := true
				for name := range x.probeApp().GetKVStoreKey() {
					if !onDisk[name] {
						all = false
					}
				}
				if all {
					x.Flag("C19-store-loader", "this binary, restarted at the height of upgrade "+app.Upgrades[k].UpgradeName+" with upgrade-info.json on disk, cannot load its stores although the descriptor declares every store it mounts")
				}
			}
		case "UPGRADE":
			x.Out.Cmd(l, x.upgradeSchedule(f[1]))
		case "CRASH":
			if x.pendingUpgrade != "" && !x.C.InBlock && x.C.Height+1 == x.upgradeHeight {
				// the old binary would have stopped at the plan height leaving upgrade-info.json for the new one
				must(x.C.App.UpgradeKeeper.DumpUpgradeInfoToDisk(x.upgradeHeight, upgradetypes.Plan{Name: x.pendingUpgrade, Height: x.upgradeHeight}))
				x.Stats["upgrade-info-on-disk"]++
			}
			x.Out.Cmd(l, x.nodeCrash())
		case "QH":
			h, err := strconv.ParseInt(f[1], 10, 64)
			must(err)
			x.qHeight = h
			var ans string
			if h > x.C.App.LastBlockHeight() {
				res := x.C.App.Query(abci.RequestQuery{Path: "/panacea.aol.v2.Query/Topics", Data: nil, Height: h})
				if res.Code != 0 {
					ans = "Q err height"
				} else {
					ans = "Q ok-at-uncommitted-height"
				}
			} else {
				ans = x.query(append([]string{"Q"}, f[2:]...))
				x.twinQuery(append([]string{"Q"}, f[2:]...), ans)
			}
			x.qHeight = 0
			x.Out.Cmd(l, ans)
			x.Stats["query-at-height"]++
		case "ENDBLOCK":
			burnAddr, _ := sdk.AccAddressFromBech32(burntypes.BurnAddress)
			sp := x.C.App.BankKeeper.SpendableCoins(x.C.Ctx(), burnAddr)
			var supBefore []sdk.Int
			for _, d := range watchDenoms {
				supBefore = append(supBefore, x.C.App.BankKeeper.GetSupply(x.C.Ctx(), d).Amount)
			}
			balBefore := x.allBalances()
			halted := func() (h bool) {
				defer func() {
					if e := recover(); e != nil {
						h = true
						x.Flag("C07-halt", fmt.Sprintf("EndBlock at height %d panicked (the chain halts): %v", x.C.Height, e))
						x.Flag("C17-endblock-panic", fmt.Sprintf("EndBlock at height %d panicked: %v", x.C.Height, e))
					}
				}()
				x.C.App.EndBlock(abci.RequestEndBlock{Height: x.C.Height})
				return false
			}()
			if halted {
				x.Out.Cmd(l, "B halted")
				return // a halted chain processes nothing further
			}
			bl := "B " + coinsTok(sp)
			for i, d := range watchDenoms {
				delta := x.C.App.BankKeeper.GetSupply(x.C.Ctx(), d).Amount.Sub(supBefore[i])
				bl += " " + delta.String()
				// C07 on the implementation alone: the end of the block removes from the supply of each denomination exactly
				// what was spendable at the burn address (nothing else in this application changes the supply at EndBlock)
				if !delta.Neg().Equal(sp.AmountOf(d)) {
					x.Flag("C07-supply-exact", fmt.Sprintf("%s%s was spendable at the burn address at the end of the block; the supply of %s changed by %s", sp.AmountOf(d), d, d, delta))
				}
			}
			// ... and no other account's balance is changed by the end of the block
			if balAfter := x.allBalances(); true {
				for a, c := range balAfter {
					if a != burntypes.BurnAddress && c != balBefore[a] {
						x.Flag("C07-others", fmt.Sprintf("the end of the block changed the balance of %s from %q to %q", a, balBefore[a], c))
						break
					}
				}
				for a, c := range balBefore {
					if _, ok := balAfter[a]; !ok && a != burntypes.BurnAddress {
						x.Flag("C07-others", fmt.Sprintf("the end of the block changed the balance of %s from %q to nothing", a, c))
						break
					}
				}
			}
			x.BurnSpendableBefore = sp
			cres := x.C.App.Commit()
			x.C.InBlock = false
			x.Out.Cmd(l, bl)
			x.nodeAfterCommit(cres.Data)
			for _, m := range x.Mons {
				m.AfterBlock(x)
			}
		case "MODE":
			switch f[1] {
			case "amino":
				x.mode = signing.SignMode_SIGN_MODE_LEGACY_AMINO_JSON
			default:
				x.mode = signing.SignMode_SIGN_MODE_DIRECT
			}
			x.Out.Decl("%s", l)
		case "VB":
			x.history = x.history[:len(x.history)-1]
			pm, err := x.parseMsg(append([]string{"M"}, f[1:]...))
			must(err)
			v, sg := vbAnswer(pm.Msg)
			x.Out.Cmd(l, v)
			x.Out.Cmd("", sg)
			x.Out.hist.Flush()
			x.Stats["vb:"+f[1]]++
			x.Stats["vbres:"+strings.Join(strings.Split(v, " ")[:2], " ")]++
			if v == "V panic" {
				x.Findings = append(x.Findings, finding{Clause: "C17-validate-panic", Detail: "ValidateBasic panicked", Cmd: l})
			}
			want, known := specAccepts(f[1], pm.Args)
			switch m := pm.Msg.(type) {
			case *didtypes.MsgCreateDIDRequest:
				want, known = specDocAccepts(m.Did, m.Document, m.VerificationMethodId, m.Signature, m.FromAddress), true
			case *didtypes.MsgUpdateDIDRequest:
				want, known = specDocAccepts(m.Did, m.Document, m.VerificationMethodId, m.Signature, m.FromAddress), true
			}
			if known && v != "V panic" && len(x.Findings) < 40 {
				if got := v == "V ok"; got != want {
					x.Findings = append(x.Findings, finding{Clause: "C16-limits", Detail: fmt.Sprintf("stateless validation answers %q but the published limits say accept=%v", v, want), Cmd: l})
				}
			}
			if sg == "S panic" {
				x.Findings = append(x.Findings, finding{Clause: "C17-signers-panic", Detail: "GetSigners panicked after successful validation", Cmd: l})
			}
		case "EXPORTIMPORT":
			r, efs := x.C.ExportImport()
			for _, ef := range efs {
				x.Flag(ef.Clause, ef.Detail)
				x.Stats["c08:"+ef.Clause]++
			}
			x.Out.Cmd(l, strings.Join(strings.Split(r, " ")[:2], " "))
			x.Stats["exportimport:"+r]++
			for _, m := range x.Mons {
				m.AfterBlock(x)
			}
		case "Q":
			ans := x.query(f)
			x.twinQuery(f, ans)
			x.Out.Cmd(l, ans)
			x.Stats["query:"+f[1]]++
			x.Stats["qres:"+strings.Join(strings.Split(ans, " ")[:min(3, len(strings.Split(ans, " ")))][:2], " ")]++
			if ans == "Q panic" {
				x.flagQueryPanic(f, l)
			}
		case "PAGE":
			x.history = x.history[:len(x.history)-1]
			x.pageWalk(f)
		case "DUMP":
			x.Out.Cmd(l, x.dump(f[1]))
		default:
			panic("unknown history line: " + l)
		}
	}
}

// vbAnswer runs ValidateBasic (and, if it accepts, GetSigners) on the real message under recover
func vbAnswer(m sdk.Msg) (v string, sg string) {
	v, sg = "V panic", "S skipped"
	func() {
		defer func() { recover() }()
		err := m.ValidateBasic()
		if err == nil {
			v = "V ok"
			return
		}
		cs, code, _ := errorsmod.ABCIInfo(err, false)
		if cs == "sdk" && code == 9 {
			// an address that decodes but fails VerifyAddressFormat, returned unwrapped by the PNFT/DID validators:
			// canonicalised to the class of unwrapped bech32 errors (the model has one class for "does not decode")
			cs, code = "undefined", 1
		}
		v = fmt.Sprintf("V err %s %d", cs, code)
	}()
	if v == "V ok" {
		sg = "S panic"
		func() {
			defer func() { recover() }()
			var parts []string
			for _, a := range m.GetSigners() {
				parts = append(parts, tok(a))
			}
			sg = "S ok " + strings.Join(parts, ",")
		}()
	}
	return
}

func (x *Exec) declKey58(s58 string) {
	if x.seenK58[s58] {
		return
	}
	x.seenK58[s58] = true
	dec := base58.Decode(s58)
	if len(dec) == cmtsecp.PubKeySize {
		x.Out.Decl("KEY58 %s %s", toks(s58), tok(dec))
	}
}

func (x *Exec) docLine(f []string) {
	ref := f[1]
	vm := func(a []string) *didtypes.VerificationMethod {
		x.declKey58(s(a[3]))
		return &didtypes.VerificationMethod{Id: s(a[0]), Type: s(a[1]), Controller: s(a[2]), PublicKeyBase58: s(a[3])}
	}
	strs := func(a []string) *didtypes.JSONStringOrStrings {
		l := didtypes.JSONStringOrStrings{}
		for _, t := range a {
			l = append(l, s(t))
		}
		return &l
	}
	switch f[0] {
	case "DOC":
		x.Docs[ref] = &didtypes.DIDDocument{Id: s(f[2])}
	case "DCTX":
		x.Docs[ref].Contexts = strs(f[2:])
	case "DCTRL":
		x.Docs[ref].Controller = strs(f[2:])
	case "DVM":
		x.Docs[ref].VerificationMethods = append(x.Docs[ref].VerificationMethods, vm(f[2:]))
	case "DSVC":
		x.Docs[ref].Services = append(x.Docs[ref].Services, &didtypes.Service{Id: s(f[2]), Type: s(f[3]), ServiceEndpoint: s(f[4])})
	case "DREL":
		var r didtypes.VerificationRelationship
		if f[3] == "ref" {
			r = didtypes.NewVerificationRelationship(s(f[4]))
		} else {
			r = didtypes.NewVerificationRelationshipDedicated(*vm(f[4:]))
		}
		d := x.Docs[ref]
		switch f[2] {
		case "auth":
			d.Authentications = append(d.Authentications, r)
		case "assert":
			d.AssertionMethods = append(d.AssertionMethods, r)
		case "keyagree":
			d.KeyAgreements = append(d.KeyAgreements, r)
		case "capinv":
			d.CapabilityInvocations = append(d.CapabilityInvocations, r)
		case "capdel":
			d.CapabilityDelegations = append(d.CapabilityDelegations, r)
		}
	}
}

// docStr is the canonical rendering of a document (the same printer exists in Driver.v)
func docStr(d *didtypes.DIDDocument) string {
	if d == nil {
		return "nil"
	}
	optl := func(l *didtypes.JSONStringOrStrings) string {
		if l == nil {
			return "none"
		}
		r := "L"
		for _, v := range *l {
			r += "," + toks(v)
		}
		return r
	}
	vmS := func(v *didtypes.VerificationMethod) string {
		return strings.Join([]string{toks(v.Id), toks(v.Type), toks(v.Controller), toks(v.PublicKeyBase58)}, "/")
	}
	rels := func(l []didtypes.VerificationRelationship) string {
		r := "L"
		for _, v := range l {
			if vm := v.GetVerificationMethod(); vm != nil {
				r += ",d/" + vmS(vm)
			} else {
				r += ",r/" + toks(v.GetVerificationMethodId())
			}
		}
		return r
	}
	vms := "L"
	for _, v := range d.VerificationMethods {
		vms += "," + vmS(v)
	}
	svcs := "L"
	for _, v := range d.Services {
		svcs += "," + strings.Join([]string{toks(v.Id), toks(v.Type), toks(v.ServiceEndpoint)}, "/")
	}
	return strings.Join([]string{toks(d.Id), optl(d.Contexts), optl(d.Controller), vms, rels(d.Authentications), rels(d.AssertionMethods),
		rels(d.KeyAgreements), rels(d.CapabilityInvocations), rels(d.CapabilityDelegations), svcs}, "|")
}

// genesisEntry: "G aol.owner|topic|writer|record <key string> <fields...>" seeds the aol genesis maps
func (x *Exec) genesisEntry(f []string) {
	if x.genAol == nil {
		x.genAol = aoltypes.DefaultGenesis()
	}
	ks := s(f[2])
	for _, part := range strings.Split(ks, aoltypes.GenesisKeySeparator) {
		x.declAddrString(part)
	}
	u := func(t string) uint64 { n, _ := strconv.ParseUint(t, 10, 64); return n }
	i := func(t string) int64 { n, _ := strconv.ParseInt(t, 10, 64); return n }
	switch f[1] {
	case "aol.owner":
		x.genAol.Owners[ks] = &aoltypes.Owner{TotalTopics: u(f[3])}
	case "aol.topic":
		x.genAol.Topics[ks] = &aoltypes.Topic{Description: s(f[3]), TotalRecords: u(f[4]), TotalWriters: u(f[5])}
	case "aol.writer":
		x.genAol.Writers[ks] = &aoltypes.Writer{Moniker: s(f[3]), Description: s(f[4]), NanoTimestamp: i(f[5])}
	case "aol.record":
		x.declAddrString(s(f[6]))
		x.genAol.Records[ks] = &aoltypes.Record{Key: untok(f[3]), Value: untok(f[4]), NanoTimestamp: i(f[5]), WriterAddress: s(f[6])}
	}
}

// allBalances: every balance the bank module holds, by address
func (x *Exec) allBalances() map[string]string {
	out := map[string]string{}
	x.C.App.BankKeeper.IterateAllBalances(x.C.Ctx(), func(a sdk.AccAddress, c sdk.Coin) bool {
		out[a.String()] += c.String() + ","
		return false
	})
	return out
}

func (x *Exec) genesisDid(f []string) (answer string) {
	defer func() {
		if e := recover(); e != nil {
			answer = "GD panic"
		}
	}()
	seq, _ := strconv.ParseUint(f[3], 10, 64)
	doc := &didtypes.DIDDocument{}
	if f[2] != "-" {
		doc = x.Docs[f[2]]
	}
	e := didtypes.NewDIDDocumentWithSeq(doc, seq)
	one := didtypes.GenesisState{Documents: map[string]*didtypes.DIDDocumentWithSeq{s(f[1]): &e}}
	// the entry as it stands in a genesis file: through the JSON codec and back (texts are coerced to UTF-8 on the way)
	cdc := app.MakeEncodingConfig().Codec
	var file didtypes.GenesisState
	cdc.MustUnmarshalJSON(cdc.MustMarshalJSON(&one), &file)
	if err := file.Validate(); err != nil {
		return "GD invalid"
	}
	if x.genDid == nil {
		x.genDid = &didtypes.GenesisState{Documents: map[string]*didtypes.DIDDocumentWithSeq{}}
	}
	for k, v := range file.Documents {
		x.genDid.Documents[k] = v
	}
	return "GD ok"
}

func (x *Exec) genesis(f []string) {
	n, _ := strconv.Atoi(f[2])
	bal, _ := sdk.NewIntFromString(f[3])
	x.NAccts = n
	var bals []GenBalance
	for i := 0; i < n; i++ {
		coins := sdk.NewCoins(sdk.NewCoin(feeDenom, bal), sdk.NewCoin("ubtc", sdk.NewInt(1000000)))
		for _, d := range extraDenoms(f) {
			coins = coins.Add(sdk.NewCoin(d, sdk.NewInt(1000)))
		}
		bals = append(bals, GenBalance{mkAcct(i).Addr, coins})
	}
	custom := map[string]json.RawMessage{}
	for k, v := range x.Custom {
		custom[k] = v
	}
	if x.genAol != nil {
		custom["aol"] = app.MakeEncodingConfig().Codec.MustMarshalJSON(x.genAol)
	}
	if x.genDid != nil {
		custom["did"] = app.MakeEncodingConfig().Codec.MustMarshalJSON(x.genDid)
	}
	x.C = NewChain(n, bals, custom, time.Unix(1700000000, 0).UTC())
	if x.WantNode {
		x.Node = &nodeState{twin: NewChain(n, bals, custom, time.Unix(1700000000, 0).UTC()), hashes: map[int64][]byte{}}
		if !bytes.Equal(x.Node.twin.App.LastCommitID().Hash, x.C.App.LastCommitID().Hash) {
			x.Flag("C09-diverge", "two applications initialised from the same genesis have different application hashes")
		}
		x.Node.hashes[1] = x.C.App.LastCommitID().Hash
		if x.WantConc > 0 {
			x.Node.conc = newConcurrent(x.C, concRequests(x.C.Accts), x.WantConc)
		}
	}
	// accounts that exist after InitChain (a vesting account can only be created at an address without account)
	x.C.App.AccountKeeper.IterateAccounts(x.C.Ctx(), func(acc authtypes.AccountI) bool {
		x.Out.Decl("ENV account %s", tok(acc.GetAddress()))
		return false
	})
}

var watchDenoms = []string{feeDenom, "ubtc"}

func (x *Exec) watchAddrs() []sdk.AccAddress {
	var l []sdk.AccAddress
	for i := 0; i < x.NAccts; i++ {
		l = append(l, mkAcct(i).Addr)
	}
	burnAddr, _ := sdk.AccAddressFromBech32(burntypes.BurnAddress)
	return append(l, burnAddr, authtypes.NewModuleAddress(authtypes.FeeCollectorName))
}

// watchBalances: balances of the watched addresses in the watched denominations, then the supplies (deliver state)
func (x *Exec) watchBalances() []sdk.Int {
	ctx := x.C.Ctx()
	var out []sdk.Int
	for _, a := range x.watchAddrs() {
		for _, d := range watchDenoms {
			out = append(out, x.C.App.BankKeeper.GetBalance(ctx, a, d).Amount)
		}
	}
	for _, d := range watchDenoms {
		out = append(out, x.C.App.BankKeeper.GetSupply(ctx, d).Amount)
	}
	return out
}

// extraDenoms: "# GENESIS <accounts> <balance> [k]": k further denominations tok00..tok(k-1), 1000 of each per account
func extraDenoms(f []string) []string {
	if len(f) < 5 {
		return nil
	}
	k, _ := strconv.Atoi(f[4])
	return extraDenomNames(k)
}

// extraDenomNames: an IBC voucher denomination first, then tok00, tok01, ...
func extraDenomNames(k int) []string {
	var out []string
	for i := 0; i < k && i < 64; i++ {
		if i == 0 {
			out = append(out, "ibc/27394FB092D2ECCD56123C74F36E4C1F926001CEADA9CA97EA622B25F41E5EB2")
		} else {
			out = append(out, fmt.Sprintf("tok%02d", i-1))
		}
	}
	return out
}

func (x *Exec) declGenesis(f []string) {
	n, _ := strconv.Atoi(f[2])
	bal, ok := sdk.NewIntFromString(f[3])
	if !ok {
		panic("bad balance")
	}
	x.Out.Decl("ENV fee_collector %s", tok(authtypes.NewModuleAddress(authtypes.FeeCollectorName)))
	var blocked []string
	for a := range app.BlockedAddresses() {
		blocked = append(blocked, a)
	}
	sort.Strings(blocked)
	for _, a := range blocked {
		ad, err := sdk.AccAddressFromBech32(a)
		must(err)
		x.Out.Decl("ENV blocked %s", tok(ad))
	}
	for i := 0; i < n; i++ {
		x.Out.Decl("BAL %s %s %s", tok(mkAcct(i).Addr), toks(feeDenom), bal.String())
		x.Out.Decl("BAL %s %s %s", tok(mkAcct(i).Addr), toks("ubtc"), "1000000")
		for _, d := range extraDenoms(f) {
			x.Out.Decl("BAL %s %s %s", tok(mkAcct(i).Addr), toks(d), "1000")
		}
	}
	x.NAccts = n
	for _, a := range x.watchAddrs() {
		x.Out.Decl("ENV watch %s", tok(a))
	}
	for _, d := range watchDenoms {
		x.Out.Decl("ENV denom %s", toks(d))
	}
}

// flagQueryPanic: a panicking query handler is a C17 violation.  The one shape that is SDK code (query.Paginate's
// getIterator with reverse=true, a non-empty key and offset 0) is reported under its own clause (known finding K2).
func (x *Exec) flagQueryPanic(f []string, line string) {
	clause := "C17-query-panic"
	var page []string
	switch f[1] {
	case "aol.Topics":
		page = f[3:]
	case "aol.Writers":
		page = f[4:]
	case "pnft.Denoms":
		page = f[2:]
	}
	if len(page) == 5 && page[4] == "1" && page[0] != "nil" && page[0] != "-" && page[1] == "0" {
		clause = "C17-query-panic-sdk-paginate"
	}
	if len(x.Findings) < 60 {
		x.Findings = append(x.Findings, finding{Clause: clause, Detail: "query handler panicked (ABCI code 111222): " + strings.Join(f[:2], " ") + " pagination=" + strings.Join(page, ","), Cmd: strings.Join(append(append([]string{}, x.history...), line), "\n")})
	}
}

func pageReq(a []string) *query.PageRequest {
	if len(a) == 1 && a[0] == "nopage" {
		return nil
	}
	var key []byte
	if a[0] != "nil" {
		key = untok(a[0])
	}
	off, _ := strconv.ParseUint(a[1], 10, 64)
	lim, _ := strconv.ParseUint(a[2], 10, 64)
	return &query.PageRequest{Key: key, Offset: off, Limit: lim, CountTotal: a[3] == "1", Reverse: a[4] == "1"}
}

func pageResToks(items []string, pr *query.PageResponse) string {
	l := "L"
	for _, it := range items {
		l += "," + toks(it)
	}
	next, total := "nil", "0"
	if pr != nil {
		if len(pr.NextKey) > 0 {
			next = hex.EncodeToString(pr.NextKey)
		}
		total = strconv.FormatUint(pr.Total, 10)
	}
	return joinSp("Q", "ok", l, next, total)
}

// pageWalk: "PAGE aol.Topics <owner> <limit> <ct> <rev> key|offset" or
// "PAGE aol.Writers <owner> <topic> <limit> <ct> <rev> key|offset": pages through a listing the way a client
// does, emitting one Q line per request (so that the model answers the same requests), and checks that the
// union of the pages is exactly the store's content for that owner/topic, each item once, in order.
func (x *Exec) pageWalk(f []string) {
	kind := f[1]
	var head []string
	var rest []string
	if kind == "aol.Topics" {
		head, rest = f[2:3], f[3:]
	} else {
		head, rest = f[2:4], f[4:]
	}
	limit, ct, rev, style := rest[0], rest[1], rest[2], rest[3]
	lim, _ := strconv.ParseUint(limit, 10, 64)
	key, offset := "nil", uint64(0)
	var got []string
	for step := 0; step < 400; step++ {
		var line string
		if style == "key" {
			line = joinSp(append(append([]string{"Q", kind}, head...), key, "0", limit, ct, rev)...)
		} else {
			line = joinSp(append(append([]string{"Q", kind}, head...), "nil", strconv.FormatUint(offset, 10), limit, ct, rev)...)
		}
		x.history = append(x.history, line)
		ans := x.query(strings.Split(line, " "))
		x.Out.Cmd(line, ans)
		x.Stats["query:"+kind]++
		af := strings.Split(ans, " ")
		if af[1] != "ok" {
			if ans == "Q panic" {
				x.Flag("C17-query-panic", "paging through "+kind+" panicked")
			}
			if strings.HasPrefix(ans, "Q err 13") {
				// a well-formed page request (nil key or the key the previous page handed out, never key and offset together)
				// must be answered: an internal error hides the items from the listing
				x.Flag("C13-paging", fmt.Sprintf("paging %s (limit %s, reverse %s, %s style, step %d) failed with an internal error after %d items", kind, limit, rev, style, step, len(got)))
			}
			return
		}
		items := strings.Split(af[2], ",")[1:]
		got = append(got, items...)
		if af[3] == "nil" || len(items) == 0 {
			break
		}
		key = af[3]
		offset += lim
	}
	// oracle: the store dump
	var want []string
	for _, kv := range x.C.DumpStore("aol") {
		comps := splitCompkey(kv[0][1:])
		o, err := sdk.AccAddressFromBech32(s(head[0]))
		if err != nil {
			return
		}
		if kind == "aol.Topics" && kv[0][0] == 1 && string(comps[0]) == string(o) {
			want = append(want, toks(string(comps[1])))
		}
		if kind == "aol.Writers" && kv[0][0] == 2 && string(comps[0]) == string(o) && string(comps[1]) == s(head[1]) {
			want = append(want, toks(sdk.AccAddress(comps[2]).String()))
		}
	}
	if rev == "1" {
		for i, j := 0, len(want)-1; i < j; i, j = i+1, j-1 {
			want[i], want[j] = want[j], want[i]
		}
	}
	if strings.Join(got, ",") != strings.Join(want, ",") {
		x.Flag("C13-paging", fmt.Sprintf("paging %s (limit %s, reverse %s, %s style) returned %v, the store holds %v", kind, limit, rev, style, got, want))
	}
}

func denomStr(d *pnfttypes.Denom) string {
	return strings.Join([]string{toks(d.Id), toks(d.Name), toks(d.Symbol), toks(d.Description), toks(d.Uri), toks(d.UriHash), toks(d.Owner), toks(d.Data)}, "/")
}

func pnftStr(p *pnfttypes.Pnft) string {
	return strings.Join([]string{toks(p.DenomId), toks(p.Id), toks(p.Name), toks(p.Description), toks(p.Uri), toks(p.UriHash), toks(p.Data), toks(p.Creator),
		strconv.FormatInt(p.CreatedAt.UnixNano(), 10), toks(p.Owner)}, "/")
}

// plain (non-status) handler errors surface as sdk/18; gRPC status errors carry "code = ..."
func pnftQueryErr(res abci.ResponseQuery) string {
	c := queryErrClass(res)
	if strings.HasPrefix(c, "Q err ?") {
		return "Q err 2"
	}
	return c
}

func (x *Exec) pnftQuery(f []string) (string, bool) {
	list := func(items []string) string { return "Q ok L" + func() string {
		r := ""
		for _, it := range items {
			r += "," + it
		}
		return r
	}() }
	switch f[1] {
	case "pnft.Denom":
		res := x.C.Query("/panacea.pnft.v2.Query/Denom", &pnfttypes.QueryDenomRequest{Id: s(f[2])}, x.qHeight)
		if res.Code != 0 {
			return pnftQueryErr(res), true
		}
		var r pnfttypes.QueryDenomResponse
		must(r.Unmarshal(res.Value))
		return "Q ok " + denomStr(r.Denom), true
	case "pnft.PNFT":
		res := x.C.Query("/panacea.pnft.v2.Query/PNFT", &pnfttypes.QueryPNFTRequest{DenomId: s(f[2]), Id: s(f[3])}, x.qHeight)
		if res.Code != 0 {
			return pnftQueryErr(res), true
		}
		var r pnfttypes.QueryPNFTResponse
		must(r.Unmarshal(res.Value))
		x.declOwnerStr(r.Pnft.Owner)
		return "Q ok " + pnftStr(r.Pnft), true
	case "pnft.PNFTs":
		res := x.C.Query("/panacea.pnft.v2.Query/PNFTs", &pnfttypes.QueryPNFTsRequest{DenomId: s(f[2])}, x.qHeight)
		if res.Code != 0 {
			return pnftQueryErr(res), true
		}
		var r pnfttypes.QueryPNFTsResponse
		must(r.Unmarshal(res.Value))
		var items []string
		for _, p := range r.Pnfts {
			x.declOwnerStr(p.Owner)
			items = append(items, pnftStr(p))
		}
		return list(items), true
	case "pnft.ByOwner":
		x.declAddrString(s(f[3]))
		res := x.C.Query("/panacea.pnft.v2.Query/PNFTsByDenomOwner", &pnfttypes.QueryPNFTsByDenomOwnerRequest{DenomId: s(f[2]), Owner: s(f[3])}, x.qHeight)
		if res.Code != 0 {
			return pnftQueryErr(res), true
		}
		var r pnfttypes.QueryPNFTsByDenomOwnerResponse
		must(r.Unmarshal(res.Value))
		var items []string
		for _, p := range r.Pnfts {
			x.declOwnerStr(p.Owner)
			items = append(items, pnftStr(p))
		}
		return list(items), true
	case "pnft.DenomsByOwner":
		res := x.C.Query("/panacea.pnft.v2.Query/DenomsByOwner", &pnfttypes.QueryDenomsByOwnerRequest{Owner: s(f[2])}, x.qHeight)
		if res.Code != 0 {
			return pnftQueryErr(res), true
		}
		var r pnfttypes.QueryDenomsByOwnerResponse
		must(r.Unmarshal(res.Value))
		var items []string
		for _, d := range r.Denoms {
			items = append(items, denomStr(d))
		}
		return list(items), true
	case "pnft.Denoms":
		res := x.C.Query("/panacea.pnft.v2.Query/Denoms", &pnfttypes.QueryDenomsRequest{Pagination: pageReq(f[2:])}, x.qHeight)
		if res.Code != 0 {
			return pnftQueryErr(res), true
		}
		var r pnfttypes.QueryDenomsResponse
		must(r.Unmarshal(res.Value))
		l := "L"
		for _, d := range r.Denoms {
			l += "," + denomStr(d)
		}
		next, total := "nil", "0"
		if r.Pagination != nil {
			if len(r.Pagination.NextKey) > 0 {
				next = hex.EncodeToString(r.Pagination.NextKey)
			}
			total = strconv.FormatUint(r.Pagination.Total, 10)
		}
		return joinSp("Q", "ok", l, next, total), true
	}
	return "", false
}

// declOwnerStr: owner strings printed by the implementation are bech32 of stored bytes; tell the model
func (x *Exec) declOwnerStr(o string) {
	if a, err := sdk.AccAddressFromBech32(o); err == nil {
		x.declBech(a)
	}
}

func (x *Exec) query(f []string) string {
	if r, ok := x.pnftQuery(f); ok {
		return r
	}
	switch f[1] {
	case "aol.Topics":
		x.declAddrString(s(f[2]))
		res := x.C.Query("/panacea.aol.v2.Query/Topics", &aoltypes.QueryTopicsRequest{OwnerAddress: s(f[2]), Pagination: pageReq(f[3:])}, x.qHeight)
		if res.Code != 0 {
			return queryErrClass(res)
		}
		var r aoltypes.QueryTopicsResponse
		must(r.Unmarshal(res.Value))
		return pageResToks(r.TopicNames, r.Pagination)
	case "aol.Writers":
		x.declAddrString(s(f[2]))
		res := x.C.Query("/panacea.aol.v2.Query/Writers", &aoltypes.QueryWritersRequest{OwnerAddress: s(f[2]), TopicName: s(f[3]), Pagination: pageReq(f[4:])}, x.qHeight)
		if res.Code != 0 {
			return queryErrClass(res)
		}
		var r aoltypes.QueryWritersResponse
		must(r.Unmarshal(res.Value))
		for _, w := range r.WriterAddresses {
			if a, err := sdk.AccAddressFromBech32(w); err == nil {
				x.declBech(a)
			}
		}
		return pageResToks(r.WriterAddresses, r.Pagination)
	case "aol.Record":
		off, err := strconv.ParseUint(f[4], 10, 64)
		must(err)
		x.declAddrString(s(f[2]))
		res := x.C.Query("/panacea.aol.v2.Query/Record", &aoltypes.QueryRecordRequest{OwnerAddress: s(f[2]), TopicName: s(f[3]), Offset: off}, x.qHeight)
		if res.Code != 0 {
			return queryErrClass(res)
		}
		var r aoltypes.QueryRecordResponse
		must(r.Unmarshal(res.Value))
		return joinSp("Q", "ok", "R", tok(r.Record.Key), tok(r.Record.Value), strconv.FormatInt(r.Record.NanoTimestamp, 10), toks(r.Record.WriterAddress))
	case "aol.Topic":
		x.declAddrString(s(f[2]))
		res := x.C.Query("/panacea.aol.v2.Query/Topic", &aoltypes.QueryTopicRequest{OwnerAddress: s(f[2]), TopicName: s(f[3])}, x.qHeight)
		if res.Code != 0 {
			return queryErrClass(res)
		}
		var r aoltypes.QueryTopicResponse
		must(r.Unmarshal(res.Value))
		return joinSp("Q", "ok", "T", toks(r.Topic.Description), strconv.FormatUint(r.Topic.TotalRecords, 10), strconv.FormatUint(r.Topic.TotalWriters, 10))
	case "did.DID":
		res := x.C.Query("/panacea.did.v2.Query/DID", &didtypes.QueryDIDRequest{DidBase64: base64Std(untok(f[2]))}, x.qHeight)
		if res.Code != 0 {
			c := queryErrClass(res)
			if c == "Q err 5" {
				if strings.Contains(res.Log, "deactivated") {
					return "Q err 5 deactivated"
				}
				return "Q err 5 notfound"
			}
			return c
		}
		var r didtypes.QueryDIDResponse
		must(r.Unmarshal(res.Value))
		if got := r.DidDocumentWithSeq.Document; got != nil && got.Id != s(f[2]) {
			x.Flag("C11-read-other", fmt.Sprintf("the read operation for %s returned a document about %s", s(f[2]), got.Id))
		}
		if x.qHeight == 0 && !x.C.InBlock {
			if st := x.C.App.DidKeeper.GetDIDDocument(x.C.Ctx(), s(f[2])); st.Sequence != r.DidDocumentWithSeq.Sequence {
				x.Flag("C04-read-sequence", fmt.Sprintf("the read operation for %s reports sequence %d, the registry holds %d (the one the next proof must be made over)", s(f[2]), r.DidDocumentWithSeq.Sequence, st.Sequence))
			}
		}
		return joinSp("Q", "ok", strconv.FormatUint(r.DidDocumentWithSeq.Sequence, 10), docStr(r.DidDocumentWithSeq.Document))
	case "did.DID64":
		// the did_base64 field verbatim (malformed encodings included)
		res := x.C.Query("/panacea.did.v2.Query/DID", &didtypes.QueryDIDRequest{DidBase64: s(f[2])}, x.qHeight)
		if res.Code != 0 {
			c := queryErrClass(res)
			if c == "Q err 5" {
				if strings.Contains(res.Log, "deactivated") {
					return "Q err 5 deactivated"
				}
				return "Q err 5 notfound"
			}
			return c
		}
		var r didtypes.QueryDIDResponse
		must(r.Unmarshal(res.Value))
		if got := r.DidDocumentWithSeq.Document; got != nil {
			if want, err := base64.StdEncoding.DecodeString(s(f[2])); err != nil || got.Id != string(want) {
				x.Flag("C11-read-other", fmt.Sprintf("a read whose did_base64 field is %q (decodes to %q, error %v) returned a document about %s", s(f[2]), want, err, got.Id))
			}
		}
		return joinSp("Q", "ok", strconv.FormatUint(r.DidDocumentWithSeq.Sequence, 10), docStr(r.DidDocumentWithSeq.Document))
	case "aol.Writer":
		x.declAddrString(s(f[2]))
		x.declAddrString(s(f[4]))
		res := x.C.Query("/panacea.aol.v2.Query/Writer", &aoltypes.QueryWriterRequest{OwnerAddress: s(f[2]), TopicName: s(f[3]), WriterAddress: s(f[4])}, x.qHeight)
		if res.Code != 0 {
			return queryErrClass(res)
		}
		var r aoltypes.QueryWriterResponse
		must(r.Unmarshal(res.Value))
		return joinSp("Q", "ok", "W", toks(r.Writer.Moniker), toks(r.Writer.Description), strconv.FormatInt(r.Writer.NanoTimestamp, 10))
	}
	panic("unknown query " + f[1])
}

// aolValToks decodes a stored aol value by its key prefix into the canonical field list.
func aolValToks(key, val []byte, sep string) string {
	switch key[0] {
	case aoltypes.OwnerKeyPrefix[0]:
		var o aoltypes.Owner
		must(o.Unmarshal(val))
		return strings.Join([]string{"O", strconv.FormatUint(o.TotalTopics, 10)}, sep)
	case aoltypes.TopicKeyPrefix[0]:
		var t aoltypes.Topic
		must(t.Unmarshal(val))
		return strings.Join([]string{"T", toks(t.Description), strconv.FormatUint(t.TotalRecords, 10), strconv.FormatUint(t.TotalWriters, 10)}, sep)
	case aoltypes.WriterKeyPrefix[0]:
		var w aoltypes.Writer
		must(w.Unmarshal(val))
		return strings.Join([]string{"W", toks(w.Moniker), toks(w.Description), strconv.FormatInt(w.NanoTimestamp, 10)}, sep)
	case aoltypes.RecordKeyPrefix[0]:
		var r aoltypes.Record
		must(r.Unmarshal(val))
		return strings.Join([]string{"R", tok(r.Key), tok(r.Value), strconv.FormatInt(r.NanoTimestamp, 10), toks(r.WriterAddress)}, sep)
	}
	return "?" + hex.EncodeToString(val)
}

func (x *Exec) dump(which string) string {
	switch which {
	case "aol":
		var parts []string
		for _, kv := range x.C.DumpStore("aol") {
			parts = append(parts, hex.EncodeToString(kv[0])+"="+aolValToks(kv[0], kv[1], ":"))
		}
		return "D aol " + strings.Join(parts, ";")
	}
	if which == "pnft" {
		var parts []string
		cdc := x.C.App.AppCodec()
		for _, kv := range x.C.DumpStore("pnft") {
			k, v := kv[0], kv[1]
			var val string
			switch k[0] {
			case 1:
				var c nft.Class
				must(cdc.Unmarshal(v, &c))
				d, err := pnfttypes.NewDenomFromClass(cdc, &c)
				must(err)
				val = "C:" + denomStr(d)
			case 2:
				var n nft.NFT
				must(cdc.Unmarshal(v, &n))
				var meta pnfttypes.PNFTMeta
				must(cdc.Unmarshal(n.Data.GetValue(), &meta))
				val = "T:" + strings.Join([]string{toks(n.ClassId), toks(n.Id), toks(meta.Name), toks(meta.Description), toks(n.Uri), toks(n.UriHash), toks(meta.Data), toks(meta.Creator), strconv.FormatInt(meta.CreatedAt.UnixNano(), 10)}, "/")
			case 3:
				val = "P"
			case 4:
				val = "O:" + tok(v)
				x.declBech(v)
			case 5:
				val = "S:" + strconv.FormatUint(sdk.BigEndianToUint64(v), 10)
			default:
				val = "?" + hex.EncodeToString(v)
			}
			parts = append(parts, hex.EncodeToString(k)+"="+val)
		}
		return "D pnft " + strings.Join(parts, ";")
	}
	if which == "did" {
		var parts []string
		for _, kv := range x.C.DumpStore("did") {
			var e didtypes.DIDDocumentWithSeq
			must(x.C.App.AppCodec().UnmarshalLengthPrefixed(kv[1], &e))
			parts = append(parts, hex.EncodeToString(kv[0])+"="+strconv.FormatUint(e.Sequence, 10)+":"+docStr(e.Document))
		}
		return "D did " + strings.Join(parts, ";")
	}
	panic("unknown dump " + which)
}

var _ = abci.CodeTypeOK

func dbmMem() dbm.DB { return dbm.NewMemDB() }

func base64Std(b []byte) string { return base64.StdEncoding.EncodeToString(b) }
