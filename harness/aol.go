package main

// Profile "aol": histories of AOL transactions (with bank and authz traffic), executed on the real
// application; monitors for C01 (append-only, dense, immutable), C02 (authorisation) and C13 (counters).

import (
	"bytes"
	"fmt"
	"strconv"
	"strings"

	sdk "github.com/cosmos/cosmos-sdk/types"
	authzkeeper "github.com/cosmos/cosmos-sdk/x/authz/keeper"
	aoltypes "github.com/medibloc/panacea-core/v2/x/aol/types"
)

var _ = authzkeeper.StoreKey

// ---------------------------------------------------------------------------------------------------
// generator
type aolGen struct {
	r       *RNG
	lines   []string
	accts   []Acct
	extra   []string // address strings without keys (32-byte address, other prefix, malformed)
	topics  map[string]bool
	writers map[string]bool
	acked   []string // "owner topic offset" query argument triples
	now     int64
	clean   bool // generate only well-formed fields, natural signers, small fee
}

var aolTopicNames = []string{"a", "ab", "a.b", "A", "a-", "a.b.c", "abc", strings.Repeat("t", 70)}
var aolBadTopics = []string{"", "a b", "a/b", strings.Repeat("t", 71), "é", "a\n", strings.Repeat("x", 256), strings.Repeat("t", 255), strings.Repeat("t", 300),
	strings.Repeat("t", 5000), strings.Repeat("t", 5001)}

func (g *aolGen) add(format string, a ...any) { g.lines = append(g.lines, fmt.Sprintf(format, a...)) }

func (g *aolGen) addrStr(i int) string { return g.accts[i].Addr.String() }

func (g *aolGen) anyAddr(validBias int) string {
	if g.clean {
		if g.r.Chance(90) {
			return g.addrStr(g.r.Intn(len(g.accts)))
		}
		return g.extra[g.r.Intn(2)] // the two well-formed addresses without keys
	}
	if g.r.Chance(validBias) {
		return g.addrStr(g.r.Intn(len(g.accts)))
	}
	return pick(g.r, g.extra)
}

// an address for a role that has to sign: in clean mode always an account whose key we hold
func (g *aolGen) signerAddr(validBias int) string {
	if g.clean {
		return g.addrStr(g.r.Intn(len(g.accts)))
	}
	return g.anyAddr(validBias)
}

func (g *aolGen) topic() string {
	if g.clean || g.r.Chance(90) {
		return pick(g.r, aolTopicNames[:5+g.r.Intn(3)])
	}
	return pick(g.r, aolBadTopics)
}

func (g *aolGen) text(max int) string {
	if g.clean {
		if genK3 && g.r.Chance(8) {
			return pick(g.r, []string{"\xff", "a\xc3", "\xef\xbf\xbd"})
		}
		return pick(g.r, []string{"", "", "", "x", "hello", "desc-1", "a b", "caf\xc3\xa9"})
	}
	k := g.r.Intn(12)
	if k == 4 && !genK3 {
		k = 5
	}
	switch k {
	case 0:
		return ""
	case 1:
		return strings.Repeat("d", max)
	case 2:
		return strings.Repeat("d", max+1)
	case 3:
		return "caf\xc3\xa9 \x00\t"
	case 4:
		// bytes that are not UTF-8: accepted by validation, rewritten by the JSON layer of a genesis export (K3)
		return pick(g.r, []string{"\xff", "a\xc3", "ok\xed\xa0\x80", "\xf0\x9f\x98", "\xef\xbf\xbd", strings.Repeat("\xff", max)})
	default:
		return pick(g.r, []string{"x", "hello", "desc-1", "a b"})
	}
}

func (g *aolGen) moniker() string {
	if g.clean {
		return pick(g.r, []string{"", "w1", "w.2", "W-3"})
	}
	switch g.r.Intn(12) {
	case 0:
		return ""
	case 1:
		return strings.Repeat("m", 70)
	case 2:
		return strings.Repeat("m", 71)
	case 3:
		return "bad moniker"
	default:
		return pick(g.r, []string{"w1", "w.2", "W-3"})
	}
}

func (g *aolGen) bytesVal(max int) []byte {
	if g.clean && max > 70 && g.r.Chance(15) {
		// a value longer than the key may be (values go up to 5000 bytes): accepted, stored, exported
		return bytes.Repeat([]byte{'v'}, pick(g.r, []int{71, 200, 5000}))
	}
	if g.clean && g.r.Chance(90) {
		return []byte(pick(g.r, []string{"", "k", "key-1", "\x00\xff"}))
	}
	switch g.r.Intn(12) {
	case 0:
		return nil
	case 1:
		return bytes.Repeat([]byte{0xff}, max)
	case 2:
		return bytes.Repeat([]byte{0x00}, max+1)
	default:
		n := 1 + g.r.Intn(6)
		b := make([]byte, n)
		for i := range b {
			b[i] = byte(g.r.U64())
		}
		return b
	}
}

// one message line (without the leading "M "), plus the natural signer(s) as account indices (-1 = none)
func (g *aolGen) msg() (string, []int) {
	idx := func(s string) int {
		for i := range g.accts {
			if g.addrStr(i) == s {
				return i
			}
		}
		return -1
	}
	k := g.r.Intn(100)
	if g.clean && len(g.topics) < 3 {
		k = g.r.Intn(35)
	}
	switch {
	case k < 15:
		o := g.signerAddr(94)
		t := g.topic()
		if len(g.topics) > 0 && g.r.Chance(25) { // a dotted sub-name of a topic the signer already owns ("a" -> "a.b")
			var mine []string
			for _, kk := range sortedKeys(g.topics) {
				p := strings.SplitN(kk, "/", 2)
				if p[0] == o && len(p[1]) < 60 {
					mine = append(mine, p[1])
				}
			}
			if len(mine) > 0 {
				t = pick(g.r, mine) + "." + pick(g.r, []string{"b", "c", "x1"})
			}
		} else if len(g.topics) > 0 && g.r.Chance(30) { // create an existing topic again
			kk := pick(g.r, sortedKeys(g.topics))
			p := strings.SplitN(kk, "/", 2)
			o, t = p[0], p[1]
		}
		if g.clean {
			g.topics[o+"/"+t] = true
		}
		return joinSp("aol.CreateTopic", toks(t), toks(g.text(5000)), toks(o)), []int{idx(o)}
	case k < 35:
		o, t := g.someTopic()
		w := g.anyAddr(93)
		if g.clean && g.topics[o+"/"+t] {
			g.writers[o+"/"+t+"/"+w] = true
		}
		return joinSp("aol.AddWriter", toks(t), toks(g.moniker()), toks(g.text(5000)), toks(w), toks(o)), []int{idx(o)}
	case k < 45:
		o, t, w := g.someWriter()
		return joinSp("aol.DeleteWriter", toks(t), toks(w), toks(o)), []int{idx(o)}
	case k < 82:
		o, t, w := g.someWriter()
		if g.r.Chance(20) {
			// a writer listed on one topic of the owner appends to ANOTHER topic of the same owner (a sibling, a name that
			// extends or shortens the first, a dotted parent or child): the writer lists are per topic
			var others []string
			for _, kk := range sortedKeys(g.topics) {
				p := strings.SplitN(kk, "/", 2)
				if p[0] == o && p[1] != t {
					others = append(others, p[1])
				}
			}
			var related []string
			for _, t2 := range others {
				if strings.HasPrefix(t2, t) || strings.HasPrefix(t, t2) {
					related = append(related, t2)
				}
			}
			var children []string
			for _, t2 := range others {
				if strings.HasPrefix(t2, t+".") {
					children = append(children, t2)
				}
			}
			if len(children) > 0 && g.r.Chance(60) {
				t = pick(g.r, children)
			} else if len(related) > 0 && g.r.Chance(70) {
				t = pick(g.r, related)
			} else if len(others) > 0 {
				t = pick(g.r, others)
			}
		}
		fp := ""
		sg := []int{idx(w)}
		if g.r.Chance(30) {
			fp = g.signerAddr(90)
			if g.r.Chance(40) {
				fp = pick(g.r, []string{o, w}) // the owner (or the writer itself) pays
			}
			sg = []int{idx(fp), idx(w)}
			if fp != o && g.r.Chance(15) {
				sg = []int{idx(o), idx(w)} // the owner signs (and would pay) in place of the named fee payer: must be refused
			}
		}
		return joinSp("aol.AddRecord", toks(t), tok(g.bytesVal(70)), tok(g.bytesVal(5000)), toks(w), toks(o), toks(fp)), sg
	case k < 88:
		f := g.signerAddr(95)
		amt := pick(g.r, []string{"1", "1000", "0", "999999999999999"})
		return joinSp("bank.Send", toks(f), toks(g.anyAddr(90)), toks(feeDenom)+":"+amt), []int{idx(f)}
	case k < 96:
		gr := g.signerAddr(95)
		url := pick(g.r, []string{"/panacea.aol.v2.MsgAddWriterRequest", "/panacea.aol.v2.MsgDeleteWriterRequest", "/panacea.aol.v2.MsgAddRecordRequest", "/panacea.aol.v2.MsgCreateTopicRequest"})
		exp := "-"
		if g.r.Chance(30) {
			exp = strconv.FormatInt(g.now+int64(g.r.Intn(3)-1)*7_000_000_000, 10)
		}
		return joinSp("authz.Grant", toks(gr), toks(g.anyAddr(95)), toks(url), exp), []int{idx(gr)}
	default:
		gr := g.signerAddr(95)
		url := pick(g.r, []string{"/panacea.aol.v2.MsgAddWriterRequest", "/panacea.aol.v2.MsgAddRecordRequest", ""})
		return joinSp("authz.Revoke", toks(gr), toks(g.anyAddr(95)), toks(url)), []int{idx(gr)}
	}
}

func (g *aolGen) someTopic() (string, string) {
	if len(g.topics) > 0 && g.r.Chance(85) {
		k := pick(g.r, sortedKeys(g.topics))
		p := strings.SplitN(k, "/", 2)
		return p[0], p[1]
	}
	return g.signerAddr(90), g.topic()
}

func (g *aolGen) someWriter() (string, string, string) {
	if len(g.writers) > 0 && g.r.Chance(80) {
		k := pick(g.r, sortedKeys(g.writers))
		p := strings.SplitN(k, "/", 3)
		if len(p) == 3 {
			return p[0], p[1], p[2]
		}
	}
	o, t := g.someTopic()
	return o, t, g.anyAddr(90)
}

func genAolHistory(r *RNG, nBlocks int) []string {
	g := &aolGen{r: r, topics: map[string]bool{}, writers: map[string]bool{}, now: 1700000100_000000000}
	nAcc := 4
	for i := 0; i < nAcc; i++ {
		g.accts = append(g.accts, mkAcct(i))
	}
	a32 := make([]byte, 32)
	for i := range a32 {
		a32[i] = byte(20 + i)
	}
	// a 20-byte address whose first byte equals the length byte of a 32-byte one and vice versa (prefix games)
	a20 := append([]byte{32}, bytes.Repeat([]byte{7}, 19)...)
	g.extra = []string{sdk.AccAddress(a32).String(), sdk.AccAddress(a20).String(), "", "panacea1qqqq", "notanaddress",
		strings.ToUpper(g.addrStr(0)), sdk.MustBech32ifyAddressBytes("cosmos", g.accts[1].Addr)}
	g.add("# GENESIS %d %s", nAcc, "1000000000000")
	burstAt := -1
	if r.Chance(20) && nBlocks > 4 {
		burstAt = 3 + r.Intn(nBlocks-4)
	}
	topicBurstAt := -1
	if r.Chance(15) && nBlocks > 3 {
		topicBurstAt = 2 + r.Intn(nBlocks-3)
	}
	var burstTopic []string
	for b := 0; b < nBlocks; b++ {
		g.now += int64(1+r.Intn(5)) * 1_000_000_000
		g.add("BLOCK %d", g.now)
		nTx := 1 + r.Intn(4)
		for t := 0; t < nTx; t++ {
			g.clean = r.Chance(65) || b < 2
			nMsg := 1
			if r.Chance(30) {
				nMsg = 2 + r.Intn(2)
			}
			var mlines []string
			var need []int
			for m := 0; m < nMsg; m++ {
				if r.Chance(12) { // wrap 1-2 messages into an authz MsgExec
					grantee := g.signerAddr(95)
					mlines = append(mlines, "X "+toks(grantee))
					for j := 0; j < 1+r.Intn(2); j++ {
						ml, _ := g.msg()
						mlines = append(mlines, "M "+ml)
					}
					mlines = append(mlines, "XEND")
					gi := -1
					for i := range g.accts {
						if g.addrStr(i) == grantee {
							gi = i
						}
					}
					need = append(need, gi)
				} else {
					ml, sg := g.msg()
					mlines = append(mlines, "M "+ml)
					need = append(need, sg...)
				}
			}
			// signers: the natural ones (deduplicated, keys we hold), sometimes perturbed
			var sg []int
			seen := map[int]bool{}
			for _, i := range need {
				if i >= 0 && !seen[i] {
					seen[i] = true
					sg = append(sg, i)
				}
			}
			pert := r.Intn(8)
			if g.clean {
				pert = 99
			}
			switch pert {
			case 0:
				sg = []int{r.Intn(nAcc)} // somebody else signs
			case 1:
				sg = append(sg, r.Intn(nAcc)) // an extra signature
			case 2:
				if len(sg) > 1 {
					sg[0], sg[1] = sg[1], sg[0]
				}
			case 3, 4:
				if len(sg) > 1 { // one required signature is missing
					k := r.Intn(len(sg))
					sg = append(append([]int{}, sg[:k]...), sg[k+1:]...)
				}
			}
			if len(sg) == 0 {
				sg = []int{r.Intn(nAcc)}
			}
			// de-duplicate (the same key cannot sign twice meaningfully)
			var sg2 []string
			seen = map[int]bool{}
			for _, i := range sg {
				if !seen[i] {
					seen[i] = true
					sg2 = append(sg2, fmt.Sprintf("%x", []byte(g.accts[i].Addr)))
				}
			}
			fee := toks(feeDenom) + ":1000"
			if !g.clean {
				fee = pick(r, []string{"-", toks(feeDenom) + ":1000", toks(feeDenom) + ":1", toks(feeDenom) + ":1", toks(feeDenom) + ":5000000000000"})
			}
			g.add("TX %s %s", fee, strings.Join(sg2, ","))
			g.lines = append(g.lines, mlines...)
			if g.clean && r.Chance(4) { // otherwise acceptable, but the signatures are not over this transaction
				g.add("SIGMOD %s", pick(r, []string{"corrupt", "otherbody"}))
			}
			g.add("ENDTX")
		}
		// a burst: one listed writer appends 11-18 records to one topic (three per transaction), so that offsets of two
		// decimal digits exist (and are exported, imported and queried)
		if burstAt == b && len(g.writers) > 0 {
			p := strings.SplitN(pick(r, sortedKeys(g.writers)), "/", 3)
			wi := -1
			for i := range g.accts {
				if len(p) == 3 && g.addrStr(i) == p[2] {
					wi = i
				}
			}
			if wi >= 0 {
				for left := 11 + r.Intn(8); left > 0; {
					g.add("TX %s %x", toks(feeDenom)+":1000", []byte(g.accts[wi].Addr))
					for j := 0; j < 3 && left > 0; j++ {
						g.add("M aol.AddRecord %s %s %s %s %s %s", toks(p[1]), toks(fmt.Sprintf("k%d", left)), toks(fmt.Sprintf("v%d", left)), toks(p[2]), toks(p[0]), toks(""))
						left--
					}
					g.add("ENDTX")
				}
				burstTopic = p
			}
		}
		if b == topicBurstAt {
			// one owner creates a dozen more topics than the usual handful (and a writer on one of them): anything that
			// depends on how many topics an owner has — a quota, a charge, a counter width — is crossed here
			oi := r.Intn(nAcc)
			n := 11 + r.Intn(5)
			for j := 0; j < n; j++ {
				name := fmt.Sprintf("n%02d", j)
				g.add("TX %s %x", toks(feeDenom)+":1000", []byte(g.accts[oi].Addr))
				g.add("M aol.CreateTopic %s %s %s", toks(name), toks(""), toks(g.addrStr(oi)))
				g.add("ENDTX")
				g.topics[g.addrStr(oi)+"/"+name] = true
			}
		}
		doExport := r.Chance(12) || (burstTopic != nil && b == burstAt+1)
		if doExport && r.Chance(60) && len(g.writers) > 0 {
			// shape the state that is about to be exported: one topic loses ALL its writers (its records must survive
			// the export), so that exports are not only taken from "tidy" states
			k := pick(r, sortedKeys(g.writers))
			p := strings.SplitN(k, "/", 3)
			if len(p) == 3 {
				oi := -1
				for i := range g.accts {
					if g.addrStr(i) == p[0] {
						oi = i
					}
				}
				if oi >= 0 {
					for _, wk := range sortedKeys(g.writers) {
						q := strings.SplitN(wk, "/", 3)
						if len(q) == 3 && q[0] == p[0] && q[1] == p[1] {
							g.add("TX %s %x", toks(feeDenom)+":1000", []byte(g.accts[oi].Addr))
							g.add("M aol.DeleteWriter %s %s %s", toks(q[1]), toks(q[2]), toks(q[0]))
							g.add("ENDTX")
							delete(g.writers, wk)
						}
					}
				}
			}
		}
		g.add("ENDBLOCK")
		if doExport {
			g.add("EXPORTIMPORT")
		}
		g.add("DUMP aol")
		if burstTopic != nil && b >= burstAt {
			g.add("Q aol.Record %s %s %d", toks(burstTopic[0]), toks(burstTopic[1]), 10+r.Intn(2))
		}
		// queries: a sample of topics / writers / records, including absent and malformed ones
		for q := 0; q < 4; q++ {
			o, t, w := g.someWriter()
			switch r.Intn(3) {
			case 0:
				g.add("Q aol.Record %s %s %d", toks(o), toks(t), pick(r, []uint64{0, 0, 1, 2, 3, 7, 1 << 63}))
			case 1:
				g.add("Q aol.Topic %s %s", toks(o), toks(t))
			default:
				g.add("Q aol.Writer %s %s %s", toks(o), toks(t), toks(w))
			}
		}
	}
	return g.lines
}

// ---------------------------------------------------------------------------------------------------
// monitors (implementation-only oracles)

type ackRec struct {
	owner, topic, writer string
	offset               uint64
	key, value           []byte
	nano                 int64
}

// C01: every acknowledged record stays exactly as acknowledged; offsets are 0,1,2,... per topic
type aolRecordMonitor struct {
	acks  []ackRec
	count map[string]uint64
}

func (m *aolRecordMonitor) BeforeTx(x *Exec, tx *TxInfo) {}
func (m *aolRecordMonitor) AfterTx(x *Exec, tx *TxInfo, result string) {
	if !strings.HasPrefix(result, "R ok") {
		return
	}
	acks := strings.Split(result, " ")[2:]
	i := 0
	for _, pm := range tx.Msgs {
		if pm.Kind != "aol.AddRecord" {
			continue
		}
		if i >= len(acks) {
			x.Flag("C01-ack", "accepted AddRecord without an acknowledged offset")
			return
		}
		off, _ := strconv.ParseUint(acks[i], 10, 64)
		i++
		owner, err := sdk.AccAddressFromBech32(pm.Args[4])
		if err != nil {
			continue
		}
		tk := string(owner) + "/" + pm.Args[0]
		if m.count == nil {
			m.count = map[string]uint64{}
		}
		if off != m.count[tk] {
			x.Flag("C01-dense", fmt.Sprintf("topic %q acknowledged offset %d but held %d records before the append", pm.Args[0], off, m.count[tk]))
		}
		m.count[tk]++
		m.acks = append(m.acks, ackRec{owner: pm.Args[4], topic: pm.Args[0], writer: pm.Args[3], offset: off,
			key: []byte(pm.Args[1]), value: []byte(pm.Args[2]), nano: x.C.Time.UnixNano()})
	}
}
func (m *aolRecordMonitor) AfterBlock(x *Exec) { m.recheck(x) }
func (m *aolRecordMonitor) recheck(x *Exec) {
	for _, a := range m.acks {
		res := x.C.Query("/panacea.aol.v2.Query/Record", &aoltypes.QueryRecordRequest{OwnerAddress: a.owner, TopicName: a.topic, Offset: a.offset}, 0)
		if res.Code != 0 {
			x.Flag("C01-immutable", fmt.Sprintf("acknowledged record (%s,%q,%d) is no longer returned: %s", a.owner, a.topic, a.offset, res.Log))
			continue
		}
		var r aoltypes.QueryRecordResponse
		must(r.Unmarshal(res.Value))
		if !bytes.Equal(r.Record.Key, a.key) || !bytes.Equal(r.Record.Value, a.value) || r.Record.WriterAddress != a.writer || r.Record.NanoTimestamp != a.nano {
			x.Flag("C01-immutable", fmt.Sprintf("acknowledged record (%s,%q,%d) changed", a.owner, a.topic, a.offset))
		}
	}
}

// C02: appends only by listed, signing writers; writer lists change only by the owner; rejections are no-ops
type aolAuthMonitor struct {
	before   string
	writers  map[string]bool // writers listed before the tx, maintained through the tx's own messages
	grantsOK map[string]bool
	topics   map[string]bool // topics existing before the tx, maintained through the tx's own messages
}

// canonAddr: the account a bech32 string names (lower- and upper-case spellings name the same one); the string itself if
// it does not decode
func canonAddr(s string) string {
	if a, err := sdk.AccAddressFromBech32(s); err == nil {
		return "@" + string(a)
	}
	return s
}

func topicExists(x *Exec, owner, topic string) bool {
	o, err := sdk.AccAddressFromBech32(owner)
	if err != nil {
		return false
	}
	defer func() { recover() }()
	return x.C.App.AolKeeper.HasTopic(x.C.Ctx(), aoltypes.TopicCompositeKey{OwnerAddress: o, TopicName: topic})
}

func writerListed(x *Exec, owner, topic, writer string) bool {
	o, err1 := sdk.AccAddressFromBech32(owner)
	w, err2 := sdk.AccAddressFromBech32(writer)
	if err1 != nil || err2 != nil {
		return false
	}
	// looked up under the key the layout prescribes (prefix 0x02, then owner, topic name and writer, each behind its length
	// byte) — computed here, not by the code under test, so that a writer filed under another key does not count as listed
	if len(o) > 255 || len(topic) > 255 || len(w) > 255 {
		return false
	}
	key := []byte{0x02}
	for _, c := range [][]byte{o, []byte(topic), w} {
		key = append(key, byte(len(c)))
		key = append(key, c...)
	}
	defer func() { recover() }()
	return x.C.Ctx().KVStore(x.C.App.GetKey(aoltypes.StoreKey)).Has(key)
}

func hasGrant(x *Exec, granter, grantee sdk.AccAddress, url string) bool {
	auth, _ := x.C.App.AuthzKeeper.GetAuthorization(x.C.Ctx(), grantee, granter, url)
	return auth != nil
}

func signedBy(tx *TxInfo, a sdk.AccAddress) bool {
	for _, s := range tx.Signers {
		if s.Equals(a) {
			return true
		}
	}
	return false
}

// authorisedBy: actor signed the transaction, or the message sits in a MsgExec whose grantee signed
// and the actor had granted that message type to the grantee before the transaction.
func authorisedBy(x *Exec, tx *TxInfo, pm ParsedMsg, actor string, grants map[string]bool) bool {
	a, err := sdk.AccAddressFromBech32(actor)
	if err != nil {
		return false
	}
	if !pm.InExec {
		return signedBy(tx, a)
	}
	g, err := sdk.AccAddressFromBech32(pm.Exec)
	if err != nil || !signedBy(tx, g) {
		return false
	}
	return g.Equals(a) || grants[string(a)+"|"+string(g)+"|"+sdk.MsgTypeURL(pm.Msg)]
}

func (m *aolAuthMonitor) BeforeTx(x *Exec, tx *TxInfo) {
	m.before = x.dump("aol")
	m.writers = map[string]bool{}
	m.grantsOK = map[string]bool{}
	m.topics = map[string]bool{}
	for _, pm := range tx.Msgs {
		if !strings.HasPrefix(pm.Kind, "aol.") {
			continue
		}
		if pm.Kind == "aol.CreateTopic" {
			m.topics[canonAddr(pm.Args[2])+"|"+pm.Args[0]] = topicExists(x, pm.Args[2], pm.Args[0])
		}
		if pm.Kind == "aol.AddWriter" {
			m.topics[canonAddr(pm.Args[4])+"|"+pm.Args[0]] = topicExists(x, pm.Args[4], pm.Args[0])
		}
		if pm.Kind == "aol.AddRecord" || pm.Kind == "aol.AddWriter" || pm.Kind == "aol.DeleteWriter" {
			var owner, topic, writer string
			switch pm.Kind {
			case "aol.AddRecord":
				owner, topic, writer = pm.Args[4], pm.Args[0], pm.Args[3]
			case "aol.AddWriter":
				owner, topic, writer = pm.Args[4], pm.Args[0], pm.Args[3]
			default:
				owner, topic, writer = pm.Args[2], pm.Args[0], pm.Args[1]
			}
			k := canonAddr(owner) + "|" + topic + "|" + canonAddr(writer)
			m.writers[k] = writerListed(x, owner, topic, writer)
		}
		if pm.InExec {
			if g, err := sdk.AccAddressFromBech32(pm.Exec); err == nil {
				for _, s := range safeSigners(pm.Msg) {
					m.grantsOK[string(s)+"|"+string(g)+"|"+sdk.MsgTypeURL(pm.Msg)] = hasGrant(x, s, g, sdk.MsgTypeURL(pm.Msg))
				}
			}
		}
	}
}

func (m *aolAuthMonitor) AfterTx(x *Exec, tx *TxInfo, result string) {
	if !strings.HasPrefix(result, "R ok") {
		if after := x.dump("aol"); after != m.before {
			x.Flag("C02-reject-noop", "a rejected transaction changed the aol store: "+result)
		}
		return
	}
	// grants created by the same transaction also count (Grant precedes Exec inside one tx)
	for _, pm := range tx.Msgs {
		switch pm.Kind {
		case "authz.Grant":
			gr, e1 := sdk.AccAddressFromBech32(pm.Args[0])
			ge, e2 := sdk.AccAddressFromBech32(pm.Args[1])
			if e1 == nil && e2 == nil && authorisedBy(x, tx, pm, pm.Args[0], m.grantsOK) {
				m.grantsOK[string(gr)+"|"+string(ge)+"|"+pm.Args[2]] = true
			}
		case "authz.Revoke":
			gr, e1 := sdk.AccAddressFromBech32(pm.Args[0])
			ge, e2 := sdk.AccAddressFromBech32(pm.Args[1])
			if e1 == nil && e2 == nil {
				m.grantsOK[string(gr)+"|"+string(ge)+"|"+pm.Args[2]] = false
			}
		case "aol.CreateTopic":
			if !authorisedBy(x, tx, pm, pm.Args[2], m.grantsOK) {
				x.Flag("C02-topic-signer", "a topic was created under an address that did not authorise the transaction")
			}
			// C15 (atomicity): a message that has to fail must make the whole transaction fail; one that is reported as a
			// success instead lets the other messages of the transaction take effect
			if tk := canonAddr(pm.Args[2]) + "|" + pm.Args[0]; m.topics[tk] {
				x.Flag("C15-atomic-failing-message-accepted", "a CreateTopic for a topic that exists was reported as a success: the transaction was committed although one of its messages had to fail")
			} else {
				m.topics[tk] = true
			}
		case "aol.AddWriter":
			if !authorisedBy(x, tx, pm, pm.Args[4], m.grantsOK) {
				x.Flag("C02-writers-by-owner", "AddWriter accepted without the owner's authorisation")
			}
			if !m.topics[canonAddr(pm.Args[4])+"|"+pm.Args[0]] || m.writers[canonAddr(pm.Args[4])+"|"+pm.Args[0]+"|"+canonAddr(pm.Args[3])] {
				x.Flag("C15-atomic-failing-message-accepted", "an AddWriter for a missing topic or an already listed writer was reported as a success: the transaction was committed although one of its messages had to fail")
			}
			m.writers[canonAddr(pm.Args[4])+"|"+pm.Args[0]+"|"+canonAddr(pm.Args[3])] = true
		case "aol.DeleteWriter":
			if !authorisedBy(x, tx, pm, pm.Args[2], m.grantsOK) {
				x.Flag("C02-writers-by-owner", "DeleteWriter accepted without the owner's authorisation")
			}
			if !m.writers[canonAddr(pm.Args[2])+"|"+pm.Args[0]+"|"+canonAddr(pm.Args[1])] {
				x.Flag("C15-atomic-failing-message-accepted", "a DeleteWriter for a writer that is not listed was reported as a success: the transaction was committed although one of its messages had to fail")
			}
			m.writers[canonAddr(pm.Args[2])+"|"+pm.Args[0]+"|"+canonAddr(pm.Args[1])] = false
		case "aol.AddRecord":
			if !m.writers[canonAddr(pm.Args[4])+"|"+pm.Args[0]+"|"+canonAddr(pm.Args[3])] {
				x.Flag("C02-listed-writer", fmt.Sprintf("AddRecord by %s accepted although it is not in the writer list of (%s,%q)", pm.Args[3], pm.Args[4], pm.Args[0]))
			}
			if !authorisedBy(x, tx, pm, pm.Args[3], m.grantsOK) {
				x.Flag("C02-writer-signed", "AddRecord accepted without the writer's signature/authorisation")
			}
		}
	}
}
func (m *aolAuthMonitor) AfterBlock(x *Exec) {}

// C13 (part): counters equal the counted entries of the store dump
type aolCounterMonitor struct{}

func (m *aolCounterMonitor) BeforeTx(x *Exec, tx *TxInfo)               {}
func (m *aolCounterMonitor) AfterTx(x *Exec, tx *TxInfo, result string) {}
func (m *aolCounterMonitor) AfterBlock(x *Exec) {
	topicsOf := map[string]uint64{}
	writersOf := map[string]uint64{}
	recordsOf := map[string]uint64{}
	maxOff := map[string]uint64{}
	type tinfo struct{ nr, nw uint64 }
	topics := map[string]tinfo{}
	owners := map[string]uint64{}
	for _, kv := range x.C.DumpStore("aol") {
		k := kv[0]
		comps := splitCompkey(k[1:])
		switch k[0] {
		case 0:
			var o aoltypes.Owner
			must(o.Unmarshal(kv[1]))
			owners[string(comps[0])] = o.TotalTopics
		case 1:
			var t aoltypes.Topic
			must(t.Unmarshal(kv[1]))
			topics[string(comps[0])+"/"+string(comps[1])] = tinfo{t.TotalRecords, t.TotalWriters}
			topicsOf[string(comps[0])]++
		case 2:
			writersOf[string(comps[0])+"/"+string(comps[1])]++
		case 3:
			tk := string(comps[0]) + "/" + string(comps[1])
			recordsOf[tk]++
			off := sdk.BigEndianToUint64(comps[2])
			if off+1 > maxOff[tk] {
				maxOff[tk] = off + 1
			}
		}
	}
	for o, n := range owners {
		if n != topicsOf[o] {
			x.Flag("C13-owner-counter", fmt.Sprintf("owner reports %d topics, store holds %d", n, topicsOf[o]))
		}
	}
	for o, n := range topicsOf {
		if owners[o] != n {
			x.Flag("C13-owner-counter", fmt.Sprintf("owner reports %d topics, store holds %d", owners[o], n))
		}
	}
	for tk, ti := range topics {
		if ti.nw != writersOf[tk] {
			x.Flag("C13-writer-counter", fmt.Sprintf("topic reports %d writers, store holds %d", ti.nw, writersOf[tk]))
		}
		if ti.nr != recordsOf[tk] || maxOff[tk] != recordsOf[tk] {
			x.Flag("C13-record-counter", fmt.Sprintf("topic reports %d records, store holds %d (max offset+1 = %d)", ti.nr, recordsOf[tk], maxOff[tk]))
		}
	}
	for tk := range writersOf {
		if _, ok := topics[tk]; !ok {
			x.Flag("C13-orphan", "writer entry without topic")
		}
	}
	for tk := range recordsOf {
		if _, ok := topics[tk]; !ok {
			x.Flag("C01-orphan", "record entry without topic")
		}
	}
}

func safeSigners(m sdk.Msg) (out []sdk.AccAddress) {
	defer func() {
		if r := recover(); r != nil {
			out = nil
		}
	}()
	return m.GetSigners()
}

func splitCompkey(b []byte) [][]byte {
	var out [][]byte
	for len(b) > 0 {
		n := int(b[0])
		if 1+n > len(b) {
			break
		}
		out = append(out, b[1:1+n])
		b = b[1+n:]
	}
	return out
}

