package main

// Profile "upgrade" (C19): a populated chain (AOL / PNFT / DID traffic) on which the plan of the last entry of
// app.Upgrades is scheduled for the next height, with restarts before, at (upgrade-info.json on disk, so that the
// application installs the upgrade store loader) and after that height, and inside the upgrade block.  Checked on the
// implementation: the block is processed without halting, the plan is marked done at its height, the module version map
// equals the binary's, the custom stores are byte-identical across the upgrade's BeginBlock, restarts resume with the
// committed hash, and a twin replica that never restarts agrees; statically, every mounted store is accounted for by the
// descriptors (independent re-implementation of the check proved in Upgrade/Repo.v).

import (
	"fmt"
	"sort"
	"strings"

	"github.com/cosmos/cosmos-sdk/store/prefix"
	sdk "github.com/cosmos/cosmos-sdk/types"
	"github.com/cosmos/cosmos-sdk/types/module"
	upgradetypes "github.com/cosmos/cosmos-sdk/x/upgrade/types"
	"github.com/medibloc/panacea-core/v2/app"
)

var upgradeBaseline = []string{"acc", "bank", "staking", "mint", "distribution", "slashing", "gov", "params", "ibc", "upgrade", "evidence",
	"transfer", "capability", "aol", "did", "burn", "token", "wasm"}

// storesUnaccounted: mounted stores that neither predate the first descriptor nor are introduced (and not removed later)
func storesUnaccounted(a *app.App) []string {
	on := map[string]bool{}
	for _, s := range upgradeBaseline {
		on[s] = true
	}
	for _, u := range app.Upgrades {
		for _, s := range u.StoreUpgrades.Deleted {
			delete(on, s)
		}
		for _, r := range u.StoreUpgrades.Renamed {
			if on[r.OldKey] || true {
				delete(on, r.OldKey)
			}
		}
		for _, s := range u.StoreUpgrades.Added {
			on[s] = true
		}
		for _, r := range u.StoreUpgrades.Renamed {
			on[r.NewKey] = true
		}
	}
	var bad []string
	for name := range a.GetKVStoreKey() {
		if !on[name] {
			bad = append(bad, name)
		}
	}
	sort.Strings(bad)
	return bad
}

func (x *Exec) upgradeSchedule(name string) string {
	if bad := storesUnaccounted(x.C.App); len(bad) > 0 {
		x.Flag("C19-store-unaccounted", "mounted stores that no upgrade descriptor introduces and that do not predate the first descriptor: "+strings.Join(bad, ", "))
	}
	for _, u := range app.Upgrades {
		if !x.C.App.UpgradeKeeper.HasHandler(u.UpgradeName) {
			x.Flag("C19-handler-missing", "no upgrade handler registered for "+u.UpgradeName)
		}
	}
	shapeVersionMap(x.C, name)
	plan := upgradetypes.Plan{Name: name, Height: x.C.Height + 1}
	if err := x.C.App.UpgradeKeeper.ScheduleUpgrade(x.C.Ctx(), plan); err != nil {
		return "U error"
	}
	x.pendingUpgrade, x.upgradeHeight = name, plan.Height
	if x.Node != nil && x.Node.blk != nil {
		x.Node.blk.upgrade = name
	}
	x.Stats["upgrade-scheduled"]++
	return "U scheduled"
}

// baselineCustomVersions: the consensus versions the custom modules had in the releases this binary upgrades from (recorded at
// design time, like the store baseline of Upgrade/Baseline.v; also emitted into GenUpgrade.v next to the binary's versions)
var baselineCustomVersions = map[string]uint64{"aol": 1, "burn": 1, "did": 1, "pnft": 1}

// shapeVersionMap makes the recorded module version map what the previous release left behind before the plan `name` runs:
// the custom modules at their baseline versions, and no entry for a module whose store the plan's descriptor (or a later
// one) adds.  On a binary whose versions equal the baseline and for the last plan (which adds no store) nothing changes.
func shapeVersionMap(c *Chain, name string) {
	ctx := c.Ctx()
	vm := c.App.UpgradeKeeper.GetModuleVersionMap(ctx)
	set := module.VersionMap{}
	for m, v := range baselineCustomVersions {
		if _, ok := vm[m]; ok {
			set[m] = v
		}
	}
	c.App.UpgradeKeeper.SetModuleVersionMap(ctx, set)
	from := -1
	for i, u := range app.Upgrades {
		if u.UpgradeName == name {
			from = i
		}
	}
	if from < 0 {
		return
	}
	st := prefix.NewStore(ctx.KVStore(c.App.GetKey(upgradetypes.StoreKey)), []byte{upgradetypes.VersionMapByte})
	for _, u := range app.Upgrades[from:] {
		for _, added := range u.StoreUpgrades.Added {
			if _, ok := vm[added]; ok {
				st.Delete([]byte(added))
			}
			// the store itself did not exist before that release: empty it (the generator asks for such a plan only on
			// histories without PNFT traffic)
			if key := c.App.GetKey(added); key != nil {
				kv := ctx.KVStore(key)
				var keys [][]byte
				it := kv.Iterator(nil, nil)
				for ; it.Valid(); it.Next() {
					keys = append(keys, append([]byte{}, it.Key()...))
				}
				it.Close()
				for _, k := range keys {
					kv.Delete(k)
				}
			}
		}
	}
}

// runnablePlans: the plans whose handler this binary can be asked to run on a disk it can load: no later descriptor adds,
// deletes or renames a store
func runnablePlans() []string {
	var out []string
	for i, u := range app.Upgrades {
		ok := true
		for _, l := range app.Upgrades[i+1:] {
			if len(l.StoreUpgrades.Added)+len(l.StoreUpgrades.Deleted)+len(l.StoreUpgrades.Renamed) > 0 {
				ok = false
			}
		}
		if ok {
			out = append(out, u.UpgradeName)
		}
	}
	return out
}

// upgradeBegin wraps the BeginBlock at the plan height
func (x *Exec) upgradeBegin(run func(), halted *bool) {
	before := x.C.customStores()
	run()
	if *halted {
		return
	}
	after := x.C.customStores()
	n := 0
	for k, v := range before {
		if after[k] != v {
			n++
		}
	}
	for k := range after {
		if _, ok := before[k]; !ok {
			n++
		}
	}
	if n > 0 {
		x.Flag("C19-data", fmt.Sprintf("%d entries of the AOL/DID/PNFT stores changed in the upgrade block's BeginBlock", n))
	}
	ctx := x.C.Ctx()
	if h := x.C.App.UpgradeKeeper.GetDoneHeight(ctx, x.pendingUpgrade); h != x.upgradeHeight {
		x.Flag("C19-not-applied", fmt.Sprintf("upgrade %s scheduled for height %d: done height recorded is %d", x.pendingUpgrade, x.upgradeHeight, h))
	}
	want := x.C.App.ModuleManager.GetVersionMap()
	got := x.C.App.UpgradeKeeper.GetModuleVersionMap(ctx)
	for m, v := range want {
		if got[m] != v {
			x.Flag("C19-versions", fmt.Sprintf("module %s: consensus version %d recorded after the upgrade, the binary has %d", m, got[m], v))
		}
	}
	x.Stats["upgrade-applied"]++
	x.pendingUpgrade = ""
}

var probesEmitted bool

func genUpgradeHistory(r *RNG, nBlocks int) []string {
	var inner []string
	kind := r.Intn(3)
	switch kind {
	case 0:
		inner = genAolHistory(r.Fork(), nBlocks)
	case 1:
		inner = genPnftHistory(r.Fork(), nBlocks)
	default:
		inner = genDidHistory(r.Fork(), nBlocks)
	}
	if kind == 0 {
		// two owners with a topic of the SAME name, each with writers (and one more under a third owner without writers): data
		// a per-name or per-prefix migration would mix up
		var pre []string
		for oi, ws := range [][]int{{2, 3}, {2}, {}} {
			o := mkAcct(oi).Addr
			pre = append(pre, fmt.Sprintf("TX %s %x", toks(feeDenom)+":1000", []byte(o)), fmt.Sprintf("M aol.CreateTopic %s %s %s", toks("same"), toks("d"), toks(o.String())))
			for _, w := range ws {
				pre = append(pre, fmt.Sprintf("M aol.AddWriter %s %s %s %s %s", toks("same"), toks("m"), toks(""), toks(mkAcct(w).Addr.String()), toks(o.String())))
			}
			pre = append(pre, "ENDTX")
		}
		for i, l := range inner {
			if strings.HasPrefix(l, "BLOCK ") {
				inner = append(inner[:i+1], append(pre, inner[i+1:]...)...)
				break
			}
		}
	}
	if kind == 1 {
		// PNFT data a "normalising" migration would stumble over: names with surrounding whitespace, a token that has moved away
		// from its creator, a denom that has moved away from its creator
		A, B := mkAcct(0).Addr, mkAcct(1).Addr
		tx := func(signer sdk.AccAddress, msgs ...string) []string {
			l := []string{fmt.Sprintf("TX %s %x", toks(feeDenom)+":1000", []byte(signer))}
			for _, m := range msgs {
				l = append(l, "M "+m)
			}
			return append(l, "ENDTX")
		}
		var pre []string
		pre = append(pre, tx(A, joinSp("pnft.CreateDenom", toks("zz1"), toks(" padded "), toks("S"), toks(""), toks(""), toks(""), toks(A.String()), toks("")),
			joinSp("pnft.Mint", toks("zz1"), toks("t1"), toks(" name "), toks("d"), toks(""), toks(""), toks(""), toks(A.String())),
			joinSp("pnft.Mint", toks("zz1"), toks("t2"), toks("name\t"), toks(""), toks(""), toks(""), toks(""), toks(A.String())),
			joinSp("pnft.Transfer", toks("zz1"), toks("t1"), toks(A.String()), toks(B.String())))...)
		pre = append(pre, tx(A, joinSp("pnft.CreateDenom", toks("zz2"), toks("N"), toks("S"), toks(""), toks(""), toks(""), toks(A.String()), toks("")),
			joinSp("pnft.Mint", toks("zz2"), toks("t1"), toks("\nname"), toks(""), toks(""), toks(""), toks(""), toks(A.String())),
			joinSp("pnft.TransferDenom", toks("zz2"), toks(A.String()), toks(B.String())))...)
		for i, l := range inner {
			if strings.HasPrefix(l, "BLOCK ") {
				inner = append(inner[:i+1], append(pre, inner[i+1:]...)...)
				break
			}
		}
	}
	name := app.Upgrades[len(app.Upgrades)-1].UpgradeName
	last := true
	if plans := runnablePlans(); len(plans) > 1 && kind != 1 && r.Chance(35) {
		// an earlier plan this binary also carries a handler for (a node that skipped releases): the version map is shaped to
		// what the release before it recorded; no restart at or inside the upgrade block (the store loader of that plan would
		// add stores this chain already has)
		name = plans[r.Intn(len(plans)-1)]
		last = false
	}
	// once per run: this binary started at the height of each descriptor on the disk left by the previous ones
	if !probesEmitted {
		probesEmitted = true
		for k := range app.Upgrades {
			inner = append([]string{fmt.Sprintf("UPROBE %d", k)}, inner...)
		}
	}
	// the block in which the plan is scheduled
	nb := 0
	for _, l := range inner {
		if l == "ENDBLOCK" {
			nb++
		}
	}
	if nb < 4 {
		return inner
	}
	at := 1 + r.Intn(nb-2)
	mode := r.Intn(5) // where the node is stopped: 0 never, 1 before, 2 at, 3 inside the upgrade block, 4 after
	if !last && (mode == 2 || mode == 3) {
		mode = pick(r, []int{0, 1, 4})
	}
	var out []string
	b := 0
	var cur string
	for _, l := range inner {
		f := strings.SplitN(l, " ", 2)
		switch f[0] {
		case "EXPORTIMPORT", "PAGE":
			continue
		case "BLOCK":
			cur = l
			out = append(out, l)
			if b == at+1 && mode == 3 {
				out = append(out, "CRASH", cur)
			}
		case "ENDBLOCK":
			if b == at {
				out = append(out, "UPGRADE "+name)
			}
			out = append(out, l)
			switch {
			case b == at-1 && mode == 1, b == at && mode == 2, b == at+1 && mode == 4:
				out = append(out, "CRASH", "DUMP aol", "DUMP pnft", "DUMP did")
			}
			if b == at+1 {
				out = append(out, "DUMP aol", "DUMP pnft", "DUMP did")
			}
			b++
		default:
			out = append(out, l)
		}
	}
	return out
}
