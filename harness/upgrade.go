package main

// Profile "upgrade" (C19): a populated chain (AOL / PNFT / DID traffic) on which the plan of the last entry of
// app.Upgrades is scheduled for the next height, with restarts before, at (upgrade-info.json on disk, so that the
// application installs the upgrade store loader) and after that height, and inside the upgrade block.  Checked on the
// implementation: the block is processed without halting, the plan is marked done at its height, the module version map
// equals the binary's, the custom stores are byte-identical across the upgrade's BeginBlock, restarts resume with the
// committed hash, and a twin replica that never restarts agrees; statically, every mounted store is accounted for by the
// descriptors (independent re-implementation of the check proved in Upgrade/Repo.v).

import (
	"fmt"
	"sort"
	"strings"

	upgradetypes "github.com/cosmos/cosmos-sdk/x/upgrade/types"
	"github.com/medibloc/panacea-core/v2/app"
)

var upgradeBaseline = []string{"acc", "bank", "staking", "mint", "distribution", "slashing", "gov", "params", "ibc", "upgrade", "evidence",
	"transfer", "capability", "aol", "did", "burn", "token", "wasm"}

// storesUnaccounted: mounted stores that neither predate the first descriptor nor are introduced (and not removed later)
func storesUnaccounted(a *app.App) []string {
	on := map[string]bool{}
	for _, s := range upgradeBaseline {
		on[s] = true
	}
	for _, u := range app.Upgrades {
		for _, s := range u.StoreUpgrades.Deleted {
			delete(on, s)
		}
		for _, r := range u.StoreUpgrades.Renamed {
			if on[r.OldKey] || true {
				delete(on, r.OldKey)
			}
		}
		for _, s := range u.StoreUpgrades.Added {
			on[s] = true
		}
		for _, r := range u.StoreUpgrades.Renamed {
			on[r.NewKey] = true
		}
	}
	var bad []string
	for name := range a.GetKVStoreKey() {
		if !on[name] {
			bad = append(bad, name)
		}
	}
	sort.Strings(bad)
	return bad
}

func (x *Exec) upgradeSchedule(name string) string {
	if bad := storesUnaccounted(x.C.App); len(bad) > 0 {
		x.Flag("C19-store-unaccounted", "mounted stores that no upgrade descriptor introduces and that do not predate the first descriptor: "+strings.Join(bad, ", "))
	}
	for _, u := range app.Upgrades {
		if !x.C.App.UpgradeKeeper.HasHandler(u.UpgradeName) {
			x.Flag("C19-handler-missing", "no upgrade handler registered for "+u.UpgradeName)
		}
	}
	plan := upgradetypes.Plan{Name: name, Height: x.C.Height + 1}
	if err := x.C.App.UpgradeKeeper.ScheduleUpgrade(x.C.Ctx(), plan); err != nil {
		return "U error"
	}
	x.pendingUpgrade, x.upgradeHeight = name, plan.Height
	if x.Node != nil && x.Node.blk != nil {
		x.Node.blk.upgrade = name
	}
	x.Stats["upgrade-scheduled"]++
	return "U scheduled"
}

// upgradeBegin wraps the BeginBlock at the plan height
func (x *Exec) upgradeBegin(run func(), halted *bool) {
	before := x.C.customStores()
	run()
	if *halted {
		return
	}
	after := x.C.customStores()
	n := 0
	for k, v := range before {
		if after[k] != v {
			n++
		}
	}
	for k := range after {
		if _, ok := before[k]; !ok {
			n++
		}
	}
	if n > 0 {
		x.Flag("C19-data", fmt.Sprintf("%d entries of the AOL/DID/PNFT stores changed in the upgrade block's BeginBlock", n))
	}
	ctx := x.C.Ctx()
	if h := x.C.App.UpgradeKeeper.GetDoneHeight(ctx, x.pendingUpgrade); h != x.upgradeHeight {
		x.Flag("C19-not-applied", fmt.Sprintf("upgrade %s scheduled for height %d: done height recorded is %d", x.pendingUpgrade, x.upgradeHeight, h))
	}
	want := x.C.App.ModuleManager.GetVersionMap()
	got := x.C.App.UpgradeKeeper.GetModuleVersionMap(ctx)
	for m, v := range want {
		if got[m] != v {
			x.Flag("C19-versions", fmt.Sprintf("module %s: consensus version %d recorded after the upgrade, the binary has %d", m, got[m], v))
		}
	}
	x.Stats["upgrade-applied"]++
	x.pendingUpgrade = ""
}

var probesEmitted bool

func genUpgradeHistory(r *RNG, nBlocks int) []string {
	var inner []string
	switch r.Intn(3) {
	case 0:
		inner = genAolHistory(r.Fork(), nBlocks)
	case 1:
		inner = genPnftHistory(r.Fork(), nBlocks)
	default:
		inner = genDidHistory(r.Fork(), nBlocks)
	}
	name := app.Upgrades[len(app.Upgrades)-1].UpgradeName
	// once per run: this binary started at the height of each descriptor on the disk left by the previous ones
	if !probesEmitted {
		probesEmitted = true
		for k := range app.Upgrades {
			inner = append([]string{fmt.Sprintf("UPROBE %d", k)}, inner...)
		}
	}
	// the block in which the plan is scheduled
	nb := 0
	for _, l := range inner {
		if l == "ENDBLOCK" {
			nb++
		}
	}
	if nb < 4 {
		return inner
	}
	at := 1 + r.Intn(nb-2)
	mode := r.Intn(5) // where the node is stopped: 0 never, 1 before, 2 at, 3 inside the upgrade block, 4 after
	var out []string
	b := 0
	var cur string
	for _, l := range inner {
		f := strings.SplitN(l, " ", 2)
		switch f[0] {
		case "EXPORTIMPORT", "PAGE":
			continue
		case "BLOCK":
			cur = l
			out = append(out, l)
			if b == at+1 && mode == 3 {
				out = append(out, "CRASH", cur)
			}
		case "ENDBLOCK":
			if b == at {
				out = append(out, "UPGRADE "+name)
			}
			out = append(out, l)
			switch {
			case b == at-1 && mode == 1, b == at && mode == 2, b == at+1 && mode == 4:
				out = append(out, "CRASH", "DUMP aol", "DUMP pnft", "DUMP did")
			}
			if b == at+1 {
				out = append(out, "DUMP aol", "DUMP pnft", "DUMP did")
			}
			b++
		default:
			out = append(out, l)
		}
	}
	return out
}
