#!/usr/bin/env python3
"""manifest_add.py <ID> <design_ref> <<< JSON {"text":..., "note":..., "technique":...}"""
import json, sys
pid, ref = sys.argv[1], sys.argv[2]
d = json.load(sys.stdin)
m = json.load(open('/verif/MANIFEST.json'))
m['checks'] = [c for c in m['checks'] if c['property_id'] != pid]
m['checks'].append({"property_id": pid, "quick_cmd": "bin/check %s quick" % pid, "thorough_cmd": "bin/check %s thorough" % pid,
                    "evidence_file": "evidence/%s.json" % pid, "replay_cmd_template": "bin/check replay {path}", "engine": "coq-model",
                    "level_claimed": {"category": "proof", "text": d["text"], "design_ref": ref},
                    "level_note": d["note"], "technique": d["technique"]})
m['checks'].sort(key=lambda c: c['property_id'])
m['not_applicable'] = [x for x in m.get('not_applicable', []) if x['property_id'] != pid]
for e in m['engines']:
    if pid not in e['serves_properties']:
        e['serves_properties'].append(pid)
json.dump(m, open('/verif/MANIFEST.json', 'w'), indent=1)
print("ok", pid, len(m['checks']), "checks;", len(m['not_applicable']), "not yet claimed")
