#!/bin/bash
# try_seed2.sh <patch.diff> <check id>... : like try_seed.sh but on a private copy (/tmp/verif2 + /tmp/repo2), so that it can run
# while other checks use /verif and /repo.  Re-syncs the copy from /verif first.
P=$(realpath "$1"); shift
rsync -a --delete --exclude _build --exclude replays --exclude .git /verif/ /tmp/verif2/
mkdir -p /tmp/verif2/_build
export VERIF_REPO=/tmp/repo2
[ -d /tmp/repo2 ] || git -C /repo worktree add -q --detach /tmp/repo2 HEAD
git -C /tmp/repo2 checkout -q --detach $(git -C /repo rev-parse HEAD) 2>/dev/null
trap 'git -C /tmp/repo2 checkout -- . ; git -C /tmp/repo2 clean -fdq' EXIT
git -C /tmp/repo2 checkout -q -- . ; git -C /tmp/repo2 apply "$P" || exit 2
for c in "$@"; do
  out=$(timeout 1500 /tmp/verif2/bin/check $c quick 2>&1)
  echo "== $c: $(echo "$out" | grep -c '^VIOLATION') violation line(s); $(echo "$out" | grep '^VIOLATION' | head -2 | cut -c1-140 | tr '\n' ' ')"
done
