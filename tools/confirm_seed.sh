#!/bin/bash
# confirm_seed.sh <ID> <seed-dir> <worktree>: confirms a seeded change independently:
#  (1) patch applies on a clean checkout, (2) build ok, (3) existing suite passes without the demo,
#  (4) the demonstration fails with the change, (5) passes without it.  Writes <seed-dir>/confirm.log
set -u
ID=$1; SD=$2; WT=$3
export GOFLAGS=-mod=mod GOPROXY=off GOSUMDB=off GOTOOLCHAIN=local
LOG=$SD/confirm.log; : > $LOG
cd $WT || exit 2
DEMOS=$(git status --porcelain | grep '^??' | awk '{print $2}')
mkdir -p $SD/demo_files; for d in $DEMOS; do mkdir -p $SD/demo_files/$(dirname $d); cp $d $SD/demo_files/$d; done
git checkout -q -- . ; for d in $DEMOS; do rm -f $d; done
git apply --check $SD/patch.diff && git apply $SD/patch.diff || { echo "patch does not apply" >> $LOG; exit 1; }
go build ./... >> $LOG 2>&1 && echo "BUILD ok" >> $LOG || { echo "BUILD FAILED" >> $LOG; exit 1; }
go test -vet=off -count=1 ./... > $SD/suite.log 2>&1; if grep -q "^FAIL\|^---FAIL\|--- FAIL" $SD/suite.log; then echo "SUITE FAILED with change" >> $LOG; else echo "SUITE ok with change ($(grep -c '^ok' $SD/suite.log) packages)" >> $LOG; fi
for d in $DEMOS; do mkdir -p $(dirname $d); cp $SD/demo_files/$d $d; done
CMD=$(grep -v '^#' $SD/demo_cmd.txt | grep -m1 'go ' | sed 's/^[^g]*go /go /')
echo "demo cmd: $CMD" >> $LOG
( eval "$CMD" ) > $SD/demo_with.log 2>&1; echo "DEMO with change: exit $?" >> $LOG
git apply -R $SD/patch.diff
( eval "$CMD" ) > $SD/demo_without.log 2>&1; echo "DEMO without change: exit $?" >> $LOG
git apply $SD/patch.diff
cat $LOG
