#!/bin/bash
# try_seed.sh <patch.diff> <check id>... : applies a seeded change to /repo, runs the quick checks, restores /repo (always)
P=$1; shift
trap 'git -C /repo checkout -- . ; git -C /repo clean -fdq' EXIT
git -C /repo apply "$(realpath "$P")" || exit 2
for c in "$@"; do
  out=$(timeout 1500 /verif/bin/check $c quick 2>&1)
  echo "== $c: $(echo "$out" | grep -c '^VIOLATION') violation line(s); $(echo "$out" | grep '^VIOLATION' | head -2 | cut -c1-140 | tr '\n' ' ')"
done
