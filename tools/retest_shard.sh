#!/bin/bash
# retest_shard.sh <n> <seed> <pattern>: re-tests the kept seeds whose directory name matches <pattern> (egrep) on a private copy
# (/tmp/verif<n> + worktree /tmp/repo<n> of /repo's HEAD) with VERIF_SEED=<seed>; writes /verif/seeded/RESULTS-final-<n>.txt
N=$1; S=$2; PAT=$3
V=/tmp/verif$N; R=/tmp/repo$N
[ -d $R ] || git -C /repo worktree add -q --detach $R HEAD
git -C $R checkout -q --detach $(git -C /repo rev-parse HEAD)
rsync -a --delete --exclude _build --exclude replays --exclude .git /verif/ $V/
mkdir -p $V/_build
export VERIF_REPO=$R VERIF_SEED=$S
OUT=/verif/seeded/RESULTS-final-$N.txt; : > $OUT
for d in $(ls -d $V/seeded/C*/ | egrep "$PAT"); do
  id=$(basename $d | cut -c1-3)
  git -C $R checkout -q -- . ; git -C $R clean -fdq
  git -C $R apply $d/patch.diff || { echo "$(basename $d) PATCH-DOES-NOT-APPLY" >> $OUT; continue; }
  out=$(timeout 1800 $V/bin/check $id quick 2>&1)
  v=$(echo "$out" | grep -c '^VIOLATION'); n=$(echo "$out" | grep '^VIOLATION' | grep -c 'no-failing-input-found')
  echo "$(basename $d) violations=$v without_input=$n" >> $OUT
done
git -C $R checkout -q -- . ; git -C $R clean -fdq
echo DONE >> $OUT
