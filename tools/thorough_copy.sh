#!/bin/bash
# thorough_copy.sh : runs the thorough tier of every check on a third private copy (/tmp/verif3 + /tmp/repo3 at /repo's HEAD), so
# that /verif and /repo stay free; writes /verif/_build/thorough-copy.log
rsync -a --delete --exclude _build --exclude replays --exclude .git /verif/ /tmp/verif3/
mkdir -p /tmp/verif3/_build
export VERIF_REPO=/tmp/repo3
git -C /tmp/repo3 checkout -q -- . ; git -C /tmp/repo3 clean -fdq
LOG=/verif/_build/thorough-copy.log; : > $LOG
for id in "$@"; do
  s=$(date +%s)
  out=$(timeout 5400 /tmp/verif3/bin/check $id thorough 2>&1); rc=$?
  echo "$id rc=$rc $(( $(date +%s) - s ))s known=$(echo "$out" | grep -c '^KNOWN-FINDING') viol=$(echo "$out" | grep -c '^VIOLATION') $(echo "$out" | grep '^VIOLATION' | head -2 | tr '\n' ' ')" >> $LOG
done
echo DONE >> $LOG
