#!/bin/bash
# confirm_multi.sh <seed-subdir (…/mN)> <worktree>: confirms one small mutant: patch applies on the clean checkout, build ok,
# unedited suite passes with it, the demonstration fails with it and passes without it.  Writes <seed-subdir>/confirm.log
set -u
SD=$1; WT=$2
export GOFLAGS=-mod=mod GOPROXY=off GOSUMDB=off GOTOOLCHAIN=local
LOG=$SD/confirm.log; : > $LOG
cd $WT || exit 2
git checkout -q -- . ; git clean -fdq
DP=$(cat $SD/demo_path.txt 2>/dev/null | head -1 | tr -d ' \r')
DEMO=$(ls $SD/*_test.go 2>/dev/null | head -1)
[ -z "$DP" ] || [ -z "$DEMO" ] && { echo "no demo_path.txt or demo file" >> $LOG; cat $LOG; exit 1; }
git apply --check $SD/patch.diff && git apply $SD/patch.diff || { echo "patch does not apply" >> $LOG; cat $LOG; exit 1; }
go build ./... >> $LOG 2>&1 && echo "BUILD ok" >> $LOG || { echo "BUILD FAILED" >> $LOG; cat $LOG; exit 1; }
go test -vet=off -count=1 ./... > $SD/suite.log 2>&1; if grep -q "^FAIL\|--- FAIL" $SD/suite.log; then echo "SUITE FAILED with change" >> $LOG; else echo "SUITE ok with change ($(grep -c '^ok' $SD/suite.log) packages)" >> $LOG; fi
mkdir -p $(dirname $DP) $SD/demo_files/$(dirname $DP); cp $DEMO $DP; cp $DEMO $SD/demo_files/$DP
CMD=$(grep -v '^#' $SD/demo_cmd.txt | grep -m1 'go ' | sed 's/^[^g]*go /go /')
echo "demo cmd: $CMD" >> $LOG
( eval "$CMD" ) > $SD/demo_with.log 2>&1; echo "DEMO with change: exit $?" >> $LOG
git apply -R $SD/patch.diff
( eval "$CMD" ) > $SD/demo_without.log 2>&1; echo "DEMO without change: exit $?" >> $LOG
rm -f $DP; git checkout -q -- . ; git clean -fdq
cat $LOG
