#!/bin/bash
# retest_seeds_copy.sh <seed> : like retest_seeds.sh but on a third private copy (/tmp/verif3 + /tmp/repo3) and with VERIF_SEED=<seed>;
# writes /verif/seeded/RESULTS-seed<seed>.txt
S=${1:-2}
rsync -a --delete --exclude _build --exclude replays --exclude .git /verif/ /tmp/verif3/
mkdir -p /tmp/verif3/_build
export VERIF_REPO=/tmp/repo3 VERIF_SEED=$S
OUT=/verif/seeded/RESULTS-seed$S.txt; : > $OUT
for d in /tmp/verif3/seeded/C*/; do
  id=$(basename $d | cut -c1-3)
  git -C /tmp/repo3 checkout -q -- . ; git -C /tmp/repo3 clean -fdq
  git -C /tmp/repo3 apply $d/patch.diff || { echo "$(basename $d) PATCH-DOES-NOT-APPLY" >> $OUT; continue; }
  out=$(timeout 1800 /tmp/verif3/bin/check $id quick 2>&1)
  v=$(echo "$out" | grep -c '^VIOLATION'); n=$(echo "$out" | grep '^VIOLATION' | grep -c 'no-failing-input-found')
  echo "$(basename $d) violations=$v without_input=$n" >> $OUT
done
git -C /tmp/repo3 checkout -q -- . ; git -C /tmp/repo3 clean -fdq
