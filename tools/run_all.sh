#!/bin/bash
# run_all.sh [quick|thorough] : runs every claimed check on /repo as it is (must be clean), one after the other, and prints a summary.
# Used before committing so that the committed evidence files come from clean quick runs.
TIER=${1:-quick}
cd /verif
[ -n "$(git -C /repo status --porcelain)" ] && { echo "/repo is not clean"; exit 2; }
export VERIF_SEED=${VERIF_SEED:-1}
for id in $(python3 -c "import json; print(' '.join(c['property_id'] for c in json.load(open('MANIFEST.json'))['checks']))"); do
  s=$(date +%s)
  out=$(bin/check $id $TIER 2>&1); rc=$?
  echo "$id rc=$rc $(( $(date +%s) - s ))s known=$(echo "$out" | grep -c '^KNOWN-FINDING') viol=$(echo "$out" | grep -c '^VIOLATION')"
done
python3 - <<'PY'
import json,glob
for f in sorted(glob.glob('/verif/evidence/C*.json')):
    e=json.load(open(f)); c=e['coverage']
    print(e['property_id'], e['tier'], 'obl', c['obligations'], 'dis', c['discharged'], 'eval', c['evaluations'], 'traces', c['traces_validated_against_impl'], 'mism', c['correspondence_mismatches'], 'viol', e['violations'])
PY
