#!/bin/bash
# new_seed_multi.sh <ID> <suffix>: worktree + prompt for a sub-agent that produces three small mutants
ID=$1; SFX=${2:-m}
WT=/tmp/wt-$ID$SFX; SD=/tmp/seed-$ID$SFX
git -C /repo worktree add -q --detach $WT HEAD && mkdir -p $SD
python3 - "$ID" "$WT" "$SD" <<'PY'
import json,sys
pid,wt,sd=sys.argv[1:4]
for l in open('/verif/properties.jsonl'):
    p=json.loads(l)
    if p['id']==pid:
        prop="%s — %s\n\nStatement: %s\n\nQuantified over: %s\n\nCode anchors (files): %s\n"%(p['id'],p['title'],p['statement'],p['quantifier']['text'],", ".join(p['anchors']['files']))
t=open('/verif/tools/seed-prompt-multi.txt').read().replace('WORKTREE',wt).replace('OUTDIR',sd).replace('PROPERTY_TEXT',prop)
open(sd+'/prompt.txt','w').write(t)
PY
echo "$SD/prompt.txt"
