#!/usr/bin/env python3
"""whichcmd.py <workdir>: print differing output lines of impl.txt / model.txt next to the history command that produced them."""
import sys, os
w = sys.argv[1]
hist = open(os.path.join(w, "history.txt"), errors="replace").read().split("\n")
impl = open(os.path.join(w, "impl.txt"), errors="replace").read().split("\n")
model = open(os.path.join(w, "model.txt"), errors="replace").read().split("\n")
two = {"ENDTX": 2, "VB": 2}
one = {"GD", "UPROBE", "ENDSIGN", "CRASH", "QH", "UPGRADE", "ENDBLOCK", "Q", "DUMP", "EXPORTIMPORT", "KS", "CK", "DOC", "KEY58", "SIGT", "STR", "DSTR"}
cmds = []
for l in hist:
    k = l.split(" ")[0]
    if k in two:
        cmds += [l] * two[k]
    elif k in one:
        cmds.append(l)
n = 0
for i, (a, m) in enumerate(zip(impl, model)):
    if a != m:
        n += 1
        if n <= int(sys.argv[2]) if len(sys.argv) > 2 else 10:
            print(i, "CMD", (cmds[i] if i < len(cmds) else "?")[:300])
            print("   impl ", a[:300]); print("   model", m[:300])
print(n, "diffs;", len(impl), len(model), len(cmds))
