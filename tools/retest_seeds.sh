#!/bin/bash
# retest_seeds.sh : applies every kept seeded change in turn, runs the quick check of its property, restores /repo,
# and writes /verif/seeded/RESULTS.txt (one line per seed: violation lines reported, with/without a concrete replay)
cd /verif
[ -n "$(git -C /repo status --porcelain)" ] && { echo "/repo is not clean"; exit 2; }
: > seeded/RESULTS.txt
for d in seeded/C*/; do
  id=$(basename $d | cut -c1-3)
  trap 'git -C /repo checkout -- . ; git -C /repo clean -fdq' EXIT
  git -C /repo apply /verif/$d/patch.diff || { echo "$(basename $d) PATCH-DOES-NOT-APPLY" >> seeded/RESULTS.txt; continue; }
  out=$(timeout 1800 bin/check $id quick 2>&1)
  git -C /repo checkout -- . ; git -C /repo clean -fdq
  v=$(echo "$out" | grep -c '^VIOLATION'); n=$(echo "$out" | grep '^VIOLATION' | grep -c 'no-failing-input-found')
  echo "$(basename $d) violations=$v without_input=$n" >> seeded/RESULTS.txt
done
cat seeded/RESULTS.txt
