#!/bin/bash
# check2.sh <id>... : runs quick checks on the private copy (/tmp/verif2 + clean /tmp/repo2)
rsync -a --delete --exclude _build --exclude replays --exclude .git /verif/ /tmp/verif2/
mkdir -p /tmp/verif2/_build
export VERIF_REPO=/tmp/repo2
[ -d /tmp/repo2 ] || git -C /repo worktree add -q --detach /tmp/repo2 HEAD
git -C /tmp/repo2 checkout -q --detach $(git -C /repo rev-parse HEAD) 2>/dev/null
git -C /tmp/repo2 checkout -q -- . ; git -C /tmp/repo2 clean -fdq
for c in "$@"; do
  out=$(timeout 1500 /tmp/verif2/bin/check $c quick 2>&1)
  echo "== $c: $(echo "$out" | grep -c '^VIOLATION') violation(s) $(echo "$out" | grep -c '^KNOWN') known; $(echo "$out" | grep '^VIOLATION' | head -2 | cut -c1-140 | tr '\n' ' ')"
done
