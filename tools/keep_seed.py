#!/usr/bin/env python3
"""keep_seed.py <ID> <name> <seed-dir> <worktree> <detected_by> : stores a confirmed seeded change under
/verif/seeded/<ID>-<name>/ (patch.diff, demonstration, meta.json) and removes the scratch worktree."""
import json, os, shutil, subprocess, sys
pid, name, sd, wt, detected = sys.argv[1:6]
keepwt = len(sys.argv) > 6 and sys.argv[6] == "keepwt"
dst = "/verif/seeded/%s-%s" % (pid, name)
os.makedirs(dst, exist_ok=True)
shutil.copy(os.path.join(sd, "patch.diff"), dst)
for root, _, files in os.walk(os.path.join(sd, "demo_files")):
    for f in files:
        shutil.copy(os.path.join(root, f), os.path.join(dst, f))
for f in ("demo_cmd.txt", "notes.md", "confirm.log"):
    if os.path.exists(os.path.join(sd, f)):
        shutil.copy(os.path.join(sd, f), dst)
notes = open(os.path.join(sd, "notes.md")).read() if os.path.exists(os.path.join(sd, "notes.md")) else ""
meta = {"property": pid, "name": name,
        "needs_to_manifest": notes[:1500],
        "confirmed": open(os.path.join(sd, "confirm.log")).read(),
        "ran": ["tools/confirm_seed.sh (build, unedited suite, demo with/without the change in a scratch worktree)",
                "git -C /repo apply patch.diff; bin/check %s quick; git -C /repo checkout -- ." % pid],
        "detected_by": detected}
json.dump(meta, open(os.path.join(dst, "meta.json"), "w"), indent=1)
if not keepwt:
    subprocess.run(["git", "-C", "/repo", "worktree", "remove", "--force", wt])
shutil.rmtree(sd, ignore_errors=True)
print("kept", dst)
